package main

// Generator LockBalance (C16, the WEDGE half): every function that takes a mutex gives it back on every way out.
//
// For every function and function literal of the non-test files of client/, pkg/ and server/ the generator follows the
// zero-argument calls X.Lock() / X.RLock() / X.Unlock() / X.RUnlock() in statement order, keyed by the TEXT of X (balance is
// a property of one function body), with a MAY-held set:
//
//	X.Lock() / X.RLock()            X is held (mode W / R)
//	X.Unlock() / X.RUnlock()        X is not held
//	defer X.Unlock()                X is given back at every exit: not tracked any further
//	defer func() { … X.Unlock() … }()   the same
//	if / switch / select            the UNION of the paths that go on (a lock held on one of them counts as held)
//	for / range                     the union of "not entered", the end of the body and every break / continue
//	return, end of the body         every X still held is a LEAK: emitted with file, function, line of the exit, X, mode
//	panic(…) / os.Exit / log.Fatal* not an exit that anybody waits behind
//	go func(){…}(), func literals   bodies of their own, starting with nothing held
//
// Emitted: `lockingFuncs` (functions that lock something, with the lock expressions: the extractor is not blind),
// `leaks`.  Whether a leak is tolerated (a function whose contract is "returns with the lock held") is decided in Lean
// against a pinned list (Props/C16.lean `lockHandOvers`, empty today).  Syntactic: a method that is not a mutex but is
// called Lock / Unlock without arguments is followed too (none in the tree that is not a mutex or a wrapper of one).

import (
	"fmt"
	"go/ast"
	"go/parser"
	"go/token"
	"os"
	"path/filepath"
	"sort"
	"strings"
)

func init() { generators["LockBalance"] = genLockBalance }

type lbLeak struct {
	file, fn string
	line     int
	lock     string
	mode     string
}

type lbState map[string]string // lock expression text -> "W" | "R"

func (s lbState) clone() lbState {
	o := lbState{}
	for k, v := range s {
		o[k] = v
	}
	return o
}

func lbUnion(a, b lbState) lbState {
	o := a.clone()
	for k, v := range b {
		if _, ok := o[k]; !ok {
			o[k] = v
		}
	}
	return o
}

type lbWalker struct {
	fset     *token.FileSet
	file     string
	fn       string
	leaks    *[]lbLeak
	locks    map[string]bool // lock expressions this body locks
	loopOuts []*lbState      // stack: states that leave the innermost loop by break / continue
	pending  *[]lbPending    // function literals found, walked afterwards
}

type lbPending struct {
	fn   string
	body *ast.BlockStmt
}

func lbLockCall(fset *token.FileSet, e ast.Expr) (string, string) {
	c, ok := e.(*ast.CallExpr)
	if !ok || len(c.Args) != 0 {
		return "", ""
	}
	sel, ok := c.Fun.(*ast.SelectorExpr)
	if !ok {
		return "", ""
	}
	switch sel.Sel.Name {
	case "Lock", "RLock", "Unlock", "RUnlock":
		return agSrc(fset, sel.X), sel.Sel.Name
	}
	return "", ""
}

// function literals inside an expression are bodies of their own
func (w *lbWalker) lits(n ast.Node) {
	if n == nil {
		return
	}
	ast.Inspect(n, func(x ast.Node) bool {
		if fl, ok := x.(*ast.FuncLit); ok {
			*w.pending = append(*w.pending, lbPending{w.fn + ">func", fl.Body})
			return false
		}
		return true
	})
}

func (w *lbWalker) exit(at ast.Node, st lbState) {
	var ks []string
	for k := range st {
		ks = append(ks, k)
	}
	sort.Strings(ks)
	for _, k := range ks {
		*w.leaks = append(*w.leaks, lbLeak{w.file, w.fn, w.fset.Position(at.Pos()).Line, k, st[k]})
	}
}

func lbNoReturn(s ast.Stmt) bool {
	es, ok := s.(*ast.ExprStmt)
	if !ok {
		return false
	}
	c, ok := es.X.(*ast.CallExpr)
	if !ok {
		return false
	}
	switch f := c.Fun.(type) {
	case *ast.Ident:
		return f.Name == "panic"
	case *ast.SelectorExpr:
		if p, ok := f.X.(*ast.Ident); ok {
			return (p.Name == "os" && f.Sel.Name == "Exit") || (p.Name == "log" && strings.HasPrefix(f.Sel.Name, "Fatal"))
		}
	}
	return false
}

// returns the state after the list and whether the path ended (return / branch / panic)
func (w *lbWalker) block(list []ast.Stmt, st lbState) (lbState, bool) {
	for _, s := range list {
		var term bool
		st, term = w.stmt(s, st)
		if term {
			return st, true
		}
	}
	return st, false
}

func (w *lbWalker) stmt(s ast.Stmt, st lbState) (lbState, bool) {
	switch x := s.(type) {
	case nil:
		return st, false
	case *ast.ExprStmt:
		if lx, op := lbLockCall(w.fset, x.X); lx != "" {
			st = st.clone()
			switch op {
			case "Lock":
				st[lx] = "W"
				w.locks[lx] = true
			case "RLock":
				st[lx] = "R"
				w.locks[lx] = true
			default:
				delete(st, lx)
			}
			return st, false
		}
		w.lits(x.X)
		if lbNoReturn(x) {
			return st, true
		}
		return st, false
	case *ast.DeferStmt:
		if lx, op := lbLockCall(w.fset, x.Call); lx != "" && (op == "Unlock" || op == "RUnlock") {
			st = st.clone()
			delete(st, lx)
			return st, false
		}
		if fl, ok := x.Call.Fun.(*ast.FuncLit); ok {
			// a deferred closure: what it unlocks is given back at every exit
			st = st.clone()
			ast.Inspect(fl.Body, func(n ast.Node) bool {
				if e, ok := n.(ast.Expr); ok {
					if lx, op := lbLockCall(w.fset, e); lx != "" && (op == "Unlock" || op == "RUnlock") {
						delete(st, lx)
					}
				}
				return true
			})
			return st, false
		}
		w.lits(x.Call)
		return st, false
	case *ast.GoStmt:
		w.lits(x.Call)
		return st, false
	case *ast.ReturnStmt:
		for _, r := range x.Results {
			w.lits(r)
		}
		w.exit(x, st)
		return st, true
	case *ast.BranchStmt:
		if (x.Tok == token.BREAK || x.Tok == token.CONTINUE) && len(w.loopOuts) > 0 {
			top := w.loopOuts[len(w.loopOuts)-1]
			*top = lbUnion(*top, st)
		}
		return st, x.Tok != token.FALLTHROUGH
	case *ast.BlockStmt:
		return w.block(x.List, st)
	case *ast.LabeledStmt:
		return w.stmt(x.Stmt, st)
	case *ast.IfStmt:
		st, _ = w.stmt(x.Init, st)
		w.lits(x.Cond)
		out := lbState{}
		live := false
		if s1, t1 := w.block(x.Body.List, st.clone()); !t1 {
			out, live = lbUnion(out, s1), true
		}
		if x.Else != nil {
			if s2, t2 := w.stmt(x.Else, st.clone()); !t2 {
				out, live = lbUnion(out, s2), true
			}
		} else {
			out, live = lbUnion(out, st), true
		}
		return out, !live
	case *ast.ForStmt, *ast.RangeStmt:
		var body *ast.BlockStmt
		infinite := false
		switch l := x.(type) {
		case *ast.ForStmt:
			st, _ = w.stmt(l.Init, st)
			w.lits(l.Cond)
			body = l.Body
			infinite = l.Cond == nil
		case *ast.RangeStmt:
			w.lits(l.X)
			body = l.Body
		}
		outs := lbState{}
		w.loopOuts = append(w.loopOuts, &outs)
		s1, t1 := w.block(body.List, st.clone())
		w.loopOuts = w.loopOuts[:len(w.loopOuts)-1]
		res := outs
		if !t1 {
			res = lbUnion(res, s1)
		}
		if !infinite {
			res = lbUnion(res, st)
		}
		// `for { … }` without break: the statements behind it are not reached
		if infinite && len(outs) == 0 && t1 {
			return res, !lbHasBreak(body)
		}
		return res, false
	case *ast.SwitchStmt, *ast.TypeSwitchStmt, *ast.SelectStmt:
		var clauses []ast.Stmt
		hasDefault := false
		switch l := x.(type) {
		case *ast.SwitchStmt:
			st, _ = w.stmt(l.Init, st)
			w.lits(l.Tag)
			clauses = l.Body.List
		case *ast.TypeSwitchStmt:
			st, _ = w.stmt(l.Init, st)
			clauses = l.Body.List
		case *ast.SelectStmt:
			clauses = l.Body.List
			hasDefault = true // a select always takes one of its clauses
		}
		out := lbState{}
		live := false
		outs := lbState{}
		w.loopOuts = append(w.loopOuts, &outs) // `break` inside a switch / select leaves it
		for _, c := range clauses {
			var body []ast.Stmt
			switch cc := c.(type) {
			case *ast.CaseClause:
				if cc.List == nil {
					hasDefault = true
				}
				for _, e := range cc.List {
					w.lits(e)
				}
				body = cc.Body
			case *ast.CommClause:
				in := st.clone()
				if cc.Comm != nil {
					in, _ = w.stmt(cc.Comm, in)
				}
				body = cc.Body
				_ = in
			}
			if s1, t1 := w.block(body, st.clone()); !t1 {
				out, live = lbUnion(out, s1), true
			}
		}
		w.loopOuts = w.loopOuts[:len(w.loopOuts)-1]
		if len(outs) > 0 || lbHasBreakList(clauses) {
			out, live = lbUnion(out, outs), true
		}
		if !hasDefault {
			out, live = lbUnion(out, st), true
		}
		return out, !live
	case *ast.AssignStmt:
		for _, r := range x.Rhs {
			w.lits(r)
		}
		return st, false
	case *ast.DeclStmt:
		w.lits(x)
		return st, false
	case *ast.SendStmt:
		w.lits(x.Value)
		return st, false
	}
	return st, false
}

func lbHasBreak(b *ast.BlockStmt) bool { return lbHasBreakList(b.List) }

// a break that belongs to this statement list's loop / switch (not to a nested one); labelled breaks count
func lbHasBreakList(list []ast.Stmt) bool {
	found := false
	var visit func(n ast.Node, depth int)
	visit = func(n ast.Node, depth int) {
		ast.Inspect(n, func(x ast.Node) bool {
			if found || x == nil {
				return false
			}
			switch y := x.(type) {
			case *ast.FuncLit:
				return false
			case *ast.BranchStmt:
				if y.Tok == token.BREAK && (depth == 0 || y.Label != nil) {
					found = true
				}
			case *ast.ForStmt, *ast.RangeStmt, *ast.SwitchStmt, *ast.TypeSwitchStmt, *ast.SelectStmt:
				if x != n {
					visit(childBody(y), depth+1)
					return false
				}
			}
			return true
		})
	}
	for _, s := range list {
		visit(s, 0)
	}
	return found
}

func childBody(n ast.Node) ast.Node {
	switch y := n.(type) {
	case *ast.ForStmt:
		return y.Body
	case *ast.RangeStmt:
		return y.Body
	case *ast.SwitchStmt:
		return y.Body
	case *ast.TypeSwitchStmt:
		return y.Body
	case *ast.SelectStmt:
		return y.Body
	}
	return n
}

func genLockBalance(repo, out string) error {
	fset := token.NewFileSet()
	var leaks []lbLeak
	type lf struct {
		file, fn string
		locks    []string
	}
	var locking []lf
	nFuncs := 0
	for _, root := range []string{"client", "pkg", "server"} {
		var files []string
		err := filepath.Walk(filepath.Join(repo, root), func(p string, info os.FileInfo, err error) error {
			if err != nil {
				return err
			}
			n := info.Name()
			if !info.IsDir() && strings.HasSuffix(n, ".go") && !strings.HasSuffix(n, "_test.go") && !strings.HasPrefix(n, "verif_") && !strings.HasSuffix(n, "_verif.go") {
				files = append(files, p)
			}
			return nil
		})
		if err != nil {
			return err
		}
		sort.Strings(files)
		for _, p := range files {
			f, err := parser.ParseFile(fset, p, nil, 0)
			if err != nil {
				return err
			}
			rel, _ := filepath.Rel(repo, p)
			rel = filepath.ToSlash(rel)
			for _, d := range f.Decls {
				fd, ok := d.(*ast.FuncDecl)
				if !ok || fd.Body == nil {
					continue
				}
				_, rt := lfRecvType(fd)
				name := fd.Name.Name
				if rt != "" {
					name = rt + "." + name
				}
				pending := []lbPending{{name, fd.Body}}
				for len(pending) > 0 {
					cur := pending[0]
					pending = pending[1:]
					nFuncs++
					w := &lbWalker{fset: fset, file: rel, fn: cur.fn, leaks: &leaks, locks: map[string]bool{}, pending: &pending}
					st, term := w.block(cur.body.List, lbState{})
					if !term {
						w.exit(&ast.BasicLit{ValuePos: cur.body.Rbrace}, st)
					}
					if len(w.locks) > 0 {
						var ls []string
						for k := range w.locks {
							ls = append(ls, k)
						}
						sort.Strings(ls)
						locking = append(locking, lf{rel, cur.fn, ls})
					}
				}
			}
		}
	}
	if len(locking) == 0 {
		return fail("no function locks anything (extractor blind?)")
	}
	var b strings.Builder
	b.WriteString("/- GENERATED by translate/gen_lockbalance.go from the frp source tree. Do not edit. -/\n")
	b.WriteString("namespace Frp.Gen.LockBalance\n\n")
	fmt.Fprintf(&b, "/-- function bodies (declarations and literals) of client/ pkg/ server/ that were followed -/\ndef bodies : Nat := %d\n\n", nFuncs)
	b.WriteString("/-- every body that locks something: (file, function, lock expressions) -/\ndef lockingFuncs : List (String × String × List String) :=\n  [")
	for i, l := range locking {
		if i > 0 {
			b.WriteString(",\n   ")
		}
		qs := make([]string, len(l.locks))
		for k, x := range l.locks {
			qs[k] = agLeanStr(x)
		}
		fmt.Fprintf(&b, "(%s, %s, [%s])", agLeanStr(l.file), agLeanStr(l.fn), strings.Join(qs, ", "))
	}
	b.WriteString("]\n\n/-- ways out of a body with a lock it took still held: (file, function, line of the exit, lock expression, mode) -/\n")
	b.WriteString("def leaks : List (String × String × Nat × String × String) :=\n  [")
	for i, l := range leaks {
		if i > 0 {
			b.WriteString(",\n   ")
		}
		fmt.Fprintf(&b, "(%s, %s, %d, %s, %s)", agLeanStr(l.file), agLeanStr(l.fn), l.line, agLeanStr(l.lock), agLeanStr(l.mode))
	}
	b.WriteString("]\n\nend Frp.Gen.LockBalance\n")
	return os.WriteFile(filepath.Join(out, "LockBalance.lean"), []byte(b.String()), 0o644)
}
