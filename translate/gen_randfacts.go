package main

// Generator RandFacts (C12): the shape of the run-id generator, read from pkg/util/util/util.go with
// go/ast and written to lean/Frp/Gen/RandFacts.lean.  The session model (Frp/Model/Sess.lean) treats the
// generator as abstract ("a generated id is one no session has"); what makes that reasonable is that
// every call of RandIDWithLen formats bytes that THIS call read from crypto/rand into a buffer nobody
// else can see.  The facts:
//
//	randIDBody     RandID's statements (source text)                       — `return RandIDWithLen(16)`
//	randIDLen      the literal length RandID asks for
//	stmts          RandIDWithLen's statements (source text, whitespace-normalised)
//	calls          every call inside RandIDWithLen in source order (callee source text)
//	bufVar         the variable handed to fmt.Sprintf("%x", ·)
//	bufIsLocalMake bufVar is declared inside the function by `bufVar := make([]byte, <len>)` and never assigned again
//	bufLenExpr     <len> (source text);  bufLenDiv / bufLenAdd when it has the shape idLen/<d> + <a>
//	readPkg        import path behind the package name of the `<pkg>.Read(bufVar)` call that fills bufVar ("" if none)
//	readFillsBuf   that call's only argument is bufVar itself (the whole private buffer)
//	formatVerb     the format string of the Sprintf call
//	resultExpr     the expression returned as id on the success path
//	freeIdents     identifiers used in RandIDWithLen that denote package-level declarations of package util
//	               (variables, constants, functions, types) — package state / helpers the call depends on
//	packageVars    package-level `var` declarations of package util (all files)
//	goStmts        `go` statements / closures inside the function
//
// Fails ("BROKEN TIE") when RandID / RandIDWithLen are missing.  A changed shape is NOT a failure of the
// translator: the facts are written as found and the Lean obligation `C12.randid_code_shape` decides.

import (
	"fmt"
	"go/ast"
	"go/parser"
	"go/token"
	"os"
	"path/filepath"
	"sort"
	"strconv"
	"strings"
)

func init() { generators["RandFacts"] = genRandFacts }

func genRandFacts(repo, out string) error {
	fset := token.NewFileSet()
	dir := filepath.Join(repo, "pkg", "util", "util")
	ents, err := os.ReadDir(dir)
	if err != nil {
		return err
	}
	pkgLevel := map[string]string{} // name -> kind
	var pkgVars []string
	var randID, randIDWithLen *ast.FuncDecl
	var homeFile *ast.File
	for _, e := range ents {
		n := e.Name()
		if e.IsDir() || !strings.HasSuffix(n, ".go") || strings.HasSuffix(n, "_test.go") || strings.HasPrefix(n, "verif_") {
			continue
		}
		f, err := parser.ParseFile(fset, filepath.Join(dir, n), nil, 0)
		if err != nil {
			return err
		}
		for _, d := range f.Decls {
			switch d := d.(type) {
			case *ast.FuncDecl:
				if d.Recv == nil {
					pkgLevel[d.Name.Name] = "func"
					if d.Name.Name == "RandID" {
						randID = d
					}
					if d.Name.Name == "RandIDWithLen" {
						randIDWithLen, homeFile = d, f
					}
				}
			case *ast.GenDecl:
				for _, sp := range d.Specs {
					switch sp := sp.(type) {
					case *ast.ValueSpec:
						for _, id := range sp.Names {
							kind := "var"
							if d.Tok == token.CONST {
								kind = "const"
							}
							pkgLevel[id.Name] = kind
							if kind == "var" && id.Name != "_" {
								pkgVars = append(pkgVars, n+":"+id.Name)
							}
						}
					case *ast.TypeSpec:
						pkgLevel[sp.Name.Name] = "type"
					}
				}
			}
		}
	}
	if randID == nil || randID.Body == nil {
		return fail("pkg/util/util: func RandID not found")
	}
	if randIDWithLen == nil || randIDWithLen.Body == nil {
		return fail("pkg/util/util: func RandIDWithLen not found")
	}
	sort.Strings(pkgVars)
	imports := map[string]string{} // local name -> path
	for _, im := range homeFile.Imports {
		p, _ := strconv.Unquote(im.Path.Value)
		name := p[strings.LastIndex(p, "/")+1:]
		if strings.HasSuffix(p, "/v2") {
			q := strings.TrimSuffix(p, "/v2")
			name = q[strings.LastIndex(q, "/")+1:]
		}
		if im.Name != nil {
			name = im.Name.Name
		}
		imports[name] = p
	}

	// RandID
	var randIDBody []string
	for _, s := range randID.Body.List {
		randIDBody = append(randIDBody, agSrc(fset, s))
	}
	randIDLen := -1
	ast.Inspect(randID.Body, func(n ast.Node) bool {
		if c, ok := n.(*ast.CallExpr); ok {
			if id, ok := c.Fun.(*ast.Ident); ok && id.Name == "RandIDWithLen" && len(c.Args) == 1 {
				if lit, ok := c.Args[0].(*ast.BasicLit); ok && lit.Kind == token.INT {
					randIDLen, _ = strconv.Atoi(lit.Value)
				}
			}
		}
		return true
	})

	// RandIDWithLen
	fn := randIDWithLen
	var stmts []string
	for _, s := range fn.Body.List {
		stmts = append(stmts, agSrc(fset, s))
	}
	// locals: parameters, named results, := / var declarations inside the body
	locals := map[string]bool{}
	addFields := func(fl *ast.FieldList) {
		if fl == nil {
			return
		}
		for _, f := range fl.List {
			for _, id := range f.Names {
				locals[id.Name] = true
			}
		}
	}
	addFields(fn.Type.Params)
	addFields(fn.Type.Results)
	defines := map[string][]ast.Expr{} // local name -> right-hand sides of its `:=`
	assigns := map[string]int{}        // name -> number of plain assignments (=, op=, ++)
	ast.Inspect(fn.Body, func(n ast.Node) bool {
		switch n := n.(type) {
		case *ast.AssignStmt:
			for i, l := range n.Lhs {
				id, ok := l.(*ast.Ident)
				if !ok || id.Name == "_" {
					continue
				}
				if n.Tok == token.DEFINE {
					locals[id.Name] = true
					var rhs ast.Expr
					if len(n.Rhs) == len(n.Lhs) {
						rhs = n.Rhs[i]
					} else if len(n.Rhs) == 1 {
						rhs = n.Rhs[0]
					}
					defines[id.Name] = append(defines[id.Name], rhs)
				} else {
					assigns[id.Name]++
				}
			}
		case *ast.IncDecStmt:
			if id, ok := n.X.(*ast.Ident); ok {
				assigns[id.Name]++
			}
		case *ast.ValueSpec:
			for _, id := range n.Names {
				locals[id.Name] = true
				defines[id.Name] = append(defines[id.Name], nil)
			}
		case *ast.RangeStmt:
			for _, e := range []ast.Expr{n.Key, n.Value} {
				if id, ok := e.(*ast.Ident); ok && n.Tok == token.DEFINE {
					locals[id.Name] = true
				}
			}
		}
		return true
	})

	var calls, goStmts []string
	bufVar, formatVerb, readPkg := "", "", ""
	readFillsBuf := false
	type readCall struct {
		pkg string
		arg string
	}
	var reads []readCall
	free := map[string]bool{}
	var stack []ast.Node
	ast.Inspect(fn.Body, func(n ast.Node) bool {
		if n == nil {
			stack = stack[:len(stack)-1]
			return true
		}
		stack = append(stack, n)
		switch n := n.(type) {
		case *ast.GoStmt:
			goStmts = append(goStmts, agSrc(fset, n))
		case *ast.FuncLit:
			goStmts = append(goStmts, "closure")
		case *ast.CallExpr:
			calls = append(calls, agSrc(fset, n.Fun))
			if sel, ok := n.Fun.(*ast.SelectorExpr); ok {
				if x, ok := sel.X.(*ast.Ident); ok && !locals[x.Name] {
					if imports[x.Name] == "fmt" && sel.Sel.Name == "Sprintf" && len(n.Args) == 2 {
						if lit, ok := n.Args[0].(*ast.BasicLit); ok && lit.Kind == token.STRING {
							formatVerb, _ = strconv.Unquote(lit.Value)
						}
						if id, ok := n.Args[1].(*ast.Ident); ok {
							bufVar = id.Name
						} else {
							bufVar = "(" + agSrc(fset, n.Args[1]) + ")"
						}
					}
					if sel.Sel.Name == "Read" && len(n.Args) == 1 {
						reads = append(reads, readCall{imports[x.Name], agSrc(fset, n.Args[0])})
					}
				}
			}
		case *ast.Ident:
			// not the selected name of x.Sel, not a composite-literal key
			if len(stack) >= 2 {
				if sel, ok := stack[len(stack)-2].(*ast.SelectorExpr); ok && sel.Sel == n {
					break
				}
			}
			if !locals[n.Name] {
				if _, ok := pkgLevel[n.Name]; ok {
					free[n.Name] = true
				}
			}
		}
		return true
	})
	for _, r := range reads {
		if r.arg == bufVar {
			readPkg, readFillsBuf = r.pkg, true
		}
	}
	if readPkg == "" && len(reads) > 0 {
		readPkg = reads[0].pkg
	}
	bufIsLocalMake := false
	bufLenExpr := ""
	bufLenDiv, bufLenAdd := 0, 0
	if ds := defines[bufVar]; len(ds) == 1 && ds[0] != nil && assigns[bufVar] == 0 {
		if c, ok := ds[0].(*ast.CallExpr); ok {
			if id, ok := c.Fun.(*ast.Ident); ok && id.Name == "make" && !locals["make"] && pkgLevel["make"] == "" && len(c.Args) == 2 &&
				agSrc(fset, c.Args[0]) == "[]byte" {
				bufIsLocalMake = true
				bufLenExpr = agSrc(fset, c.Args[1])
				// idLen/<d> + <a>
				if be, ok := c.Args[1].(*ast.BinaryExpr); ok && be.Op == token.ADD {
					if a, ok := be.Y.(*ast.BasicLit); ok && a.Kind == token.INT {
						if q, ok := be.X.(*ast.BinaryExpr); ok && q.Op == token.QUO {
							if id, ok := q.X.(*ast.Ident); ok && len(fn.Type.Params.List) == 1 && len(fn.Type.Params.List[0].Names) == 1 &&
								id.Name == fn.Type.Params.List[0].Names[0].Name {
								if d, ok := q.Y.(*ast.BasicLit); ok && d.Kind == token.INT {
									bufLenDiv, _ = strconv.Atoi(d.Value)
									bufLenAdd, _ = strconv.Atoi(a.Value)
								}
							}
						}
					}
				}
			}
		}
	}
	// the expression returned as id on the success path: last return statement with two results,
	// or (naked / named) the last value assigned to the first named result
	resultExpr := ""
	if last, ok := fn.Body.List[len(fn.Body.List)-1].(*ast.ReturnStmt); ok && len(last.Results) == 2 {
		resultExpr = agSrc(fset, last.Results[0])
	}
	var freeIdents []string
	for k := range free {
		freeIdents = append(freeIdents, pkgLevel[k]+" "+k)
	}
	sort.Strings(freeIdents)

	strList := func(xs []string) string {
		q := []string{}
		for _, x := range xs {
			q = append(q, agLeanStr(x))
		}
		return "[" + strings.Join(q, ", ") + "]"
	}
	var b strings.Builder
	b.WriteString("/- GENERATED by translate/gen_randfacts.go from pkg/util/util (RandID, RandIDWithLen). Do not edit. -/\n")
	b.WriteString("namespace Frp.Gen.RandFacts\n\n")
	fmt.Fprintf(&b, "def randIDBody : List String := %s\n", strList(randIDBody))
	if randIDLen < 0 {
		randIDLen = 0
	}
	fmt.Fprintf(&b, "def randIDLen : Nat := %d\n", randIDLen)
	fmt.Fprintf(&b, "def stmts : List String :=\n  %s\n", strList(stmts))
	fmt.Fprintf(&b, "def calls : List String := %s\n", strList(calls))
	fmt.Fprintf(&b, "def bufVar : String := %s\n", agLeanStr(bufVar))
	fmt.Fprintf(&b, "def bufIsLocalMake : Bool := %v\n", bufIsLocalMake)
	fmt.Fprintf(&b, "def bufLenExpr : String := %s\n", agLeanStr(bufLenExpr))
	fmt.Fprintf(&b, "def bufLenDiv : Nat := %d\n", bufLenDiv)
	fmt.Fprintf(&b, "def bufLenAdd : Nat := %d\n", bufLenAdd)
	fmt.Fprintf(&b, "def readPkg : String := %s\n", agLeanStr(readPkg))
	fmt.Fprintf(&b, "def readFillsBuf : Bool := %v\n", readFillsBuf)
	fmt.Fprintf(&b, "def formatVerb : String := %s\n", agLeanStr(formatVerb))
	fmt.Fprintf(&b, "def resultExpr : String := %s\n", agLeanStr(resultExpr))
	fmt.Fprintf(&b, "def freeIdents : List String := %s\n", strList(freeIdents))
	fmt.Fprintf(&b, "def packageVars : List String := %s\n", strList(pkgVars))
	fmt.Fprintf(&b, "def goStmts : List String := %s\n", strList(goStmts))
	b.WriteString("\nend Frp.Gen.RandFacts\n")
	return os.WriteFile(filepath.Join(out, "RandFacts.lean"), []byte(b.String()), 0o644)
}
