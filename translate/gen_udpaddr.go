package main

// Generator UdpAddr (C17): the SHAPE of the address a UDPPacket carries and of the code that puts it there, read from
// the sources with go/ast and written to lean/Frp/Gen/UdpAddr.lean:
//
//	GOROOT/src/net/udpsock.go   the field list of `type UDPAddr struct` (name, type text, tag) — every field is a
//	                            member of the JSON object encoding/json writes for a *net.UDPAddr — and the methods
//	                            declared on UDPAddr in package net (a MarshalJSON / MarshalText there would replace
//	                            the member-wise encoding)
//	GOROOT/src/net/ip.go        `type IP <underlying>`, the constants IPv4len / IPv6len
//	pkg/proto/udp/udp.go        NewUDPPacket: parameter list, the composite literal it returns (field ↦ source text of
//	                            the value), the number of statements; GetContent: the right-hand side of its assignment
//	every non-test .go file     every call of NewUDPPacket (file, enclosing top-level function, argument texts) and
//	                            every composite literal of msg.UDPPacket outside the constructor
//
// Fails ("BROKEN TIE") when an anchor is missing.  The facts are syntactic.

import (
	"bytes"
	"fmt"
	"go/ast"
	"go/parser"
	"go/printer"
	"go/token"
	"os"
	"os/exec"
	"path/filepath"
	"runtime"
	"sort"
	"strings"
)

func init() { generators["UdpAddr"] = genUdpAddr }

func uaGoroot() string {
	if out, err := exec.Command("go", "env", "GOROOT").Output(); err == nil && strings.TrimSpace(string(out)) != "" {
		return strings.TrimSpace(string(out))
	}
	return runtime.GOROOT()
}

func uaText(fset *token.FileSet, n ast.Node) string {
	var b bytes.Buffer
	_ = printer.Fprint(&b, fset, n)
	return strings.Join(strings.Fields(b.String()), " ")
}

func uaQ(s string) string {
	return "\"" + strings.NewReplacer("\\", "\\\\", "\"", "\\\"").Replace(s) + "\""
}

func genUdpAddr(repo, out string) error {
	fset := token.NewFileSet()
	netDir := filepath.Join(uaGoroot(), "src", "net")

	// ---- net.UDPAddr
	f, err := parser.ParseFile(fset, filepath.Join(netDir, "udpsock.go"), nil, 0)
	if err != nil {
		return fail("net/udpsock.go: %v", err)
	}
	type fld struct{ name, typ, tag string }
	var fields []fld
	found := false
	for _, d := range f.Decls {
		gd, ok := d.(*ast.GenDecl)
		if !ok {
			continue
		}
		for _, s := range gd.Specs {
			ts, ok := s.(*ast.TypeSpec)
			if !ok || ts.Name.Name != "UDPAddr" {
				continue
			}
			st, ok := ts.Type.(*ast.StructType)
			if !ok {
				return fail("net.UDPAddr is not a struct type")
			}
			found = true
			for _, fl := range st.Fields.List {
				tag := ""
				if fl.Tag != nil {
					tag = fl.Tag.Value
				}
				if len(fl.Names) == 0 {
					return fail("net.UDPAddr has an embedded field %s", uaText(fset, fl.Type))
				}
				for _, n := range fl.Names {
					fields = append(fields, fld{n.Name, uaText(fset, fl.Type), tag})
				}
			}
		}
	}
	if !found {
		return fail("net/udpsock.go: type UDPAddr not found")
	}
	// methods on UDPAddr anywhere in package net (build tags ignored: the union)
	methods := map[string]bool{}
	ents, err := os.ReadDir(netDir)
	if err != nil {
		return err
	}
	ipUnder, v4len, v6len := "", "", ""
	for _, e := range ents {
		if e.IsDir() || !strings.HasSuffix(e.Name(), ".go") || strings.HasSuffix(e.Name(), "_test.go") {
			continue
		}
		nf, err := parser.ParseFile(fset, filepath.Join(netDir, e.Name()), nil, 0)
		if err != nil {
			continue
		}
		for _, d := range nf.Decls {
			switch v := d.(type) {
			case *ast.FuncDecl:
				if v.Recv == nil || len(v.Recv.List) != 1 {
					continue
				}
				t := v.Recv.List[0].Type
				if s, ok := t.(*ast.StarExpr); ok {
					t = s.X
				}
				if id, ok := t.(*ast.Ident); ok && id.Name == "UDPAddr" {
					methods[v.Name.Name] = true
				}
			case *ast.GenDecl:
				if e.Name() != "ip.go" {
					continue
				}
				for _, s := range v.Specs {
					switch sp := s.(type) {
					case *ast.TypeSpec:
						if sp.Name.Name == "IP" {
							ipUnder = uaText(fset, sp.Type)
						}
					case *ast.ValueSpec:
						for i, n := range sp.Names {
							if i < len(sp.Values) && n.Name == "IPv4len" {
								v4len = uaText(fset, sp.Values[i])
							}
							if i < len(sp.Values) && n.Name == "IPv6len" {
								v6len = uaText(fset, sp.Values[i])
							}
						}
					}
				}
			}
		}
	}
	if ipUnder == "" || v4len == "" || v6len == "" {
		return fail("net/ip.go: type IP / IPv4len / IPv6len not found")
	}
	var mnames []string
	for m := range methods {
		mnames = append(mnames, m)
	}
	sort.Strings(mnames)

	// ---- pkg/proto/udp/udp.go: NewUDPPacket, GetContent
	uf, err := parser.ParseFile(fset, filepath.Join(repo, "pkg", "proto", "udp", "udp.go"), nil, 0)
	if err != nil {
		return err
	}
	var ctor, getc *ast.FuncDecl
	for _, d := range uf.Decls {
		if fd, ok := d.(*ast.FuncDecl); ok && fd.Recv == nil {
			switch fd.Name.Name {
			case "NewUDPPacket":
				ctor = fd
			case "GetContent":
				getc = fd
			}
		}
	}
	if ctor == nil || ctor.Body == nil {
		return fail("pkg/proto/udp/udp.go: func NewUDPPacket not found")
	}
	if getc == nil || getc.Body == nil {
		return fail("pkg/proto/udp/udp.go: func GetContent not found")
	}
	var params []string
	for _, p := range ctor.Type.Params.List {
		for _, n := range p.Names {
			params = append(params, n.Name+" "+uaText(fset, p.Type))
		}
	}
	var lit *ast.CompositeLit
	if len(ctor.Body.List) > 0 {
		if rs, ok := ctor.Body.List[len(ctor.Body.List)-1].(*ast.ReturnStmt); ok && len(rs.Results) == 1 {
			x := rs.Results[0]
			if u, ok := x.(*ast.UnaryExpr); ok && u.Op == token.AND {
				x = u.X
			}
			lit, _ = x.(*ast.CompositeLit)
		}
	}
	if lit == nil {
		return fail("NewUDPPacket: the last statement is not `return &msg.UDPPacket{…}`")
	}
	var ctorFields [][2]string
	for _, el := range lit.Elts {
		kv, ok := el.(*ast.KeyValueExpr)
		if !ok {
			return fail("NewUDPPacket: positional composite literal")
		}
		ctorFields = append(ctorFields, [2]string{uaText(fset, kv.Key), uaText(fset, kv.Value)})
	}
	getExpr := ""
	ast.Inspect(getc.Body, func(x ast.Node) bool {
		if as, ok := x.(*ast.AssignStmt); ok && len(as.Rhs) == 1 && getExpr == "" {
			getExpr = uaText(fset, as.Rhs[0])
		}
		if rs, ok := x.(*ast.ReturnStmt); ok && len(rs.Results) == 1 && getExpr == "" {
			getExpr = uaText(fset, rs.Results[0])
		}
		return true
	})
	if getExpr == "" {
		return fail("GetContent: no assignment / return expression found")
	}

	// ---- every call of the constructor, every literal of the struct
	type site struct{ file, fn, text string }
	var calls, lits []site
	err = filepath.Walk(repo, func(path string, info os.FileInfo, err error) error {
		if err != nil {
			return nil
		}
		if info.IsDir() {
			if n := info.Name(); path != repo && (strings.HasPrefix(n, ".") || n == "vendor" || n == "node_modules" || n == "test" || n == "web") {
				return filepath.SkipDir
			}
			return nil
		}
		if !strings.HasSuffix(path, ".go") || strings.HasSuffix(path, "_test.go") {
			return nil
		}
		gf, perr := parser.ParseFile(fset, path, nil, 0)
		if perr != nil {
			return nil
		}
		rel, _ := filepath.Rel(repo, path)
		for _, d := range gf.Decls {
			fd, ok := d.(*ast.FuncDecl)
			if !ok || fd.Body == nil {
				continue
			}
			name := mlFuncName(fd)
			ast.Inspect(fd.Body, func(x ast.Node) bool {
				switch v := x.(type) {
				case *ast.CallExpr:
					fn := ""
					switch c := v.Fun.(type) {
					case *ast.Ident:
						fn = c.Name
					case *ast.SelectorExpr:
						fn = c.Sel.Name
					}
					if fn == "NewUDPPacket" {
						var as []string
						for _, a := range v.Args {
							as = append(as, uaText(fset, a))
						}
						calls = append(calls, site{rel, name, strings.Join(as, ", ")})
					}
				case *ast.CompositeLit:
					t := uaText(fset, v.Type)
					if (t == "msg.UDPPacket" || (t == "UDPPacket" && filepath.Dir(rel) == filepath.Join("pkg", "msg"))) && !(rel == filepath.Join("pkg", "proto", "udp", "udp.go") && name == "NewUDPPacket") {
						lits = append(lits, site{rel, name, uaText(fset, v)})
					}
				}
				return true
			})
		}
		return nil
	})
	if err != nil {
		return err
	}
	sortSites := func(s []site) {
		sort.Slice(s, func(i, j int) bool {
			if s[i].file != s[j].file {
				return s[i].file < s[j].file
			}
			if s[i].fn != s[j].fn {
				return s[i].fn < s[j].fn
			}
			return s[i].text < s[j].text
		})
	}
	sortSites(calls)
	sortSites(lits)

	var b strings.Builder
	b.WriteString("/- GENERATED by /verif/translate (generator UdpAddr) from GOROOT/src/net/{udpsock,ip}.go, pkg/proto/udp/udp.go and\n")
	b.WriteString("   every non-test .go file of the repository — do not edit. -/\n")
	b.WriteString("namespace Frp.Gen.UdpAddr\n\n")
	b.WriteString("/-- `type UDPAddr struct`: (field name, type text, tag) in declaration order -/\n")
	b.WriteString("def fields : List (String × String × String) :=\n  [")
	for i, f := range fields {
		if i > 0 {
			b.WriteString(",\n   ")
		}
		fmt.Fprintf(&b, "(%s, %s, %s)", uaQ(f.name), uaQ(f.typ), uaQ(f.tag))
	}
	b.WriteString("]\n\n")
	b.WriteString("/-- methods declared on UDPAddr in package net (all build configurations) -/\n")
	b.WriteString("def methods : List String := [")
	for i, m := range mnames {
		if i > 0 {
			b.WriteString(", ")
		}
		b.WriteString(uaQ(m))
	}
	b.WriteString("]\n\n")
	fmt.Fprintf(&b, "/-- `type IP …` -/\ndef ipUnderlying : String := %s\n", uaQ(ipUnder))
	fmt.Fprintf(&b, "def ipv4len : String := %s\ndef ipv6len : String := %s\n\n", uaQ(v4len), uaQ(v6len))
	b.WriteString("/-- parameters of udp.NewUDPPacket -/\ndef ctorParams : List String := [")
	for i, p := range params {
		if i > 0 {
			b.WriteString(", ")
		}
		b.WriteString(uaQ(p))
	}
	b.WriteString("]\n")
	fmt.Fprintf(&b, "/-- number of statements of its body -/\ndef ctorStmts : Nat := %d\n", len(ctor.Body.List))
	b.WriteString("/-- the literal it returns: field ↦ source text of the value -/\ndef ctorFields : List (String × String) :=\n  [")
	for i, f := range ctorFields {
		if i > 0 {
			b.WriteString(",\n   ")
		}
		fmt.Fprintf(&b, "(%s, %s)", uaQ(f[0]), uaQ(f[1]))
	}
	b.WriteString("]\n\n")
	fmt.Fprintf(&b, "/-- udp.GetContent: the expression its result is assigned from -/\ndef getContentExpr : String := %s\n\n", uaQ(getExpr))
	wr := func(doc, name string, ss []site) {
		fmt.Fprintf(&b, "/-- %s: (file, enclosing function, text) -/\ndef %s : List (String × String × String) :=\n  [", doc, name)
		for i, s := range ss {
			if i > 0 {
				b.WriteString(",\n   ")
			}
			fmt.Fprintf(&b, "(%s, %s, %s)", uaQ(s.file), uaQ(s.fn), uaQ(s.text))
		}
		b.WriteString("]\n\n")
	}
	wr("every call of NewUDPPacket in the repository, with its argument list", "ctorCalls", calls)
	wr("every composite literal of msg.UDPPacket outside the constructor", "packetLiterals", lits)
	b.WriteString("end Frp.Gen.UdpAddr\n")
	return writeIfChanged(filepath.Join(out, "UdpAddr.lean"), []byte(b.String()))
}
