module verif/translate

go 1.23.0
