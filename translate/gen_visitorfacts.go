package main

// Generator VisitorFacts (C08, client side): every `msg.ReadMsg(X)` / `msg.ReadMsgInto(X, …)` call in the non-test,
// non-verif files of client/visitor, read with go/ast and written to lean/Frp/Gen/VisitorFacts.lean.
//
// The Lean model (Frp/Model/VisitorHandshake.lean) reads the NewVisitorConnResp frame from the connection itself and
// hands the same connection on to the wrappers (`Reader.direct`); a reader put in between and dropped afterwards
// (`Reader.buffered`) provably loses what arrived together with the frame.  These facts tie that shape to the source:
//
//	msgReads   (file, function, callee, reader argument, origin of the reader, later uses)
//	  origin      param:<type>      the argument is a parameter of the innermost enclosing function (literal) declaring it
//	              dial:<callee>     … a variable assigned (`:=` / `=`) from a call whose callee's last selector is ConnectServer
//	              assign:<callee>   … a variable assigned from any other call (e.g. bufio.NewReader)
//	              var               … a variable declared otherwise
//	              expr:<source>     the argument is not a plain identifier (e.g. `bufio.NewReaderSize(conn, 512)`)
//	  later uses  number of uses of that identifier in the enclosing top-level function AFTER the read call, other than as
//	              the receiver of Set{,Read,Write}Deadline / Close: the connection that was read is the one that goes on
//	              (`remote = visitorConn`, `return …(remote, visitorConn)`)
//
// Fails ("BROKEN TIE") when the directory is missing or no read call is found.  A changed shape is NOT a translator
// failure: the facts are written as found and the Lean obligation C08.visitor_reads_from_handed_conn decides.

import (
	"fmt"
	"go/ast"
	"go/parser"
	"go/token"
	"os"
	"path/filepath"
	"sort"
	"strings"
)

func init() { generators["VisitorFacts"] = genVisitorFacts }

type vfRead struct {
	file, fn, callee, arg, origin string
	later                          int
}

func vfParams(ft *ast.FuncType, fset *token.FileSet) map[string]string {
	m := map[string]string{}
	if ft == nil || ft.Params == nil {
		return m
	}
	for _, f := range ft.Params.List {
		for _, n := range f.Names {
			m[n.Name] = cfSrc(fset, f.Type)
		}
	}
	return m
}

func vfOrigin(fset *token.FileSet, name string, encl []ast.Node) string {
	for i := len(encl) - 1; i >= 0; i-- {
		var ft *ast.FuncType
		var body *ast.BlockStmt
		switch f := encl[i].(type) {
		case *ast.FuncLit:
			ft, body = f.Type, f.Body
		case *ast.FuncDecl:
			ft, body = f.Type, f.Body
		}
		if t, ok := vfParams(ft, fset)[name]; ok {
			return "param:" + t
		}
		origin := ""
		ast.Inspect(body, func(n ast.Node) bool {
			if origin != "" {
				return false
			}
			switch x := n.(type) {
			case *ast.FuncLit:
				// a nested literal's own declarations do not define the name for this level (it is visited on its own level)
				if x != encl[i] {
					return false
				}
			case *ast.AssignStmt:
				for _, l := range x.Lhs {
					if id, ok := l.(*ast.Ident); ok && id.Name == name {
						if len(x.Rhs) == 1 {
							if c, ok := x.Rhs[0].(*ast.CallExpr); ok {
								callee := cfSrc(fset, c.Fun)
								if strings.HasSuffix(callee, ".ConnectServer") || callee == "ConnectServer" {
									origin = "dial:ConnectServer"
								} else {
									origin = "assign:" + callee
								}
								return false
							}
						}
						origin = "var"
						return false
					}
				}
			case *ast.ValueSpec:
				for _, id := range x.Names {
					if id.Name == name {
						origin = "var"
						return false
					}
				}
			}
			return true
		})
		if origin != "" {
			return origin
		}
	}
	return "var"
}

func vfLaterUses(top *ast.FuncDecl, name string, after token.Pos) int {
	skip := map[*ast.Ident]bool{}
	ast.Inspect(top, func(n ast.Node) bool {
		if c, ok := n.(*ast.CallExpr); ok {
			if sel, ok := c.Fun.(*ast.SelectorExpr); ok {
				if id, ok := sel.X.(*ast.Ident); ok {
					switch sel.Sel.Name {
					case "SetDeadline", "SetReadDeadline", "SetWriteDeadline", "Close":
						skip[id] = true
					}
				}
			}
		}
		return true
	})
	n := 0
	ast.Inspect(top, func(x ast.Node) bool {
		if id, ok := x.(*ast.Ident); ok && id.Name == name && id.Pos() > after && !skip[id] {
			n++
		}
		return true
	})
	return n
}

func genVisitorFacts(repo, out string) error {
	dir := filepath.Join(repo, "client", "visitor")
	ents, err := os.ReadDir(dir)
	if err != nil {
		return fail("client/visitor: %v", err)
	}
	fset := token.NewFileSet()
	var reads []vfRead
	for _, e := range ents {
		name := e.Name()
		if !strings.HasSuffix(name, ".go") || strings.HasSuffix(name, "_test.go") {
			continue
		}
		src, err := os.ReadFile(filepath.Join(dir, name))
		if err != nil {
			return err
		}
		if strings.Contains(string(src), "//go:build verif") {
			continue
		}
		f, err := parser.ParseFile(fset, filepath.Join(dir, name), src, 0)
		if err != nil {
			return fail("%s: %v", name, err)
		}
		for _, d := range f.Decls {
			fd, ok := d.(*ast.FuncDecl)
			if !ok || fd.Body == nil {
				continue
			}
			var walk func(n ast.Node, encl []ast.Node)
			walk = func(n ast.Node, encl []ast.Node) {
				ast.Inspect(n, func(x ast.Node) bool {
					switch v := x.(type) {
					case *ast.FuncLit:
						if len(encl) > 0 && encl[len(encl)-1] == ast.Node(v) {
							return true
						}
						walk(v, append(append([]ast.Node{}, encl...), v))
						return false
					case *ast.CallExpr:
						sel, ok := v.Fun.(*ast.SelectorExpr)
						if !ok {
							return true
						}
						pkg, ok := sel.X.(*ast.Ident)
						if !ok || pkg.Name != "msg" || (sel.Sel.Name != "ReadMsg" && sel.Sel.Name != "ReadMsgInto") || len(v.Args) == 0 {
							return true
						}
						r := vfRead{file: "client/visitor/" + name, fn: fd.Name.Name, callee: sel.Sel.Name, arg: cfSrc(fset, v.Args[0])}
						if len(encl) > 1 {
							r.fn += "/literal"
						}
						if id, ok := v.Args[0].(*ast.Ident); ok {
							r.origin = vfOrigin(fset, id.Name, encl)
							r.later = vfLaterUses(fd, id.Name, v.End())
						} else {
							r.origin = "expr:" + r.arg
						}
						reads = append(reads, r)
					}
					return true
				})
			}
			walk(fd, []ast.Node{fd})
		}
	}
	if len(reads) == 0 {
		return fail("no msg.ReadMsg / msg.ReadMsgInto call found in client/visitor")
	}
	sort.SliceStable(reads, func(i, j int) bool {
		if reads[i].file != reads[j].file {
			return reads[i].file < reads[j].file
		}
		return reads[i].fn < reads[j].fn
	})
	var b strings.Builder
	b.WriteString("/- GENERATED by translate/gen_visitorfacts.go from client/visitor/*.go (every msg.ReadMsg / msg.ReadMsgInto call). Do not edit. -/\n")
	b.WriteString("namespace Frp.Gen.VisitorFacts\n\n")
	b.WriteString("/-- (file, function, callee, reader argument, origin of the reader, uses of that identifier after the read other than\n    deadline / Close calls) -/\n")
	b.WriteString("def msgReads : List (String × String × String × String × String × Nat) :=\n  [")
	for i, r := range reads {
		if i > 0 {
			b.WriteString(",\n   ")
		}
		fmt.Fprintf(&b, "(%q, %q, %q, %q, %q, %d)", r.file, r.fn, r.callee, r.arg, r.origin, r.later)
	}
	b.WriteString("]\n\nend Frp.Gen.VisitorFacts\n")
	return os.WriteFile(filepath.Join(out, "VisitorFacts.lean"), []byte(b.String()), 0o644)
}
