package main

// Generator PluginClose (C16): what the `Close()` methods of pkg/plugin/client/*.go do.
//
// plugin.Close() is reached from client.(*Control).worker() → proxy.(*Manager).Close() (holding pm.mu) →
// (*Wrapper).Stop() (holding pw.mu) → BaseProxy.Close(), BEFORE close(ctl.doneCh): while it has not returned frpc
// does not log in again, and every other user of pm.mu (work connections, reloads, the status API) waits.  It must
// therefore never wait for a user.  For every method `Close` with a receiver in a non-test file of the package the
// generator lists, in source order, what the body calls:
//
//	srvClose          <recv>.<f>.Close()         with field f of type *http.Server
//	lnClose           <recv>.<f>.Close()         with field f of type *Listener (this package)
//	shutdown <dl>     <recv>.<f>.Shutdown(ctx)   with f *http.Server; dl = true iff ctx is a variable assigned from
//	                                             context.WithTimeout / WithDeadline in the same function
//	mutex             ….Lock() / Unlock() / RLock() / RUnlock()
//	chanClose         close(…)
//	wait what         `<-ch`, a select statement, ….Wait()
//	other callee      anything else (last two selector parts of the callee)
//
// A call to a top-level function of the package is FOLLOWED (depth 3): its calls are listed in place, receiver
// fields handed over as arguments keep their type.  context.Background / TODO / With* are not listed (pure).
// The judgement (which calls may wait) is made in Lean (Frp/Model/UserInput.lean CloseCall.mayWait; pinned callees in
// Props/C16.lean).  Fails ("BROKEN TIE") when no Close method is found or none of them closes an http.Server.

import (
	"fmt"
	"go/ast"
	"go/parser"
	"go/token"
	"os"
	"path/filepath"
	"sort"
	"strings"
)

func init() { generators["PluginClose"] = genPluginClose }

type pcFact struct {
	file, recv string
	line       int
	calls      []string
}

type pcWalker struct {
	fset    *token.FileSet
	structs map[string]map[string]string // struct -> field -> type text
	tops    map[string]*ast.FuncDecl
	calls   *[]string
}

func pcLast2(s string) string {
	parts := strings.Split(s, ".")
	if len(parts) > 2 {
		parts = parts[len(parts)-2:]
	}
	return strings.Join(parts, ".")
}

// types: identifier -> type text (receiver: its struct name; followed parameters: the argument's type)
func (w *pcWalker) typeText(e ast.Expr, types map[string]string) string {
	switch x := e.(type) {
	case *ast.Ident:
		return types[x.Name]
	case *ast.ParenExpr:
		return w.typeText(x.X, types)
	case *ast.SelectorExpr:
		t := strings.TrimPrefix(w.typeText(x.X, types), "*")
		if fs, ok := w.structs[t]; ok {
			return fs[x.Sel.Name]
		}
	}
	return ""
}

func pcIsContextPure(fun ast.Expr) bool {
	if s, ok := fun.(*ast.SelectorExpr); ok {
		if p, ok := s.X.(*ast.Ident); ok && p.Name == "context" {
			return true
		}
	}
	return false
}

func (w *pcWalker) body(b *ast.BlockStmt, types map[string]string, depth int) {
	deadlineCtx := map[string]bool{}
	ast.Inspect(b, func(n ast.Node) bool {
		if as, ok := n.(*ast.AssignStmt); ok && len(as.Rhs) == 1 {
			if c, ok := as.Rhs[0].(*ast.CallExpr); ok {
				if s, ok := c.Fun.(*ast.SelectorExpr); ok {
					if p, ok := s.X.(*ast.Ident); ok && p.Name == "context" && (s.Sel.Name == "WithTimeout" || s.Sel.Name == "WithDeadline") {
						if id, ok := as.Lhs[0].(*ast.Ident); ok {
							deadlineCtx[id.Name] = true
						}
					}
				}
			}
		}
		return true
	})
	ast.Inspect(b, func(n ast.Node) bool {
		switch x := n.(type) {
		case *ast.FuncLit:
			*w.calls = append(*w.calls, ".other "+agLeanStr("func literal"))
			return false
		case *ast.SelectStmt:
			*w.calls = append(*w.calls, ".wait "+agLeanStr("select"))
		case *ast.UnaryExpr:
			if x.Op == token.ARROW {
				*w.calls = append(*w.calls, ".wait "+agLeanStr("<-"+agSrc(w.fset, x.X)))
			}
		case *ast.RangeStmt:
			if t := w.typeText(x.X, types); strings.HasPrefix(t, "chan") || strings.HasPrefix(t, "<-chan") {
				*w.calls = append(*w.calls, ".wait "+agLeanStr("range "+agSrc(w.fset, x.X)))
			}
		case *ast.CallExpr:
			if pcIsContextPure(x.Fun) {
				return true
			}
			switch f := x.Fun.(type) {
			case *ast.Ident:
				switch f.Name {
				case "close":
					*w.calls = append(*w.calls, ".chanClose")
					return true
				case "len", "cap", "append", "make", "new", "delete", "copy", "string", "panic", "recover", "print", "println":
					return true
				}
				if fd, ok := w.tops[f.Name]; ok && fd.Body != nil && depth < 3 {
					sub := map[string]string{}
					i := 0
					for _, fl := range fd.Type.Params.List {
						for _, nm := range fl.Names {
							if i < len(x.Args) {
								if t := w.typeText(x.Args[i], types); t != "" {
									sub[nm.Name] = t
								} else {
									sub[nm.Name] = agSrc(w.fset, fl.Type)
								}
							}
							i++
						}
					}
					w.body(fd.Body, sub, depth+1)
					return true
				}
				*w.calls = append(*w.calls, ".other "+agLeanStr(f.Name))
			case *ast.SelectorExpr:
				recvT := w.typeText(f.X, types)
				switch f.Sel.Name {
				case "Lock", "Unlock", "RLock", "RUnlock":
					*w.calls = append(*w.calls, ".mutex")
				case "Wait":
					*w.calls = append(*w.calls, ".wait "+agLeanStr(pcLast2(agSrc(w.fset, f))))
				case "Close":
					switch recvT {
					case "*http.Server":
						*w.calls = append(*w.calls, ".srvClose")
					case "*Listener":
						*w.calls = append(*w.calls, ".lnClose")
					default:
						*w.calls = append(*w.calls, ".other "+agLeanStr(pcLast2(agSrc(w.fset, f))))
					}
				case "Shutdown":
					if recvT == "*http.Server" {
						dl := false
						if len(x.Args) == 1 {
							if id, ok := x.Args[0].(*ast.Ident); ok && deadlineCtx[id.Name] {
								dl = true
							}
						}
						*w.calls = append(*w.calls, fmt.Sprintf(".shutdown %v", dl))
					} else {
						*w.calls = append(*w.calls, ".other "+agLeanStr(pcLast2(agSrc(w.fset, f))))
					}
				default:
					*w.calls = append(*w.calls, ".other "+agLeanStr(pcLast2(agSrc(w.fset, f))))
				}
			default:
				*w.calls = append(*w.calls, ".other "+agLeanStr(agSrc(w.fset, x.Fun)))
			}
		}
		return true
	})
}

func genPluginClose(repo, out string) error {
	fset := token.NewFileSet()
	dir := "pkg/plugin/client"
	ents, err := os.ReadDir(filepath.Join(repo, dir))
	if err != nil {
		return err
	}
	w := &pcWalker{fset: fset, structs: map[string]map[string]string{}, tops: map[string]*ast.FuncDecl{}}
	files := map[string]*ast.File{}
	var rels []string
	for _, e := range ents {
		n := e.Name()
		if e.IsDir() || !strings.HasSuffix(n, ".go") || strings.HasSuffix(n, "_test.go") || strings.HasPrefix(n, "verif_") || strings.HasSuffix(n, "_verif.go") {
			continue
		}
		rel := dir + "/" + n
		f, err := parser.ParseFile(fset, filepath.Join(repo, rel), nil, 0)
		if err != nil {
			return err
		}
		files[rel] = f
		rels = append(rels, rel)
		for _, d := range f.Decls {
			switch x := d.(type) {
			case *ast.FuncDecl:
				if x.Recv == nil {
					w.tops[x.Name.Name] = x
				}
			case *ast.GenDecl:
				for _, sp := range x.Specs {
					if ts, ok := sp.(*ast.TypeSpec); ok {
						if st, ok := ts.Type.(*ast.StructType); ok {
							fs := map[string]string{}
							for _, fl := range st.Fields.List {
								for _, nm := range fl.Names {
									fs[nm.Name] = agSrc(fset, fl.Type)
								}
							}
							w.structs[ts.Name.Name] = fs
						}
					}
				}
			}
		}
	}
	sort.Strings(rels)
	var facts []pcFact
	for _, rel := range rels {
		for _, d := range files[rel].Decls {
			fd, ok := d.(*ast.FuncDecl)
			if !ok || fd.Body == nil || fd.Recv == nil || fd.Name.Name != "Close" {
				continue
			}
			rn, rt := lfRecvType(fd)
			var calls []string
			w.calls = &calls
			types := map[string]string{}
			if rn != "" {
				types[rn] = rt
			}
			w.body(fd.Body, types, 0)
			facts = append(facts, pcFact{file: rel, recv: rt, line: fset.Position(fd.Pos()).Line, calls: calls})
		}
	}
	if len(facts) == 0 {
		return fail("%s: no Close method found", dir)
	}
	nsrv := 0
	for _, f := range facts {
		for _, c := range f.calls {
			if c == ".srvClose" || strings.HasPrefix(c, ".shutdown") {
				nsrv++
				break
			}
		}
	}
	if nsrv == 0 {
		return fail("%s: no Close method stops an http.Server (extractor blind?)", dir)
	}
	var b strings.Builder
	b.WriteString("/- GENERATED by translate/gen_pluginclose.go from the frp source tree. Do not edit. -/\n")
	b.WriteString("import Frp.Model.UserInput\n")
	b.WriteString("namespace Frp.Gen.PluginClose\nopen Frp.UserIn\n\n")
	b.WriteString("/-- what every `Close()` of pkg/plugin/client calls, in source order -/\n")
	b.WriteString("def closeFacts : List CloseFact :=\n  [")
	for i, f := range facts {
		if i > 0 {
			b.WriteString(",\n   ")
		}
		fmt.Fprintf(&b, "⟨%s, %s, %d, [%s]⟩", agLeanStr(f.file), agLeanStr(f.recv), f.line, strings.Join(f.calls, ", "))
	}
	b.WriteString("]\n\nend Frp.Gen.PluginClose\n")
	return os.WriteFile(filepath.Join(out, "PluginClose.lean"), []byte(b.String()), 0o644)
}
