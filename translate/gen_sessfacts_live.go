package main

// Generator SessFacts (C14), strengthening round 4: two more groups of facts, appended to lean/Frp/Gen/SessFacts.lean.
//
// (1) does the teardown of a server session wait for its user connections?   (Frp/Model/SessLive.lean: `closeWaits`)
//
//	proxyCloseWaits        every method `Close` of server/proxy/*.go: (receiver type, the blocking constructs in its
//	                       body): a channel receive `<-x`, a `select`, a `range` over something named …Ch / a call result,
//	                       a call of a method named Wait / WaitClosed / Sleep / Join / Done-receive …  (mutex Lock/RLock are
//	                       listed by sfLockNames but not counted: no handler holds pxy.mu while it serves a connection)
//	workerWaitsAfterDone   the same constructs in server/control.go (*Control).worker positioned after
//	                       `<-ctl.msgDispatcher.Done()`, except the drain `for … range ctl.workConnCh` that directly follows
//	                       `close(ctl.workConnCh)` (a closed channel: the loop ends)
//	workerDrainsClosedPool that exception has exactly this shape
//	handlerSpawned         server/proxy/proxy.go startCommonTCPListenersHandler starts handleUserTCPConnection with `go`
//
// (2) what becomes of a heartbeat setting between the configuration text and the watchdog   (Frp/Model/HbConf.lean)
//
//	clientHbAssigns        pkg/config/v1/client.go (*ClientTransportConfig).Complete: every statement that assigns to
//	                       c.HeartbeatInterval / c.HeartbeatTimeout, in source order: (field, guard, shape, default) with
//	                       guard = "mux" / "nomux" (then / else branch of `if lo.FromPtr(c.TCPMux)`), "-" (unconditional),
//	                       or "if:<condition>" for any other enclosing condition; shape = "emptyOr" for
//	                       `c.F = util.EmptyOr(c.F, <integer literal>)`, else "other:<the right-hand side>"
//	serverHbAssigns        the same for pkg/config/v1/server.go (*ServerTransportConfig).Complete
//	hbWriters              every other assignment (=, op=, ++/--) whose left-hand side selects a field named
//	                       HeartbeatInterval / HeartbeatTimeout in the non-test sources of pkg/config, client, server, cmd:
//	                       (file:function, field, shape) with shape = "copy" for `x.F = y.F` (the legacy conversion), else
//	                       "other"

import (
	"bytes"
	"fmt"
	"go/ast"
	"go/parser"
	"go/printer"
	"go/token"
	"os"
	"path/filepath"
	"sort"
	"strconv"
	"strings"
)

func sfExprStr(fset *token.FileSet, e ast.Node) string {
	var b bytes.Buffer
	_ = printer.Fprint(&b, fset, e)
	s := strings.Join(strings.Fields(b.String()), " ")
	s = strings.ReplaceAll(s, "\\", "\\\\")
	return strings.ReplaceAll(s, "\"", "'")
}

// sfBlocking lists the constructs in n that wait for another goroutine / the peer
func sfBlocking(fset *token.FileSet, n ast.Node, skip func(ast.Node) bool) []string {
	var out []string
	ast.Inspect(n, func(x ast.Node) bool {
		if x == nil {
			return true
		}
		if skip != nil && skip(x) {
			return false
		}
		switch v := x.(type) {
		case *ast.FuncLit:
			// a closure that is only defined here (started with `go`, deferred or stored) does not block this function;
			// one that is called in place is covered by the call below
			return true
		case *ast.GoStmt:
			return false
		case *ast.UnaryExpr:
			if v.Op == token.ARROW {
				out = append(out, "recv:"+sfExprStr(fset, v.X))
			}
		case *ast.SelectStmt:
			out = append(out, "select")
		case *ast.RangeStmt:
			// ranging over a channel blocks until it is closed; without types: anything that is not a plain
			// field / variable holding a slice or map by name is reported when its name ends in Ch / Chan
			s := sfExprStr(fset, v.X)
			if strings.HasSuffix(s, "Ch") || strings.HasSuffix(s, "Chan") || strings.HasSuffix(s, "ch") {
				out = append(out, "range:"+s)
			}
		case *ast.CallExpr:
			if sel, ok := v.Fun.(*ast.SelectorExpr); ok {
				switch sel.Sel.Name {
				case "Wait", "WaitClosed", "Sleep", "Join", "WaitGroup", "Acquire":
					out = append(out, "call:"+sfExprStr(fset, v.Fun))
				}
			}
		}
		return true
	})
	return out
}

func sfQuoteList(l []string) string {
	q := make([]string, len(l))
	for i, s := range l {
		q[i] = "\"" + s + "\""
	}
	return "[" + strings.Join(q, ", ") + "]"
}

func sfRecvNameL(fd *ast.FuncDecl) string {
	if fd.Recv == nil || len(fd.Recv.List) != 1 {
		return ""
	}
	t := fd.Recv.List[0].Type
	if st, ok := t.(*ast.StarExpr); ok {
		t = st.X
	}
	if id, ok := t.(*ast.Ident); ok {
		return id.Name
	}
	return ""
}

func sfIsHbField(e ast.Expr) string {
	s, ok := e.(*ast.SelectorExpr)
	if !ok {
		return ""
	}
	if s.Sel.Name == "HeartbeatInterval" || s.Sel.Name == "HeartbeatTimeout" {
		return s.Sel.Name
	}
	return ""
}

type sfAsg struct {
	field, guard, shape string
	dflt                int64
}

// sfCompleteAssigns walks the body of a Complete method; every assignment to c.HeartbeatX is recorded with the
// conditions it sits under
func sfCompleteAssigns(fset *token.FileSet, fd *ast.FuncDecl, file string) ([]sfAsg, error) {
	var out []sfAsg
	var walk func(stmts []ast.Stmt, guard string) error
	record := func(lhs ast.Expr, rhs ast.Expr, guard string) {
		f := sfIsHbField(lhs)
		if f == "" {
			return
		}
		a := sfAsg{field: f, guard: guard, shape: "other:" + sfExprStr(fset, rhs)}
		// c.F = util.EmptyOr(c.F, <int>)
		if call, ok := rhs.(*ast.CallExpr); ok && sfSelIs(call.Fun, "util", "EmptyOr") && len(call.Args) == 2 {
			if sfIsHbField(call.Args[0]) == f && sfExprStr(fset, call.Args[0]) == sfExprStr(fset, lhs) {
				lit := call.Args[1]
				neg := false
				if u, ok := lit.(*ast.UnaryExpr); ok && u.Op == token.SUB {
					neg, lit = true, u.X
				}
				if bl, ok := lit.(*ast.BasicLit); ok && bl.Kind == token.INT {
					if n, err := strconv.ParseInt(bl.Value, 0, 64); err == nil {
						if neg {
							n = -n
						}
						a.shape, a.dflt = "emptyOr", n
					}
				}
			}
		}
		out = append(out, a)
	}
	walk = func(stmts []ast.Stmt, guard string) error {
		for _, st := range stmts {
			switch v := st.(type) {
			case *ast.AssignStmt:
				for i, l := range v.Lhs {
					if sfIsHbField(l) == "" {
						continue
					}
					if v.Tok != token.ASSIGN || len(v.Lhs) != len(v.Rhs) {
						out = append(out, sfAsg{field: sfIsHbField(l), guard: guard, shape: "other:" + sfExprStr(fset, v)})
						continue
					}
					record(l, v.Rhs[i], guard)
				}
			case *ast.IncDecStmt:
				if f := sfIsHbField(v.X); f != "" {
					out = append(out, sfAsg{field: f, guard: guard, shape: "other:" + sfExprStr(fset, v)})
				}
			case *ast.IfStmt:
				cond := sfExprStr(fset, v.Cond)
				g, ge := "if:"+cond, "if:!("+cond+")"
				if cond == "lo.FromPtr(c.TCPMux)" && v.Init == nil {
					g, ge = "mux", "nomux"
				}
				if guard != "-" {
					g, ge = guard+"&"+g, guard+"&"+ge
				}
				if err := walk(v.Body.List, g); err != nil {
					return err
				}
				switch e := v.Else.(type) {
				case *ast.BlockStmt:
					if err := walk(e.List, ge); err != nil {
						return err
					}
				case *ast.IfStmt:
					if err := walk([]ast.Stmt{e}, ge); err != nil {
						return err
					}
				}
			case *ast.BlockStmt:
				if err := walk(v.List, guard); err != nil {
					return err
				}
			case *ast.ExprStmt, *ast.DeclStmt, *ast.ReturnStmt, *ast.EmptyStmt:
				// calls (c.QUIC.Complete() …) do not receive the two fields: they are int64 values, passed by value
			default:
				// a loop, a switch, a defer …: if it mentions one of the fields on a left-hand side the tie is broken
				bad := false
				ast.Inspect(st, func(n ast.Node) bool {
					if as, ok := n.(*ast.AssignStmt); ok {
						for _, l := range as.Lhs {
							if sfIsHbField(l) != "" {
								bad = true
							}
						}
					}
					if id, ok := n.(*ast.IncDecStmt); ok && sfIsHbField(id.X) != "" {
						bad = true
					}
					return true
				})
				if bad {
					return fail("%s: %s.Complete assigns a heartbeat field inside a statement the translator does not follow", file, sfRecvNameL(fd))
				}
			}
		}
		return nil
	}
	if err := walk(fd.Body.List, "-"); err != nil {
		return nil, err
	}
	if len(out) == 0 {
		return nil, fail("%s: %s.Complete assigns no heartbeat field", file, sfRecvNameL(fd))
	}
	return out, nil
}

func sfValueMethod(f *ast.File, recv, name string) *ast.FuncDecl {
	for _, d := range f.Decls {
		if fd, ok := d.(*ast.FuncDecl); ok && fd.Name.Name == name && sfRecvNameL(fd) == recv {
			return fd
		}
	}
	return nil
}

func sfLive(fset *token.FileSet, repo string, b *strings.Builder) error {
	// ---- (1) server/proxy/*.go: every Close method
	dir := filepath.Join(repo, "server", "proxy")
	ents, err := os.ReadDir(dir)
	if err != nil {
		return err
	}
	type closeM struct {
		recv  string
		waits []string
	}
	var closes []closeM
	handlerSpawned := false
	for _, e := range ents {
		if e.IsDir() || !strings.HasSuffix(e.Name(), ".go") || strings.HasSuffix(e.Name(), "_test.go") {
			continue
		}
		f, err := parser.ParseFile(fset, filepath.Join(dir, e.Name()), nil, 0)
		if err != nil {
			return err
		}
		for _, d := range f.Decls {
			fd, ok := d.(*ast.FuncDecl)
			if !ok || fd.Body == nil {
				continue
			}
			if fd.Name.Name == "Close" && fd.Recv != nil && len(fd.Type.Params.List) == 0 {
				closes = append(closes, closeM{sfRecvNameL(fd), sfBlocking(fset, fd.Body, nil)})
			}
			if fd.Name.Name == "startCommonTCPListenersHandler" {
				ast.Inspect(fd.Body, func(n ast.Node) bool {
					if g, ok := n.(*ast.GoStmt); ok {
						if s, ok := g.Call.Fun.(*ast.SelectorExpr); ok && s.Sel.Name == "handleUserTCPConnection" {
							handlerSpawned = true
						}
						// go func() { … pxy.handleUserTCPConnection(c) … }()
						if fl, ok := g.Call.Fun.(*ast.FuncLit); ok {
							ast.Inspect(fl.Body, func(m ast.Node) bool {
								if c, ok := m.(*ast.CallExpr); ok {
									if s, ok := c.Fun.(*ast.SelectorExpr); ok && s.Sel.Name == "handleUserTCPConnection" {
										handlerSpawned = true
									}
								}
								return true
							})
						}
					}
					return true
				})
			}
		}
	}
	sort.Slice(closes, func(i, j int) bool { return closes[i].recv < closes[j].recv })
	hasBase := false
	for _, c := range closes {
		if c.recv == "BaseProxy" {
			hasBase = true
		}
	}
	if !hasBase {
		return fail("server/proxy: (*BaseProxy).Close not found")
	}
	// ---- server/control.go worker(): what it waits for after Done()
	sc, err := parser.ParseFile(fset, filepath.Join(repo, "server", "control.go"), nil, 0)
	if err != nil {
		return err
	}
	worker := sfMethod(sc, "Control", "worker")
	if worker == nil {
		return fail("server/control.go: (*Control).worker not found")
	}
	donePos := token.NoPos
	ast.Inspect(worker.Body, func(n ast.Node) bool {
		if u, ok := n.(*ast.UnaryExpr); ok && u.Op == token.ARROW && donePos == token.NoPos {
			if c, ok := u.X.(*ast.CallExpr); ok {
				if s, ok := c.Fun.(*ast.SelectorExpr); ok && s.Sel.Name == "Done" {
					donePos = u.End()
				}
			}
		}
		return true
	})
	if donePos == token.NoPos {
		return fail("server/control.go: worker() does not wait for msgDispatcher.Done()")
	}
	// the drain of the pool: `close(ctl.workConnCh)` directly followed by `for … := range ctl.workConnCh`
	var drain ast.Node
	drainOK := false
	for i, st := range worker.Body.List {
		rs, ok := st.(*ast.RangeStmt)
		if !ok || !sfSelIs(rs.X, "ctl", "workConnCh") {
			continue
		}
		drain = rs
		if i > 0 {
			if es, ok := worker.Body.List[i-1].(*ast.ExprStmt); ok {
				if c, ok := es.X.(*ast.CallExpr); ok && len(c.Args) == 1 {
					if id, ok := c.Fun.(*ast.Ident); ok && id.Name == "close" && sfSelIs(c.Args[0], "ctl", "workConnCh") {
						drainOK = true
					}
				}
			}
		}
	}
	var after []string
	for _, st := range worker.Body.List {
		if st.Pos() < donePos {
			continue
		}
		after = append(after, sfBlocking(fset, st, func(n ast.Node) bool { return drainOK && n == drain })...)
	}

	b.WriteString("\n")
	b.WriteString("def proxyCloseWaits : List (String × List String) :=\n  [")
	for i, c := range closes {
		if i > 0 {
			b.WriteString(",\n   ")
		}
		fmt.Fprintf(b, "(\"%s\", %s)", c.recv, sfQuoteList(c.waits))
	}
	b.WriteString("]\n\n")
	fmt.Fprintf(b, "def workerWaitsAfterDone : List String := %s\n", sfQuoteList(after))
	fmt.Fprintf(b, "def workerDrainsClosedPool : Bool := %s\n", sfBool(drainOK))
	fmt.Fprintf(b, "def handlerSpawned : Bool := %s\n", sfBool(handlerSpawned))

	// ---- (2) the heartbeat settings
	emitAsgs := func(name, rel, recv string) error {
		f, err := parser.ParseFile(fset, filepath.Join(repo, rel), nil, 0)
		if err != nil {
			return err
		}
		fd := sfValueMethod(f, recv, "Complete")
		if fd == nil || fd.Body == nil {
			return fail("%s: (%s).Complete not found", rel, recv)
		}
		as, err := sfCompleteAssigns(fset, fd, rel)
		if err != nil {
			return err
		}
		fmt.Fprintf(b, "\ndef %s : List (String × String × String × Int) :=\n  [", name)
		for i, a := range as {
			if i > 0 {
				b.WriteString(",\n   ")
			}
			fmt.Fprintf(b, "(\"%s\", \"%s\", \"%s\", %d)", a.field, a.guard, a.shape, a.dflt)
		}
		b.WriteString("]\n")
		return nil
	}
	if err := emitAsgs("clientHbAssigns", "pkg/config/v1/client.go", "ClientTransportConfig"); err != nil {
		return err
	}
	if err := emitAsgs("serverHbAssigns", "pkg/config/v1/server.go", "ServerTransportConfig"); err != nil {
		return err
	}
	// every other writer of the two fields
	var writers [][3]string
	for _, root := range []string{"pkg/config", "client", "server", "cmd"} {
		err := filepath.Walk(filepath.Join(repo, root), func(p string, info os.FileInfo, err error) error {
			if err != nil {
				return err
			}
			if info.IsDir() || !strings.HasSuffix(p, ".go") || strings.HasSuffix(p, "_test.go") {
				return nil
			}
			f, err := parser.ParseFile(fset, p, nil, 0)
			if err != nil {
				return err
			}
			rel, _ := filepath.Rel(repo, p)
			for _, d := range f.Decls {
				fd, ok := d.(*ast.FuncDecl)
				if !ok || fd.Body == nil {
					continue
				}
				fn := fd.Name.Name
				if r := sfRecvNameL(fd); r != "" {
					fn = r + "." + fn
				}
				if fn == "ClientTransportConfig.Complete" || fn == "ServerTransportConfig.Complete" {
					continue // interpreted statement by statement above
				}
				ast.Inspect(fd.Body, func(n ast.Node) bool {
					switch v := n.(type) {
					case *ast.AssignStmt:
						for i, l := range v.Lhs {
							fld := sfIsHbField(l)
							if fld == "" {
								continue
							}
							shape := "other"
							if v.Tok == token.ASSIGN && len(v.Lhs) == len(v.Rhs) && sfIsHbField(v.Rhs[i]) == fld {
								shape = "copy"
							}
							writers = append(writers, [3]string{rel + ":" + fn, fld, shape})
						}
					case *ast.IncDecStmt:
						if fld := sfIsHbField(v.X); fld != "" {
							writers = append(writers, [3]string{rel + ":" + fn, fld, "other"})
						}
					case *ast.UnaryExpr:
						// &x.HeartbeatTimeout: the field escapes (flag registration …): reported as a writer
						if v.Op == token.AND {
							if fld := sfIsHbField(v.X); fld != "" {
								writers = append(writers, [3]string{rel + ":" + fn, fld, "addr"})
							}
						}
					}
					return true
				})
			}
			return nil
		})
		if err != nil {
			return err
		}
	}
	b.WriteString("\ndef hbWriters : List (String × String × String) :=\n  [")
	for i, w := range writers {
		if i > 0 {
			b.WriteString(",\n   ")
		}
		fmt.Fprintf(b, "(\"%s\", \"%s\", \"%s\")", w[0], w[1], w[2])
	}
	b.WriteString("]\n")
	return nil
}
