package main

// Generator "ProxyMsg" (property C18).
//
// Reads, from the frp tree as it is now,
//   pkg/msg/msg.go                 struct NewProxy (all fields)
//   pkg/config/types/types.go      string constants (BandwidthLimitModeClient …)
//   pkg/config/v1/proxy.go         ProxyType constants, proxyConfigTypeMap, NewProxyConfigurerByType,
//                                  ProxyBaseConfig.{MarshalToMsg,UnmarshalFromMsg,Complete} and the
//                                  typed MarshalToMsg/UnmarshalFromMsg pairs of every mapped type
//   pkg/config/load.go             NewProxyConfigurerFromMsg (statement sequence)
// and writes <out>/ProxyMsg.lean (+ ProxyMsg.json): per proxy type the ordered assignment tables
// (msgField, cfgPath, transformation) for marshal and (cfgPath, msgField, transformation) for
// unmarshal, the Complete steps and the server-side reconstruction steps.
//
// Every statement must have one of the shapes listed at translateMarshalStmt /
// translateUnmarshalStmt / translateCompleteStmt / translateReconStmt; anything else is an error.

import (
	"encoding/json"
	"fmt"
	"go/ast"
	"go/parser"
	"go/token"
	"os"
	"path/filepath"
	"sort"
	"strconv"
	"strings"
)

func init() { generators["ProxyMsg"] = genProxyMsg }

// ---------------------------------------------------------------- small AST helpers

func render(e ast.Expr) string {
	switch v := e.(type) {
	case nil:
		return ""
	case *ast.Ident:
		return v.Name
	case *ast.BasicLit:
		return v.Value
	case *ast.SelectorExpr:
		return render(v.X) + "." + v.Sel.Name
	case *ast.ParenExpr:
		return "(" + render(v.X) + ")"
	case *ast.BinaryExpr:
		return render(v.X) + " " + v.Op.String() + " " + render(v.Y)
	case *ast.UnaryExpr:
		return v.Op.String() + render(v.X)
	case *ast.StarExpr:
		return "*" + render(v.X)
	case *ast.CallExpr:
		args := []string{}
		for _, a := range v.Args {
			args = append(args, render(a))
		}
		return render(v.Fun) + "(" + strings.Join(args, ", ") + ")"
	case *ast.CompositeLit:
		return render(v.Type) + "{…}"
	case *ast.ArrayType:
		return "[]" + render(v.Elt)
	case *ast.MapType:
		return "map[" + render(v.Key) + "]" + render(v.Value)
	case *ast.IndexExpr:
		return render(v.X) + "[" + render(v.Index) + "]"
	}
	return fmt.Sprintf("<%T>", e)
}

func renderStmt(s ast.Stmt) string {
	switch v := s.(type) {
	case *ast.ExprStmt:
		return render(v.X)
	case *ast.AssignStmt:
		l, r := []string{}, []string{}
		for _, e := range v.Lhs {
			l = append(l, render(e))
		}
		for _, e := range v.Rhs {
			r = append(r, render(e))
		}
		return strings.Join(l, ", ") + " " + v.Tok.String() + " " + strings.Join(r, ", ")
	case *ast.ReturnStmt:
		r := []string{}
		for _, e := range v.Results {
			r = append(r, render(e))
		}
		return "return " + strings.Join(r, ", ")
	case *ast.IfStmt:
		s := "if "
		if v.Init != nil {
			s += renderStmt(v.Init) + "; "
		}
		s += render(v.Cond) + " { "
		for _, b := range v.Body.List {
			s += renderStmt(b) + "; "
		}
		s += "}"
		if v.Else != nil {
			s += " else …"
		}
		return s
	}
	return fmt.Sprintf("<%T>", s)
}

// pathOn returns "A.B" if e is root.A.B (a pure selector chain on identifier root)
func pathOn(e ast.Expr, root string) (string, bool) {
	parts := []string{}
	for {
		switch v := e.(type) {
		case *ast.SelectorExpr:
			parts = append([]string{v.Sel.Name}, parts...)
			e = v.X
			continue
		case *ast.Ident:
			if v.Name == root && len(parts) > 0 {
				return strings.Join(parts, "."), true
			}
		}
		return "", false
	}
}

func strLit(e ast.Expr) (string, bool) {
	if b, ok := e.(*ast.BasicLit); ok && b.Kind == token.STRING {
		s, err := strconv.Unquote(b.Value)
		if err == nil {
			return s, true
		}
	}
	return "", false
}

type fileInfo struct {
	f       *ast.File
	methods map[string]*ast.FuncDecl // "Recv.Name"
	funcs   map[string]*ast.FuncDecl
	consts  map[string]string // string-valued constants
	structs map[string]*ast.StructType
	vars    map[string]ast.Expr
}

func loadFile(fset *token.FileSet, path string) (*fileInfo, error) {
	f, err := parser.ParseFile(fset, path, nil, 0)
	if err != nil {
		return nil, err
	}
	fi := &fileInfo{f: f, methods: map[string]*ast.FuncDecl{}, funcs: map[string]*ast.FuncDecl{},
		consts: map[string]string{}, structs: map[string]*ast.StructType{}, vars: map[string]ast.Expr{}}
	for _, d := range f.Decls {
		switch v := d.(type) {
		case *ast.FuncDecl:
			if v.Recv == nil {
				fi.funcs[v.Name.Name] = v
				continue
			}
			t := v.Recv.List[0].Type
			if s, ok := t.(*ast.StarExpr); ok {
				t = s.X
			}
			if id, ok := t.(*ast.Ident); ok {
				fi.methods[id.Name+"."+v.Name.Name] = v
			}
		case *ast.GenDecl:
			for _, sp := range v.Specs {
				switch s := sp.(type) {
				case *ast.ValueSpec:
					for i, n := range s.Names {
						if i < len(s.Values) {
							if v.Tok == token.CONST {
								if str, ok := strLit(s.Values[i]); ok {
									fi.consts[n.Name] = str
								}
							} else {
								fi.vars[n.Name] = s.Values[i]
							}
						}
					}
				case *ast.TypeSpec:
					if st, ok := s.Type.(*ast.StructType); ok {
						fi.structs[s.Name.Name] = st
					}
				}
			}
		}
	}
	return fi, nil
}

// receiver and first parameter names of a method
func recvParam(fd *ast.FuncDecl) (string, string, error) {
	if fd.Recv == nil || len(fd.Recv.List) != 1 || len(fd.Recv.List[0].Names) != 1 {
		return "", "", fmt.Errorf("%s: unnamed receiver", fd.Name.Name)
	}
	p := ""
	if fd.Type.Params != nil && len(fd.Type.Params.List) == 1 && len(fd.Type.Params.List[0].Names) == 1 {
		p = fd.Type.Params.List[0].Names[0].Name
	} else {
		return "", "", fmt.Errorf("%s: expected exactly one named parameter", fd.Name.Name)
	}
	return fd.Recv.List[0].Names[0].Name, p, nil
}

// ---------------------------------------------------------------- the extracted facts

type mEntry struct{ Msg, Cfg, X, Lit string }
type uEntry struct{ Cfg, Msg, X string }
type cStep struct{ Kind, Cfg, Lit string }
type rStep struct{ Kind, Arg string }

type typeTables struct {
	TypeName  string // "tcp"
	Struct    string // "TCPProxyConfig"
	CallsBaseM bool
	CallsBaseU bool
	Marshal   []mEntry
	Unmarshal []uEntry
}

type facts struct {
	MsgFields     [][2]string // name, go type
	BaseMarshal   []mEntry
	BaseUnmarshal []uEntry
	Types         []typeTables
	Complete      []cStep
	Recon         []rStep
	NewByTypeSetsType bool
}

// statement shapes accepted in a MarshalToMsg body (receiver r, message parameter p):
//   r.ProxyBaseConfig.MarshalToMsg(p)                         (typed methods only, first statement)
//   p.F = r.A.B                                               copy
//   p.F = r.A.B.String()                                      callString
//   if r.A.B != "lit" { p.F = r.A.B }                         copyUnlessEq "lit"
func translateMarshalStmt(s ast.Stmt, r, p string) (mEntry, error) {
	bad := func() (mEntry, error) { return mEntry{}, fmt.Errorf("untranslatable marshal statement: %s", renderStmt(s)) }
	switch v := s.(type) {
	case *ast.AssignStmt:
		if v.Tok != token.ASSIGN || len(v.Lhs) != 1 || len(v.Rhs) != 1 {
			return bad()
		}
		mf, ok := pathOn(v.Lhs[0], p)
		if !ok || strings.Contains(mf, ".") {
			return bad()
		}
		if cf, ok := pathOn(v.Rhs[0], r); ok {
			return mEntry{Msg: mf, Cfg: cf, X: "copy"}, nil
		}
		if call, ok := v.Rhs[0].(*ast.CallExpr); ok && len(call.Args) == 0 {
			if sel, ok := call.Fun.(*ast.SelectorExpr); ok && sel.Sel.Name == "String" {
				if cf, ok := pathOn(sel.X, r); ok {
					return mEntry{Msg: mf, Cfg: cf, X: "callString"}, nil
				}
			}
		}
		return bad()
	case *ast.IfStmt:
		if v.Init != nil || v.Else != nil || len(v.Body.List) != 1 {
			return bad()
		}
		be, ok := v.Cond.(*ast.BinaryExpr)
		if !ok || be.Op != token.NEQ {
			return bad()
		}
		cf, ok1 := pathOn(be.X, r)
		lit, ok2 := strLit(be.Y)
		if !ok1 || !ok2 {
			return bad()
		}
		inner, err := translateMarshalStmt(v.Body.List[0], r, p)
		if err != nil || inner.X != "copy" || inner.Cfg != cf {
			return bad()
		}
		return mEntry{Msg: inner.Msg, Cfg: cf, X: "copyUnlessEq", Lit: lit}, nil
	}
	return bad()
}

// statement shapes accepted in an UnmarshalFromMsg body:
//   r.ProxyBaseConfig.UnmarshalFromMsg(p)
//   r.A.B = p.F                                               copy
//   if p.F != "" { r.A.B = p.F }                              copyIfNonEmpty
//   if p.F != "" { r.A.B, _ = types.NewBandwidthQuantity(p.F) }   parseBandwidthIfNonEmpty
func translateUnmarshalStmt(s ast.Stmt, r, p string) (uEntry, error) {
	bad := func() (uEntry, error) {
		return uEntry{}, fmt.Errorf("untranslatable unmarshal statement: %s", renderStmt(s))
	}
	switch v := s.(type) {
	case *ast.AssignStmt:
		if v.Tok != token.ASSIGN || len(v.Rhs) != 1 {
			return bad()
		}
		if len(v.Lhs) == 1 {
			cf, ok1 := pathOn(v.Lhs[0], r)
			mf, ok2 := pathOn(v.Rhs[0], p)
			if ok1 && ok2 && !strings.Contains(mf, ".") {
				return uEntry{Cfg: cf, Msg: mf, X: "copy"}, nil
			}
			return bad()
		}
		if len(v.Lhs) == 2 {
			cf, ok1 := pathOn(v.Lhs[0], r)
			blank, ok2 := v.Lhs[1].(*ast.Ident)
			call, ok3 := v.Rhs[0].(*ast.CallExpr)
			if ok1 && ok2 && blank.Name == "_" && ok3 && render(call.Fun) == "types.NewBandwidthQuantity" && len(call.Args) == 1 {
				if mf, ok := pathOn(call.Args[0], p); ok && !strings.Contains(mf, ".") {
					return uEntry{Cfg: cf, Msg: mf, X: "parseBandwidth"}, nil
				}
			}
		}
		return bad()
	case *ast.IfStmt:
		if v.Init != nil || v.Else != nil || len(v.Body.List) != 1 {
			return bad()
		}
		be, ok := v.Cond.(*ast.BinaryExpr)
		if !ok || be.Op != token.NEQ {
			return bad()
		}
		mf, ok1 := pathOn(be.X, p)
		lit, ok2 := strLit(be.Y)
		if !ok1 || !ok2 || lit != "" {
			return bad()
		}
		inner, err := translateUnmarshalStmt(v.Body.List[0], r, p)
		if err != nil || inner.Msg != mf {
			return bad()
		}
		switch inner.X {
		case "copy":
			inner.X = "copyIfNonEmpty"
		case "parseBandwidth":
			inner.X = "parseBandwidthIfNonEmpty"
		default:
			return bad()
		}
		return inner, nil
	}
	return bad()
}

func isBaseCall(s ast.Stmt, r, p, method string) bool {
	es, ok := s.(*ast.ExprStmt)
	if !ok {
		return false
	}
	return render(es.X) == r+".ProxyBaseConfig."+method+"("+p+")"
}

func translateMarshal(fd *ast.FuncDecl, typed bool) (bool, []mEntry, error) {
	r, p, err := recvParam(fd)
	if err != nil {
		return false, nil, err
	}
	if fd.Body == nil {
		return false, nil, fmt.Errorf("%s has no body", fd.Name.Name)
	}
	out, base := []mEntry{}, false
	for i, s := range fd.Body.List {
		if typed && isBaseCall(s, r, p, "MarshalToMsg") {
			if i != 0 {
				return false, nil, fmt.Errorf("base MarshalToMsg call is not the first statement")
			}
			base = true
			continue
		}
		e, err := translateMarshalStmt(s, r, p)
		if err != nil {
			return false, nil, err
		}
		out = append(out, e)
	}
	return base, out, nil
}

func translateUnmarshal(fd *ast.FuncDecl, typed bool) (bool, []uEntry, error) {
	r, p, err := recvParam(fd)
	if err != nil {
		return false, nil, err
	}
	if fd.Body == nil {
		return false, nil, fmt.Errorf("%s has no body", fd.Name.Name)
	}
	out, base := []uEntry{}, false
	for i, s := range fd.Body.List {
		if typed && isBaseCall(s, r, p, "UnmarshalFromMsg") {
			if i != 0 {
				return false, nil, fmt.Errorf("base UnmarshalFromMsg call is not the first statement")
			}
			base = true
			continue
		}
		e, err := translateUnmarshalStmt(s, r, p)
		if err != nil {
			return false, nil, err
		}
		out = append(out, e)
	}
	return base, out, nil
}

// statement shapes accepted in ProxyBaseConfig.Complete(namePrefix):
//   c.Name = lo.Ternary(namePrefix == "", "", namePrefix + ".") + c.Name          prefixName
//   c.A.B = util.EmptyOr(c.A.B, "lit" | types.Const)                              emptyOr A.B lit
//   if c.Plugin.ClientPluginOptions != nil { c.Plugin.ClientPluginOptions.Complete() }   pluginComplete
func translateCompleteStmt(s ast.Stmt, r, p string, consts map[string]string) (cStep, error) {
	txt := renderStmt(s)
	if txt == r+".Name = lo.Ternary("+p+` == "", "", `+p+` + ".") + `+r+".Name" {
		return cStep{Kind: "prefixName"}, nil
	}
	if txt == "if "+r+".Plugin.ClientPluginOptions != nil { "+r+".Plugin.ClientPluginOptions.Complete(); }" {
		return cStep{Kind: "pluginComplete"}, nil
	}
	if as, ok := s.(*ast.AssignStmt); ok && as.Tok == token.ASSIGN && len(as.Lhs) == 1 && len(as.Rhs) == 1 {
		if cf, ok := pathOn(as.Lhs[0], r); ok {
			if call, ok := as.Rhs[0].(*ast.CallExpr); ok && render(call.Fun) == "util.EmptyOr" && len(call.Args) == 2 {
				if cf2, ok := pathOn(call.Args[0], r); ok && cf2 == cf {
					if lit, ok := strLit(call.Args[1]); ok {
						return cStep{Kind: "emptyOr", Cfg: cf, Lit: lit}, nil
					}
					if sel, ok := call.Args[1].(*ast.SelectorExpr); ok && render(sel.X) == "types" {
						if lit, ok := consts[sel.Sel.Name]; ok {
							return cStep{Kind: "emptyOr", Cfg: cf, Lit: lit}, nil
						}
					}
				}
			}
		}
	}
	return cStep{}, fmt.Errorf("untranslatable Complete statement: %s", txt)
}

// statement shapes accepted in NewProxyConfigurerFromMsg(m, serverCfg)
func translateReconStmt(s ast.Stmt, proxyTypeConsts map[string]string) (rStep, error) {
	txt := renderStmt(s)
	const pfx = "m.ProxyType = util.EmptyOr(m.ProxyType, string(v1."
	switch {
	case strings.HasPrefix(txt, pfx) && strings.HasSuffix(txt, "))"):
		c := strings.TrimSuffix(strings.TrimPrefix(txt, pfx), "))")
		if v, ok := proxyTypeConsts[c]; ok {
			return rStep{Kind: "defaultType", Arg: v}, nil
		}
	case txt == "configurer := v1.NewProxyConfigurerByType(v1.ProxyType(m.ProxyType))":
		return rStep{Kind: "newByType"}, nil
	case strings.HasPrefix(txt, "if configurer == nil { return nil, fmt.Errorf("):
		return rStep{Kind: "unknownTypeErr"}, nil
	case txt == "configurer.UnmarshalFromMsg(m)":
		return rStep{Kind: "unmarshal"}, nil
	case txt == `configurer.Complete("")`:
		return rStep{Kind: "completeNoPrefix"}, nil
	case txt == "if err := validation.ValidateProxyConfigurerForServer(configurer, serverCfg); err != nil { return nil, err; }":
		return rStep{Kind: "validateForServer"}, nil
	case txt == "return configurer, nil":
		return rStep{Kind: "ret"}, nil
	}
	return rStep{}, fmt.Errorf("untranslatable NewProxyConfigurerFromMsg statement: %s", txt)
}

// ---------------------------------------------------------------- extraction

func extractProxyMsg(repo string) (*facts, error) {
	fset := token.NewFileSet()
	msgF, err := loadFile(fset, filepath.Join(repo, "pkg/msg/msg.go"))
	if err != nil {
		return nil, err
	}
	typesF, err := loadFile(fset, filepath.Join(repo, "pkg/config/types/types.go"))
	if err != nil {
		return nil, err
	}
	proxyF, err := loadFile(fset, filepath.Join(repo, "pkg/config/v1/proxy.go"))
	if err != nil {
		return nil, err
	}
	loadF, err := loadFile(fset, filepath.Join(repo, "pkg/config/load.go"))
	if err != nil {
		return nil, err
	}
	fx := &facts{}

	// msg.NewProxy fields
	np, ok := msgF.structs["NewProxy"]
	if !ok {
		return nil, fmt.Errorf("msg.NewProxy struct not found")
	}
	for _, fld := range np.Fields.List {
		if len(fld.Names) == 0 {
			return nil, fmt.Errorf("msg.NewProxy has an embedded field: %s", render(fld.Type))
		}
		for _, n := range fld.Names {
			fx.MsgFields = append(fx.MsgFields, [2]string{n.Name, render(fld.Type)})
		}
	}

	// base pair
	bm, ok1 := proxyF.methods["ProxyBaseConfig.MarshalToMsg"]
	bu, ok2 := proxyF.methods["ProxyBaseConfig.UnmarshalFromMsg"]
	bc, ok3 := proxyF.methods["ProxyBaseConfig.Complete"]
	if !ok1 || !ok2 || !ok3 {
		return nil, fmt.Errorf("ProxyBaseConfig.MarshalToMsg/UnmarshalFromMsg/Complete not found")
	}
	if _, fx.BaseMarshal, err = translateMarshal(bm, false); err != nil {
		return nil, fmt.Errorf("ProxyBaseConfig.MarshalToMsg: %v", err)
	}
	if _, fx.BaseUnmarshal, err = translateUnmarshal(bu, false); err != nil {
		return nil, fmt.Errorf("ProxyBaseConfig.UnmarshalFromMsg: %v", err)
	}
	r, p, err := recvParam(bc)
	if err != nil {
		return nil, err
	}
	for _, s := range bc.Body.List {
		st, err := translateCompleteStmt(s, r, p, typesF.consts)
		if err != nil {
			return nil, fmt.Errorf("ProxyBaseConfig.Complete: %v", err)
		}
		fx.Complete = append(fx.Complete, st)
	}

	// proxyConfigTypeMap: const → struct
	tm, ok := proxyF.vars["proxyConfigTypeMap"].(*ast.CompositeLit)
	if !ok {
		return nil, fmt.Errorf("proxyConfigTypeMap composite literal not found")
	}
	for _, el := range tm.Elts {
		kv, ok := el.(*ast.KeyValueExpr)
		if !ok {
			return nil, fmt.Errorf("proxyConfigTypeMap: unexpected element %s", render(el))
		}
		key, ok := kv.Key.(*ast.Ident)
		if !ok {
			return nil, fmt.Errorf("proxyConfigTypeMap: unexpected key %s", render(kv.Key))
		}
		tname, ok := proxyF.consts[key.Name]
		if !ok {
			return nil, fmt.Errorf("proxyConfigTypeMap: constant %s not found", key.Name)
		}
		val := render(kv.Value)
		if !strings.HasPrefix(val, "reflect.TypeOf(") || !strings.HasSuffix(val, "{…})") {
			return nil, fmt.Errorf("proxyConfigTypeMap: unexpected value %s", val)
		}
		sname := strings.TrimSuffix(strings.TrimPrefix(val, "reflect.TypeOf("), "{…})")
		tt := typeTables{TypeName: tname, Struct: sname}
		// the typed struct must not override Complete (the model uses the base one)
		if _, has := proxyF.methods[sname+".Complete"]; has {
			return nil, fmt.Errorf("%s overrides Complete: not modelled", sname)
		}
		mm, ok1 := proxyF.methods[sname+".MarshalToMsg"]
		um, ok2 := proxyF.methods[sname+".UnmarshalFromMsg"]
		if !ok1 || !ok2 {
			return nil, fmt.Errorf("%s: MarshalToMsg/UnmarshalFromMsg not found", sname)
		}
		if tt.CallsBaseM, tt.Marshal, err = translateMarshal(mm, true); err != nil {
			return nil, fmt.Errorf("%s.MarshalToMsg: %v", sname, err)
		}
		if tt.CallsBaseU, tt.Unmarshal, err = translateUnmarshal(um, true); err != nil {
			return nil, fmt.Errorf("%s.UnmarshalFromMsg: %v", sname, err)
		}
		fx.Types = append(fx.Types, tt)
	}
	if len(fx.Types) == 0 {
		return nil, fmt.Errorf("proxyConfigTypeMap is empty")
	}

	// NewProxyConfigurerByType sets the Type field
	nb, ok := proxyF.funcs["NewProxyConfigurerByType"]
	if !ok {
		return nil, fmt.Errorf("NewProxyConfigurerByType not found")
	}
	for _, s := range nb.Body.List {
		if renderStmt(s) == "pc.GetBaseConfig().Type = string(proxyType)" {
			fx.NewByTypeSetsType = true
		}
	}

	// NewProxyConfigurerFromMsg
	nf, ok := loadF.funcs["NewProxyConfigurerFromMsg"]
	if !ok {
		return nil, fmt.Errorf("NewProxyConfigurerFromMsg not found")
	}
	if render(nf.Type.Params.List[0].Names[0]) != "m" || render(nf.Type.Params.List[1].Names[0]) != "serverCfg" {
		return nil, fmt.Errorf("NewProxyConfigurerFromMsg: unexpected parameter names")
	}
	for _, s := range nf.Body.List {
		st, err := translateReconStmt(s, proxyF.consts)
		if err != nil {
			return nil, err
		}
		fx.Recon = append(fx.Recon, st)
	}
	return fx, nil
}

// ---------------------------------------------------------------- Lean emission

func leanBytes(s string) string {
	parts := []string{}
	for _, b := range []byte(s) {
		parts = append(parts, strconv.Itoa(int(b)))
	}
	return "[" + strings.Join(parts, ", ") + "]"
}

func cfCtor(path string) string { return "c" + strings.ReplaceAll(path, ".", "_") }
func mfCtor(name string) string { return "m" + name }

func leanM(e mEntry) string {
	x := "." + e.X
	if e.X == "copyUnlessEq" {
		x = "(.copyUnlessEq " + leanBytes(e.Lit) + ")"
	}
	return fmt.Sprintf("⟨.%s, .%s, %s⟩", mfCtor(e.Msg), cfCtor(e.Cfg), x)
}

func leanU(e uEntry) string {
	return fmt.Sprintf("⟨.%s, .%s, .%s⟩", cfCtor(e.Cfg), mfCtor(e.Msg), e.X)
}

func leanList(items []string, indent string) string {
	if len(items) == 0 {
		return "[]"
	}
	return "[\n" + indent + strings.Join(items, ",\n"+indent) + " ]"
}

func emitLean(fx *facts) (string, error) {
	msgSet := map[string]bool{}
	for _, f := range fx.MsgFields {
		msgSet[f[0]] = true
	}
	cfSet := map[string]bool{}
	note := func(ms []mEntry, us []uEntry) error {
		for _, e := range ms {
			if !msgSet[e.Msg] {
				return fmt.Errorf("marshal writes msg field %s that msg.NewProxy does not have", e.Msg)
			}
			cfSet[e.Cfg] = true
		}
		for _, e := range us {
			if !msgSet[e.Msg] {
				return fmt.Errorf("unmarshal reads msg field %s that msg.NewProxy does not have", e.Msg)
			}
			cfSet[e.Cfg] = true
		}
		return nil
	}
	if err := note(fx.BaseMarshal, fx.BaseUnmarshal); err != nil {
		return "", err
	}
	for _, t := range fx.Types {
		if err := note(t.Marshal, t.Unmarshal); err != nil {
			return "", err
		}
	}
	for _, c := range fx.Complete {
		if c.Kind == "emptyOr" {
			cfSet[c.Cfg] = true
		}
	}
	cfs := []string{}
	for k := range cfSet {
		cfs = append(cfs, k)
	}
	sort.Strings(cfs)

	var b strings.Builder
	w := func(f string, a ...any) { fmt.Fprintf(&b, f, a...) }
	w("/-\n  GENERATED by `translate ProxyMsg` — do not edit.\n")
	w("  Source: pkg/msg/msg.go (NewProxy), pkg/config/types/types.go (constants),\n")
	w("  pkg/config/v1/proxy.go (MarshalToMsg/UnmarshalFromMsg pairs, Complete, proxyConfigTypeMap),\n")
	w("  pkg/config/load.go (NewProxyConfigurerFromMsg).\n-/\n")
	w("import Frp.Model.Str\nnamespace Frp\nnamespace Gen\nnamespace ProxyMsg\n\n")

	w("/-- fields of `msg.NewProxy` -/\ninductive MF\n")
	for _, f := range fx.MsgFields {
		w("  | %s\n", mfCtor(f[0]))
	}
	w("  deriving DecidableEq, Repr\n\n")
	names := []string{}
	for _, f := range fx.MsgFields {
		names = append(names, "."+mfCtor(f[0]))
	}
	w("def MF.all : List MF := [%s]\n\n", strings.Join(names, ", "))
	w("def MF.name : MF → String\n")
	for _, f := range fx.MsgFields {
		w("  | .%s => %q\n", mfCtor(f[0]), f[0])
	}
	w("\ndef MF.goType : MF → String\n")
	for _, f := range fx.MsgFields {
		w("  | .%s => %q\n", mfCtor(f[0]), f[1])
	}

	w("\n/-- configuration field paths mentioned by the marshal/unmarshal/Complete statements -/\ninductive CF\n")
	for _, c := range cfs {
		w("  | %s\n", cfCtor(c))
	}
	w("  deriving DecidableEq, Repr\n\n")
	names = nil
	for _, c := range cfs {
		names = append(names, "."+cfCtor(c))
	}
	w("def CF.all : List CF := [%s]\n\n", strings.Join(names, ", "))
	w("def CF.name : CF → String\n")
	for _, c := range cfs {
		w("  | .%s => %q\n", cfCtor(c), c)
	}

	w("\n/-- proxy types (keys of `proxyConfigTypeMap`) -/\ninductive PT\n")
	for _, t := range fx.Types {
		w("  | %s\n", t.TypeName)
	}
	w("  deriving DecidableEq, Repr\n\n")
	names = nil
	for _, t := range fx.Types {
		names = append(names, "."+t.TypeName)
	}
	w("def PT.all : List PT := [%s]\n\n", strings.Join(names, ", "))
	w("def PT.name : PT → String\n")
	for _, t := range fx.Types {
		w("  | .%s => %q\n", t.TypeName, t.TypeName)
	}
	w("\n/-- the type string as bytes -/\ndef PT.bytes : PT → Str\n")
	for _, t := range fx.Types {
		w("  | .%s => %s\n", t.TypeName, leanBytes(t.TypeName))
	}
	w("\ndef PT.goStruct : PT → String\n")
	for _, t := range fx.Types {
		w("  | .%s => %q\n", t.TypeName, t.Struct)
	}

	w(`
/-- transformation applied by a marshal assignment `+"`m.F = …`"+` -/
inductive MX
  | copy                          -- m.F = c.P
  | callString                    -- m.F = c.P.String()
  | copyUnlessEq (lit : Str)      -- if c.P != lit { m.F = c.P }
  deriving DecidableEq, Repr

/-- transformation applied by an unmarshal assignment `+"`c.P = …`"+` -/
inductive UX
  | copy                          -- c.P = m.F
  | copyIfNonEmpty                -- if m.F != "" { c.P = m.F }
  | parseBandwidth                -- c.P, _ = types.NewBandwidthQuantity(m.F)
  | parseBandwidthIfNonEmpty      -- if m.F != "" { c.P, _ = types.NewBandwidthQuantity(m.F) }
  deriving DecidableEq, Repr

structure MEntry where
  msg : MF
  cfg : CF
  x : MX
  deriving DecidableEq, Repr

structure UEntry where
  cfg : CF
  msg : MF
  x : UX
  deriving DecidableEq, Repr

`)
	items := []string{}
	for _, e := range fx.BaseMarshal {
		items = append(items, leanM(e))
	}
	w("/-- ProxyBaseConfig.MarshalToMsg, in statement order -/\ndef baseMarshal : List MEntry := %s\n\n", leanList(items, "  "))
	items = nil
	for _, e := range fx.BaseUnmarshal {
		items = append(items, leanU(e))
	}
	w("/-- ProxyBaseConfig.UnmarshalFromMsg, in statement order -/\ndef baseUnmarshal : List UEntry := %s\n\n", leanList(items, "  "))

	w("/-- <T>ProxyConfig.MarshalToMsg, in statement order (base call expanded where the method makes it) -/\ndef marshalTable : PT → List MEntry\n")
	for _, t := range fx.Types {
		items = nil
		for _, e := range t.Marshal {
			items = append(items, leanM(e))
		}
		pre := ""
		if t.CallsBaseM {
			pre = "baseMarshal ++ "
		}
		w("  | .%s => %s%s\n", t.TypeName, pre, leanList(items, "      "))
	}
	w("\n/-- <T>ProxyConfig.UnmarshalFromMsg, in statement order -/\ndef unmarshalTable : PT → List UEntry\n")
	for _, t := range fx.Types {
		items = nil
		for _, e := range t.Unmarshal {
			items = append(items, leanU(e))
		}
		pre := ""
		if t.CallsBaseU {
			pre = "baseUnmarshal ++ "
		}
		w("  | .%s => %s%s\n", t.TypeName, pre, leanList(items, "      "))
	}

	w(`
/-- statements of ProxyBaseConfig.Complete(namePrefix) -/
inductive CompleteStep
  | prefixName                         -- c.Name = (namePrefix == "" ? "" : namePrefix + ".") + c.Name
  | emptyOr (f : CF) (dflt : Str)      -- c.F = util.EmptyOr(c.F, dflt)
  | pluginComplete                     -- client plugin options (not a server-side field)
  deriving DecidableEq, Repr

`)
	items = nil
	for _, c := range fx.Complete {
		switch c.Kind {
		case "emptyOr":
			items = append(items, fmt.Sprintf(".emptyOr .%s %s", cfCtor(c.Cfg), leanBytes(c.Lit)))
		default:
			items = append(items, "."+c.Kind)
		}
	}
	w("def completeSteps : List CompleteStep := %s\n", leanList(items, "  "))

	w(`
/-- statements of config.NewProxyConfigurerFromMsg -/
inductive ReconStep
  | defaultType (t : Str)   -- m.ProxyType = util.EmptyOr(m.ProxyType, t)
  | newByType               -- configurer := v1.NewProxyConfigurerByType(m.ProxyType)
  | unknownTypeErr          -- if configurer == nil { return error }
  | unmarshal               -- configurer.UnmarshalFromMsg(m)
  | completeNoPrefix        -- configurer.Complete("")
  | validateForServer       -- validation.ValidateProxyConfigurerForServer(configurer, serverCfg)
  | ret
  deriving DecidableEq, Repr

`)
	items = nil
	for _, s := range fx.Recon {
		if s.Kind == "defaultType" {
			items = append(items, ".defaultType "+leanBytes(s.Arg))
		} else {
			items = append(items, "."+s.Kind)
		}
	}
	w("def reconSteps : List ReconStep := %s\n\n", leanList(items, "  "))
	w("/-- NewProxyConfigurerByType stores the type string in the new configurer's base Type field -/\n")
	w("def newByTypeSetsType : Bool := %v\n\n", fx.NewByTypeSetsType)
	w("end ProxyMsg\nend Gen\nend Frp\n")
	return b.String(), nil
}

func genProxyMsg(repo, out string) error {
	fx, err := extractProxyMsg(repo)
	if err != nil {
		return err
	}
	src, err := emitLean(fx)
	if err != nil {
		return err
	}
	if err := os.MkdirAll(out, 0o755); err != nil {
		return err
	}
	// write only when changed, so that an unchanged tree does not trigger a Lean rebuild
	target := filepath.Join(out, "ProxyMsg.lean")
	if old, err := os.ReadFile(target); err != nil || string(old) != src {
		if err := os.WriteFile(target, []byte(src), 0o644); err != nil {
			return err
		}
	}
	js, _ := json.MarshalIndent(fx, "", " ")
	return os.WriteFile(filepath.Join(out, "ProxyMsg.json"), js, 0o644)
}
