package main

// Generator "Flags" (property C18).
//
// Reads, from the frp tree as it is now,
//   pkg/config/flags.go            every flag registration of RegisterProxyFlags (per case of its type switch),
//                                  registerProxyBaseConfigFlags, registerProxyDomainConfigFlags,
//                                  RegisterVisitorFlags/registerVisitorBaseConfigFlags,
//                                  RegisterClientCommonConfigFlags, RegisterServerConfigFlags;
//                                  WordSepNormalizeFunc; the Set methods of the three flag value types
//   pkg/config/types/types.go      string constants used as defaults
//   pkg/config/v1/proxy.go         proxyConfigTypeMap (struct name → proxy type)
// and writes <out>/Flags.lean (+ Flags.json): per registration the flag name, shorthand, the field path the
// flag's value is bound to, the value kind, the textual default, whether it is registered in ssh mode too and
// whether it is a persistent flag.
//
// Every statement of those functions must have one of the shapes listed at translateFlagStmt; anything else is
// an error (broken tie).

import (
	"encoding/json"
	"fmt"
	"go/ast"
	"go/token"
	"os"
	"path/filepath"
	"strings"
)

func init() { generators["Flags"] = genFlags }

type flagReg struct {
	Name, Short, Target, Kind, Default string
	SSH, Persistent                   bool
}

type flagFacts struct {
	ProxyBase    []flagReg
	Domain       []flagReg
	ProxyTyped   map[string][]flagReg // proxy type name → own registrations
	ProxyDomain  map[string]bool      // proxy type name → case calls registerProxyDomainConfigFlags
	ProxyOrder   []string
	VisitorBase  []flagReg
	ClientCommon []flagReg
	Server       []flagReg
	NormFrom     string
	NormTo       string
	BoolFuncIgnoresArg bool
}

var flagVarKinds = map[string]string{
	"StringVarP": "str", "IntVarP": "int", "Int64VarP": "int64", "BoolVarP": "bool",
	"StringSliceVarP": "strSlice", "StringToStringVarP": "strMap",
}

// flagSetCall recognises  cmd.Flags().M(args…)  /  cmd.PersistentFlags().M(args…)
func flagSetCall(e ast.Expr) (method string, persistent bool, args []ast.Expr, ok bool) {
	call, isCall := e.(*ast.CallExpr)
	if !isCall {
		return
	}
	sel, isSel := call.Fun.(*ast.SelectorExpr)
	if !isSel {
		return
	}
	switch render(sel.X) {
	case "cmd.Flags()":
	case "cmd.PersistentFlags()":
		persistent = true
	default:
		return
	}
	return sel.Sel.Name, persistent, call.Args, true
}

func defaultText(e ast.Expr, consts map[string]string) (string, error) {
	switch v := e.(type) {
	case *ast.BasicLit:
		if s, ok := strLit(e); ok {
			return s, nil
		}
		if v.Kind == token.INT {
			return v.Value, nil
		}
	case *ast.Ident:
		switch v.Name {
		case "true", "false":
			return v.Name, nil
		case "nil":
			return "", nil
		}
	case *ast.CompositeLit:
		if render(v.Type) == "[]string" && len(v.Elts) == 0 {
			return "", nil
		}
	case *ast.SelectorExpr:
		if render(v.X) == "types" {
			if s, ok := consts[v.Sel.Name]; ok {
				return s, nil
			}
		}
	}
	return "", fmt.Errorf("untranslatable default value %s", render(e))
}

// addrPath: &root.A.B  →  "A.B"
func addrPath(e ast.Expr, root string) (string, bool) {
	u, ok := e.(*ast.UnaryExpr)
	if !ok || u.Op != token.AND {
		return "", false
	}
	return pathOn(u.X, root)
}

// statement shapes accepted inside a register function (receiver variable recv, e.g. "c" or "cc";
// locals maps a local struct variable to the field path it stands for once the BoolFuncFlag has run):
//
//	cmd.[Persistent]Flags().<Kind>VarP(&recv.A.B, "name", "short", <default>, <usage>)
//	cmd.[Persistent]Flags().<Kind>VarP(&local.F, "name", "short", <default>, <usage>)          target "local:<local>.F"
//	cmd.[Persistent]Flags().VarP(&BandwidthQuantityFlag{V: &recv.A.B}, "name", "short", <usage>)
//	cmd.[Persistent]Flags().VarP(&PortsRangeSliceFlag{V: &recv.A.B}, "name", "short", <usage>)
//	cmd.[Persistent]Flags().VarP(&BoolFuncFlag{TrueFunc: func() { recv.A.B = &local }}, "name", "short", <usage>)
//	recv.A.B = cmd.[Persistent]Flags().BoolP("name", "short", <default>, <usage>)
func translateFlagStmt(s ast.Stmt, recv string, locals map[string]bool, ssh bool, consts map[string]string) (flagReg, error) {
	bad := func(why string) (flagReg, error) {
		return flagReg{}, fmt.Errorf("untranslatable flag registration (%s): %s", why, renderStmt(s))
	}
	switch v := s.(type) {
	case *ast.ExprStmt:
		m, pers, args, ok := flagSetCall(v.X)
		if !ok {
			return bad("not a call on cmd.Flags()/cmd.PersistentFlags()")
		}
		if kind, ok := flagVarKinds[m]; ok {
			if len(args) != 5 {
				return bad("expected 5 arguments")
			}
			name, ok1 := strLit(args[1])
			short, ok2 := strLit(args[2])
			if !ok1 || !ok2 {
				return bad("flag name / shorthand is not a string literal")
			}
			dflt, err := defaultText(args[3], consts)
			if err != nil {
				return bad(err.Error())
			}
			if p, ok := addrPath(args[0], recv); ok {
				return flagReg{name, short, p, kind, dflt, ssh, pers}, nil
			}
			for l := range locals {
				if p, ok := addrPath(args[0], l); ok {
					return flagReg{name, short, "local:" + l + "." + p, kind, dflt, ssh, pers}, nil
				}
			}
			return bad("first argument is not &" + recv + ".<path>")
		}
		if m == "VarP" {
			if len(args) != 4 {
				return bad("expected 4 arguments")
			}
			name, ok1 := strLit(args[1])
			short, ok2 := strLit(args[2])
			if !ok1 || !ok2 {
				return bad("flag name / shorthand is not a string literal")
			}
			u, ok := args[0].(*ast.UnaryExpr)
			if !ok || u.Op != token.AND {
				return bad("value is not &T{…}")
			}
			cl, ok := u.X.(*ast.CompositeLit)
			if !ok || len(cl.Elts) != 1 {
				return bad("value is not a one-field composite literal")
			}
			kv, ok := cl.Elts[0].(*ast.KeyValueExpr)
			if !ok {
				return bad("composite literal without key")
			}
			switch render(cl.Type) + "." + render(kv.Key) {
			case "BandwidthQuantityFlag.V":
				if p, ok := addrPath(kv.Value, recv); ok {
					return flagReg{name, short, p, "bandwidth", "", ssh, pers}, nil
				}
			case "PortsRangeSliceFlag.V":
				if p, ok := addrPath(kv.Value, recv); ok {
					return flagReg{name, short, p, "portsRange", "", ssh, pers}, nil
				}
			case "BoolFuncFlag.TrueFunc":
				// func() { recv.A.B = &local }
				fl, ok := kv.Value.(*ast.FuncLit)
				if ok && len(fl.Body.List) == 1 {
					if as, ok := fl.Body.List[0].(*ast.AssignStmt); ok && as.Tok == token.ASSIGN && len(as.Lhs) == 1 && len(as.Rhs) == 1 {
						p, ok1 := pathOn(as.Lhs[0], recv)
						u2, ok2 := as.Rhs[0].(*ast.UnaryExpr)
						if ok1 && ok2 && u2.Op == token.AND {
							if id, ok := u2.X.(*ast.Ident); ok && locals[id.Name] {
								return flagReg{name, short, p, "boolFunc", "local:" + id.Name, ssh, pers}, nil
							}
						}
					}
				}
			}
			return bad("unknown flag value type")
		}
		return bad("unknown FlagSet method " + m)
	case *ast.AssignStmt:
		if v.Tok == token.ASSIGN && len(v.Lhs) == 1 && len(v.Rhs) == 1 {
			p, ok := pathOn(v.Lhs[0], recv)
			m, pers, args, ok2 := flagSetCall(v.Rhs[0])
			if ok && ok2 && m == "BoolP" && len(args) == 4 {
				name, ok1 := strLit(args[0])
				short, ok3 := strLit(args[1])
				dflt, err := defaultText(args[2], consts)
				if ok1 && ok3 && err == nil {
					return flagReg{name, short, p, "boolPtr", dflt, ssh, pers}, nil
				}
			}
		}
	}
	return bad("unknown statement shape")
}

// translateRegisterBody walks the statements of one register function.
//   if <recv> == nil { return }                                     (skipped)
//   options := &registerFlagOptions{}; for _, opt := range opts { opt(options) }   (skipped, remembered)
//   if !options.sshMode { <registrations> }                         registrations with SSH=false
//   <local> := v1.TLSConfig{}                                       declares a local target struct
//   <registration>
func translateRegisterBody(fd *ast.FuncDecl, recv string, consts map[string]string) ([]flagReg, error) {
	out := []flagReg{}
	locals := map[string]bool{}
	hasOptions := false
	for _, s := range fd.Body.List {
		txt := renderStmt(s)
		switch {
		case txt == "if "+recv+" == nil { return ; }":
			continue
		case txt == "options := &registerFlagOptions{…}":
			hasOptions = true
			continue
		}
		if rs, ok := s.(*ast.RangeStmt); ok {
			if render(rs.X) == "opts" && len(rs.Body.List) == 1 && renderStmt(rs.Body.List[0]) == "opt(options)" && hasOptions {
				continue
			}
			return nil, fmt.Errorf("%s: untranslatable range statement", fd.Name.Name)
		}
		if ifs, ok := s.(*ast.IfStmt); ok {
			if ifs.Init == nil && ifs.Else == nil && render(ifs.Cond) == "!options.sshMode" && hasOptions {
				for _, b := range ifs.Body.List {
					r, err := translateFlagStmt(b, recv, locals, false, consts)
					if err != nil {
						return nil, fmt.Errorf("%s: %v", fd.Name.Name, err)
					}
					out = append(out, r)
				}
				continue
			}
			return nil, fmt.Errorf("%s: untranslatable if statement: %s", fd.Name.Name, txt)
		}
		if as, ok := s.(*ast.AssignStmt); ok && as.Tok == token.DEFINE && len(as.Lhs) == 1 && len(as.Rhs) == 1 {
			if id, ok := as.Lhs[0].(*ast.Ident); ok && render(as.Rhs[0]) == "v1.TLSConfig{…}" {
				if cl := as.Rhs[0].(*ast.CompositeLit); len(cl.Elts) == 0 {
					locals[id.Name] = true
					continue
				}
			}
			return nil, fmt.Errorf("%s: untranslatable local definition: %s", fd.Name.Name, txt)
		}
		r, err := translateFlagStmt(s, recv, locals, true, consts)
		if err != nil {
			return nil, fmt.Errorf("%s: %v", fd.Name.Name, err)
		}
		out = append(out, r)
	}
	return out, nil
}

func paramName(fd *ast.FuncDecl, i int) (string, error) {
	k := 0
	for _, f := range fd.Type.Params.List {
		for _, n := range f.Names {
			if k == i {
				return n.Name, nil
			}
			k++
		}
	}
	return "", fmt.Errorf("%s: no parameter %d", fd.Name.Name, i)
}

func extractFlags(repo string) (*flagFacts, error) {
	fset := token.NewFileSet()
	ff, err := loadFile(fset, filepath.Join(repo, "pkg/config/flags.go"))
	if err != nil {
		return nil, err
	}
	typesF, err := loadFile(fset, filepath.Join(repo, "pkg/config/types/types.go"))
	if err != nil {
		return nil, err
	}
	pm, err := extractProxyMsg(repo)
	if err != nil {
		return nil, err
	}
	structToType := map[string]string{}
	fx := &flagFacts{ProxyTyped: map[string][]flagReg{}, ProxyDomain: map[string]bool{}}
	for _, t := range pm.Types {
		structToType[t.Struct] = t.TypeName
		fx.ProxyOrder = append(fx.ProxyOrder, t.TypeName)
		fx.ProxyTyped[t.TypeName] = []flagReg{}
	}
	need := func(name string) (*ast.FuncDecl, error) {
		fd, ok := ff.funcs[name]
		if !ok || fd.Body == nil {
			return nil, fmt.Errorf("function %s not found in pkg/config/flags.go", name)
		}
		return fd, nil
	}
	simple := func(name string) ([]flagReg, error) {
		fd, err := need(name)
		if err != nil {
			return nil, err
		}
		recv, err := paramName(fd, 1)
		if err != nil {
			return nil, err
		}
		if cmd, _ := paramName(fd, 0); cmd != "cmd" {
			return nil, fmt.Errorf("%s: first parameter is not named cmd", name)
		}
		return translateRegisterBody(fd, recv, typesF.consts)
	}
	if fx.ProxyBase, err = simple("registerProxyBaseConfigFlags"); err != nil {
		return nil, err
	}
	if fx.Domain, err = simple("registerProxyDomainConfigFlags"); err != nil {
		return nil, err
	}
	if fx.VisitorBase, err = simple("registerVisitorBaseConfigFlags"); err != nil {
		return nil, err
	}
	if fx.ClientCommon, err = simple("RegisterClientCommonConfigFlags"); err != nil {
		return nil, err
	}
	if fx.Server, err = simple("RegisterServerConfigFlags"); err != nil {
		return nil, err
	}

	// RegisterVisitorFlags: exactly the call of the base registration
	rv, err := need("RegisterVisitorFlags")
	if err != nil {
		return nil, err
	}
	if len(rv.Body.List) != 1 || renderStmt(rv.Body.List[0]) != "registerVisitorBaseConfigFlags(cmd, c.GetBaseConfig(), opts)" {
		return nil, fmt.Errorf("RegisterVisitorFlags: unexpected body")
	}

	// RegisterProxyFlags: base call, then a type switch
	rp, err := need("RegisterProxyFlags")
	if err != nil {
		return nil, err
	}
	if len(rp.Body.List) != 2 || renderStmt(rp.Body.List[0]) != "registerProxyBaseConfigFlags(cmd, c.GetBaseConfig(), opts)" {
		return nil, fmt.Errorf("RegisterProxyFlags: expected the base registration call followed by one type switch")
	}
	ts, ok := rp.Body.List[1].(*ast.TypeSwitchStmt)
	if !ok {
		return nil, fmt.Errorf("RegisterProxyFlags: second statement is not a type switch")
	}
	as, ok := ts.Assign.(*ast.AssignStmt)
	if !ok || len(as.Lhs) != 1 {
		return nil, fmt.Errorf("RegisterProxyFlags: type switch without bound variable")
	}
	cc := render(as.Lhs[0])
	seen := map[string]bool{}
	for _, cl := range ts.Body.List {
		c := cl.(*ast.CaseClause)
		if len(c.List) != 1 {
			return nil, fmt.Errorf("RegisterProxyFlags: case with %d types", len(c.List))
		}
		tn := strings.TrimPrefix(render(c.List[0]), "*v1.")
		pt, ok := structToType[tn]
		if !ok {
			return nil, fmt.Errorf("RegisterProxyFlags: case %s is not a registered proxy type", render(c.List[0]))
		}
		if seen[pt] {
			return nil, fmt.Errorf("RegisterProxyFlags: duplicate case %s", tn)
		}
		seen[pt] = true
		for i, s := range c.Body {
			if renderStmt(s) == "registerProxyDomainConfigFlags(cmd, &"+cc+".DomainConfig)" {
				if i != 0 {
					return nil, fmt.Errorf("RegisterProxyFlags: domain registration is not the first statement of case %s", tn)
				}
				fx.ProxyDomain[pt] = true
				continue
			}
			r, err := translateFlagStmt(s, cc, nil, true, typesF.consts)
			if err != nil {
				return nil, fmt.Errorf("RegisterProxyFlags case %s: %v", tn, err)
			}
			fx.ProxyTyped[pt] = append(fx.ProxyTyped[pt], r)
		}
	}

	// WordSepNormalizeFunc
	wn, err := need("WordSepNormalizeFunc")
	if err != nil {
		return nil, err
	}
	if len(wn.Body.List) == 2 &&
		renderStmt(wn.Body.List[0]) == `if strings.Contains(name, "_") { return pflag.NormalizedName(strings.ReplaceAll(name, "_", "-")); }` &&
		renderStmt(wn.Body.List[1]) == "return pflag.NormalizedName(name)" {
		fx.NormFrom, fx.NormTo = "_", "-"
	} else {
		return nil, fmt.Errorf("WordSepNormalizeFunc: unexpected body")
	}

	// Set methods of the value types
	body := func(m string) (string, error) {
		fd, ok := ff.methods[m]
		if !ok || fd.Body == nil {
			return "", fmt.Errorf("method %s not found", m)
		}
		parts := []string{}
		for _, s := range fd.Body.List {
			parts = append(parts, renderStmt(s))
		}
		return strings.Join(parts, " ;; "), nil
	}
	b, err := body("BandwidthQuantityFlag.Set")
	if err != nil {
		return nil, err
	}
	if b != "return f.V.UnmarshalString(s)" {
		return nil, fmt.Errorf("BandwidthQuantityFlag.Set: unexpected body: %s", b)
	}
	b, err = body("PortsRangeSliceFlag.Set")
	if err != nil {
		return nil, err
	}
	if b != "slice, err := types.NewPortsRangeSliceFromString(s) ;; if err != nil { return err; } ;; *f.V = slice ;; return nil" {
		return nil, fmt.Errorf("PortsRangeSliceFlag.Set: unexpected body: %s", b)
	}
	b, err = body("BoolFuncFlag.Set")
	if err != nil {
		return nil, err
	}
	// the body as it stands never looks at its argument: f.v keeps its zero value, so FalseFunc runs
	const asIs = `f.v = strconv.FormatBool(f.v) == "true" ;; if !f.v { if f.FalseFunc != nil { f.FalseFunc(); }; return nil; } ;; if f.TrueFunc != nil { f.TrueFunc(); } ;; return nil`
	// repaired (fix 5d51052 in /repo): the argument is parsed with strconv.ParseBool, a malformed one is an error
	const parsed = `v, err := strconv.ParseBool(s) ;; if err != nil { return err; } ;; f.v = v ;; if !f.v { if f.FalseFunc != nil { f.FalseFunc(); }; return nil; } ;; if f.TrueFunc != nil { f.TrueFunc(); } ;; return nil`
	if b == asIs {
		fx.BoolFuncIgnoresArg = true
	} else if b == parsed {
		fx.BoolFuncIgnoresArg = false
	} else {
		return nil, fmt.Errorf("BoolFuncFlag.Set: unexpected body (the model knows the version that ignores its argument and the one that parses it with strconv.ParseBool): %s", b)
	}
	return fx, nil
}

func leanReg(r flagReg) string {
	return fmt.Sprintf("⟨%s, %s, %s, .%s, %s, %v, %v⟩  -- %s %q → %s (default %q)",
		leanBytes(r.Name), leanBytes(r.Short), leanBytes(r.Target), r.Kind, leanBytes(r.Default), r.SSH, r.Persistent,
		r.Name, r.Short, r.Target, r.Default)
}

func leanRegList(rs []flagReg, indent string) string {
	if len(rs) == 0 {
		return "[]"
	}
	var b strings.Builder
	b.WriteString("[\n")
	for i, r := range rs {
		line := leanReg(r)
		// the separator must precede the trailing comment
		j := strings.Index(line, "  -- ")
		sep := ","
		if i == len(rs)-1 {
			sep = " ]"
		}
		b.WriteString(indent + line[:j] + sep + line[j:] + "\n")
	}
	return strings.TrimRight(b.String(), "\n")
}

func emitFlagsLean(fx *flagFacts) string {
	var b strings.Builder
	w := func(f string, a ...any) { fmt.Fprintf(&b, f, a...) }
	w("/-\n  GENERATED by `translate Flags` — do not edit.\n")
	w("  Source: pkg/config/flags.go (every flag registration, WordSepNormalizeFunc, the Set methods of the\n")
	w("  flag value types), pkg/config/types/types.go (constants), pkg/config/v1/proxy.go (proxyConfigTypeMap).\n-/\n")
	w("import Frp.Gen.ProxyMsg\nnamespace Frp\nnamespace Gen\nnamespace Flags\nopen Gen.ProxyMsg\n\n")
	w(`/-- how the flag's textual value reaches the bound field -/
inductive Kind
  | str          -- StringVarP
  | int          -- IntVarP
  | int64        -- Int64VarP
  | bool         -- BoolVarP
  | strSlice     -- StringSliceVarP
  | strMap       -- StringToStringVarP
  | bandwidth    -- VarP(&BandwidthQuantityFlag{V: &field})
  | portsRange   -- VarP(&PortsRangeSliceFlag{V: &field})
  | boolPtr      -- field = BoolP(…)   (the field is the pointer the flag set hands out)
  | boolFunc     -- VarP(&BoolFuncFlag{TrueFunc: func() { field = &local }})
  deriving DecidableEq, Repr

/-- one flag registration.  target is the field path below the configuration struct the register
    function receives ("local:<var>.<F>" = a field of a local struct of the register function;
    for kind boolFunc dflt names that local as "local:<var>").  ssh = also registered with
    WithSSHMode (i.e. outside the if !options.sshMode block). -/
structure Reg where
  name : Str
  short : Str
  target : Str
  kind : Kind
  dflt : Str
  ssh : Bool
  persistent : Bool
  deriving DecidableEq, Repr

`)
	w("/-- registerProxyBaseConfigFlags -/\ndef proxyBase : List Reg := %s\n\n", leanRegList(fx.ProxyBase, "  "))
	w("/-- registerProxyDomainConfigFlags -/\ndef domain : List Reg := %s\n\n", leanRegList(fx.Domain, "  "))
	w("/-- the registrations in the case of RegisterProxyFlags' type switch for each proxy type -/\ndef proxyTyped : PT → List Reg\n")
	for _, t := range fx.ProxyOrder {
		w("  | .%s => %s\n", t, leanRegList(fx.ProxyTyped[t], "      "))
	}
	w("\n/-- the case calls registerProxyDomainConfigFlags(cmd, &cc.DomainConfig) first -/\ndef proxyUsesDomain : PT → Bool\n")
	for _, t := range fx.ProxyOrder {
		w("  | .%s => %v\n", t, fx.ProxyDomain[t])
	}
	w("\n/-- registerVisitorBaseConfigFlags (RegisterVisitorFlags adds nothing else) -/\ndef visitorBase : List Reg := %s\n\n", leanRegList(fx.VisitorBase, "  "))
	w("/-- RegisterClientCommonConfigFlags -/\ndef clientCommon : List Reg := %s\n\n", leanRegList(fx.ClientCommon, "  "))
	w("/-- RegisterServerConfigFlags -/\ndef server : List Reg := %s\n\n", leanRegList(fx.Server, "  "))
	w("/-- WordSepNormalizeFunc: every byte `normFrom` of a flag name is replaced by `normTo` -/\n")
	w("def normFrom : Nat := %d\ndef normTo : Nat := %d\n\n", fx.NormFrom[0], fx.NormTo[0])
	w("/-- BoolFuncFlag.Set of the pinned tree computed `f.v = strconv.FormatBool(f.v) == \"true\"`: the argument\n")
	w("    was never read, f.v stayed false, TrueFunc never ran (true); the repaired body parses it (false) -/\ndef boolFuncIgnoresArg : Bool := %v\n\n", fx.BoolFuncIgnoresArg)
	w("end Flags\nend Gen\nend Frp\n")
	return b.String()
}

func genFlags(repo, out string) error {
	fx, err := extractFlags(repo)
	if err != nil {
		return err
	}
	src := emitFlagsLean(fx)
	if err := os.MkdirAll(out, 0o755); err != nil {
		return err
	}
	target := filepath.Join(out, "Flags.lean")
	if old, err := os.ReadFile(target); err != nil || string(old) != src {
		if err := os.WriteFile(target, []byte(src), 0o644); err != nil {
			return err
		}
	}
	js, _ := json.MarshalIndent(fx, "", " ")
	return os.WriteFile(filepath.Join(out, "Flags.json"), js, 0o644)
}
