package main

// Generator PoolFacts (C11): the ORDER of the pool-relevant steps of the session teardown and the shape of the
// work-connection registration, read from the frp source.  The pool-teardown model (Frp/Model/PoolEnd.lean) runs
// the worker's program as it is listed here; Props/C11End.lean proves, for every program that meets the decidable
// condition `willDrain`, that in every interleaving with RegisterWorkConn / GetWorkConn every work connection ever
// offered is handed to a user connection or closed once the worker has finished — and that the listed program
// meets the condition.  Written to lean/Frp/Gen/PoolFacts.lean:
//
//	workerPool          server/control.go (*Control).worker, the statements after `<-ctl.msgDispatcher.Done()` that
//	                    touch ctl.mu or ctl.workConnCh, in execution order:
//	                      "lock"    ctl.mu.Lock()                   "unlock"  ctl.mu.Unlock() (a deferred one: at the end)
//	                      "close"   close(ctl.workConnCh)
//	                      "range"   for c := range ctl.workConnCh { c.Close() }          (blocks while open and empty)
//	                      "nbdrain" for { select { case c, ok := <-ctl.workConnCh: [if !ok { return }] c.Close()
//	                                               default: return | break <label> } }     (never blocks)
//	                    a call ctl.m() of a method of Control whose body touches them is replaced by the steps of
//	                    that body; anything else that mentions ctl.workConnCh is "unknown:<text>" (no theorem applies)
//	registerSend        (*Control).RegisterWorkConn: "select-default" for `select { case ctl.workConnCh <- conn: …
//	                    return nil; default: … return <error> }`, "send" for a bare send, else "unknown"
//	registerRecoverErr  RegisterWorkConn defers a function that calls recover() and assigns the named result `err`
//	registerLocks       RegisterWorkConn takes ctl.mu
//	serviceClosesOnErr  server/service.go handleConnection: `if err := svr.RegisterWorkConn(…); err != nil { conn.Close() }`
//	                    and (*Service).RegisterWorkConn ends in `return ctl.RegisterWorkConn(workConn)`

import (
	"fmt"
	"go/ast"
	"go/parser"
	"go/token"
	"os"
	"path/filepath"
	"strings"
)

func init() { generators["PoolFacts"] = genPoolFacts }

func pfMentions(n ast.Node, sel string) bool {
	found := false
	ast.Inspect(n, func(x ast.Node) bool {
		if s, ok := x.(*ast.SelectorExpr); ok && s.Sel.Name == sel {
			if id, ok := s.X.(*ast.Ident); ok && id.Name == "ctl" {
				found = true
			}
		}
		return !found
	})
	return found
}

// `x.Close()` as a statement
func pfIsCloseOf(st ast.Stmt, name string) bool {
	es, ok := st.(*ast.ExprStmt)
	if !ok {
		return false
	}
	c, ok := es.X.(*ast.CallExpr)
	if !ok || len(c.Args) != 0 {
		return false
	}
	return sfSelIs(c.Fun, name, "Close")
}

func pfMuCall(e ast.Expr) string {
	c, ok := e.(*ast.CallExpr)
	if !ok || len(c.Args) != 0 {
		return ""
	}
	s, ok := c.Fun.(*ast.SelectorExpr)
	if !ok || !sfSelIs(s.X, "ctl", "mu") {
		return ""
	}
	switch s.Sel.Name {
	case "Lock":
		return "lock"
	case "Unlock":
		return "unlock"
	}
	return "unknown:mu." + s.Sel.Name
}

// the non-blocking drain loop
func pfIsNbDrain(fs *ast.ForStmt) bool {
	if fs.Init != nil || fs.Cond != nil || fs.Post != nil || len(fs.Body.List) != 1 {
		return false
	}
	sel, ok := fs.Body.List[0].(*ast.SelectStmt)
	if !ok || len(sel.Body.List) != 2 {
		return false
	}
	recvOK, defOK := false, false
	for _, cl := range sel.Body.List {
		cc := cl.(*ast.CommClause)
		if cc.Comm == nil {
			if len(cc.Body) == 1 {
				if r, ok := cc.Body[0].(*ast.ReturnStmt); ok && len(r.Results) == 0 {
					defOK = true
				}
				// `break <label>` out of the (labelled) loop: the same exit
				if br, ok := cc.Body[0].(*ast.BranchStmt); ok && br.Tok == token.BREAK && br.Label != nil {
					defOK = true
				}
			}
			continue
		}
		as, ok := cc.Comm.(*ast.AssignStmt)
		if !ok || len(as.Rhs) != 1 || len(as.Lhs) < 1 {
			continue
		}
		u, ok := as.Rhs[0].(*ast.UnaryExpr)
		if !ok || u.Op != token.ARROW || !sfSelIs(u.X, "ctl", "workConnCh") {
			continue
		}
		v, ok := as.Lhs[0].(*ast.Ident)
		if !ok {
			continue
		}
		// the received connection is closed on the path that got one: the last statement, at top level
		if n := len(cc.Body); n > 0 && pfIsCloseOf(cc.Body[n-1], v.Name) {
			recvOK = true
		}
	}
	return recvOK && defOK
}

func pfSteps(fset *token.FileSet, file *ast.File, list []ast.Stmt, depth int, deferred *[]string) []string {
	var out []string
	for _, st := range list {
		if ls, ok := st.(*ast.LabeledStmt); ok {
			if _, isFor := ls.Stmt.(*ast.ForStmt); isFor {
				st = ls.Stmt
			}
		}
		switch s := st.(type) {
		case *ast.ExprStmt:
			if m := pfMuCall(s.X); m != "" {
				out = append(out, m)
				continue
			}
			if c, ok := s.X.(*ast.CallExpr); ok {
				if id, ok := c.Fun.(*ast.Ident); ok && id.Name == "close" && len(c.Args) == 1 && sfSelIs(c.Args[0], "ctl", "workConnCh") {
					out = append(out, "close")
					continue
				}
				// a method of Control: its pool steps stand in for the call
				if sel, ok := c.Fun.(*ast.SelectorExpr); ok {
					if id, ok := sel.X.(*ast.Ident); ok && id.Name == "ctl" {
						if fd := sfMethod(file, "Control", sel.Sel.Name); fd != nil && fd.Body != nil &&
							(pfMentions(fd.Body, "workConnCh") || pfMentions(fd.Body, "mu")) {
							if depth >= 3 {
								out = append(out, "unknown:call-depth:"+sel.Sel.Name)
								continue
							}
							var inner []string
							out = append(out, pfSteps(fset, file, fd.Body.List, depth+1, &inner)...)
							out = append(out, inner...) // the callee's deferred steps run when it returns
							continue
						}
					}
				}
			}
		case *ast.DeferStmt:
			if m := pfMuCall(s.Call); m != "" {
				*deferred = append([]string{m}, *deferred...)
				continue
			}
		case *ast.RangeStmt:
			if sfSelIs(s.X, "ctl", "workConnCh") {
				if k, ok := s.Key.(*ast.Ident); ok && s.Value == nil && len(s.Body.List) == 1 && pfIsCloseOf(s.Body.List[0], k.Name) {
					out = append(out, "range")
				} else {
					out = append(out, "unknown:"+sfExprStr(fset, s))
				}
				continue
			}
		case *ast.ForStmt:
			if pfMentions(s, "workConnCh") {
				if pfIsNbDrain(s) {
					out = append(out, "nbdrain")
				} else {
					out = append(out, "unknown:"+sfExprStr(fset, s))
				}
				continue
			}
		}
		if pfMentions(st, "workConnCh") || pfMentions(st, "mu") {
			out = append(out, "unknown:"+sfExprStr(fset, st))
		}
	}
	return out
}

func genPoolFacts(repo, out string) error {
	fset := token.NewFileSet()
	sc, err := parser.ParseFile(fset, filepath.Join(repo, "server", "control.go"), nil, 0)
	if err != nil {
		return err
	}
	worker := sfMethod(sc, "Control", "worker")
	if worker == nil {
		return fail("server/control.go: (*Control).worker not found")
	}
	// the statements after `<-ctl.msgDispatcher.Done()`
	start := -1
	for i, st := range worker.Body.List {
		if es, ok := st.(*ast.ExprStmt); ok {
			if u, ok := es.X.(*ast.UnaryExpr); ok && u.Op == token.ARROW {
				if c, ok := u.X.(*ast.CallExpr); ok {
					if s, ok := c.Fun.(*ast.SelectorExpr); ok && s.Sel.Name == "Done" {
						start = i + 1
					}
				}
			}
		}
	}
	if start < 0 {
		return fail("server/control.go: worker() does not wait for msgDispatcher.Done()")
	}
	if pfMentions(&ast.BlockStmt{List: worker.Body.List[:start]}, "workConnCh") {
		return fail("server/control.go: worker() touches ctl.workConnCh before the dispatcher is done")
	}
	var deferred []string
	steps := pfSteps(fset, sc, worker.Body.List[start:], 0, &deferred)
	steps = append(steps, deferred...)
	if len(steps) == 0 {
		return fail("server/control.go: worker() has no pool step")
	}

	reg := sfMethod(sc, "Control", "RegisterWorkConn")
	if reg == nil {
		return fail("server/control.go: (*Control).RegisterWorkConn not found")
	}
	regSend, regRecover := "unknown", false
	errName := ""
	if reg.Type.Results != nil {
		for _, f := range reg.Type.Results.List {
			for _, n := range f.Names {
				errName = n.Name
			}
		}
	}
	sends := 0
	ast.Inspect(reg.Body, func(n ast.Node) bool {
		if s, ok := n.(*ast.SendStmt); ok && sfSelIs(s.Chan, "ctl", "workConnCh") {
			sends++
		}
		return true
	})
	for _, st := range reg.Body.List {
		switch s := st.(type) {
		case *ast.DeferStmt:
			fl, ok := s.Call.Fun.(*ast.FuncLit)
			if !ok {
				continue
			}
			hasRecover, setsErr := false, false
			ast.Inspect(fl.Body, func(n ast.Node) bool {
				if c, ok := n.(*ast.CallExpr); ok {
					if id, ok := c.Fun.(*ast.Ident); ok && id.Name == "recover" {
						hasRecover = true
					}
				}
				if as, ok := n.(*ast.AssignStmt); ok && as.Tok == token.ASSIGN && len(as.Lhs) == 1 && len(as.Rhs) == 1 {
					if id, ok := as.Lhs[0].(*ast.Ident); ok && errName != "" && id.Name == errName {
						if r, ok := as.Rhs[0].(*ast.Ident); !ok || r.Name != "nil" {
							setsErr = true
						}
					}
				}
				return true
			})
			if hasRecover && setsErr {
				regRecover = true
			}
		case *ast.SelectStmt:
			sendOK, defOK := false, false
			for _, cl := range s.Body.List {
				cc := cl.(*ast.CommClause)
				last := func() *ast.ReturnStmt {
					if len(cc.Body) == 0 {
						return nil
					}
					r, _ := cc.Body[len(cc.Body)-1].(*ast.ReturnStmt)
					return r
				}()
				if cc.Comm == nil {
					if last != nil && len(last.Results) == 1 {
						if id, ok := last.Results[0].(*ast.Ident); !ok || id.Name != "nil" {
							defOK = true
						}
					}
					continue
				}
				if snd, ok := cc.Comm.(*ast.SendStmt); ok && sfSelIs(snd.Chan, "ctl", "workConnCh") {
					if last != nil && len(last.Results) == 1 {
						if id, ok := last.Results[0].(*ast.Ident); ok && id.Name == "nil" {
							sendOK = true
						}
					}
				}
			}
			if sendOK && defOK && len(s.Body.List) == 2 && sends == 1 {
				regSend = "select-default"
			}
		case *ast.SendStmt:
			if sfSelIs(s.Chan, "ctl", "workConnCh") && sends == 1 {
				regSend = "send"
			}
		}
	}
	regLocks := pfMentions(reg.Body, "mu")

	// server/service.go: the caller closes on error
	ss, err := parser.ParseFile(fset, filepath.Join(repo, "server", "service.go"), nil, 0)
	if err != nil {
		return err
	}
	closesOnErr := false
	if hc := sfMethod(ss, "Service", "handleConnection"); hc != nil {
		ast.Inspect(hc.Body, func(n ast.Node) bool {
			is, ok := n.(*ast.IfStmt)
			if !ok || is.Init == nil || is.Else != nil {
				return true
			}
			as, ok := is.Init.(*ast.AssignStmt)
			if !ok || len(as.Rhs) != 1 || len(as.Lhs) != 1 {
				return true
			}
			c, ok := as.Rhs[0].(*ast.CallExpr)
			if !ok || !sfSelIs(c.Fun, "svr", "RegisterWorkConn") || len(c.Args) < 1 {
				return true
			}
			connName, ok := c.Args[0].(*ast.Ident)
			if !ok {
				return true
			}
			be, ok := is.Cond.(*ast.BinaryExpr)
			if !ok || be.Op != token.NEQ {
				return true
			}
			for _, st := range is.Body.List {
				if pfIsCloseOf(st, connName.Name) {
					closesOnErr = true
				}
			}
			return true
		})
	} else {
		return fail("server/service.go: (*Service).handleConnection not found")
	}
	tail := false
	if rw := sfMethod(ss, "Service", "RegisterWorkConn"); rw != nil && len(rw.Body.List) > 0 {
		if r, ok := rw.Body.List[len(rw.Body.List)-1].(*ast.ReturnStmt); ok && len(r.Results) == 1 {
			if c, ok := r.Results[0].(*ast.CallExpr); ok && sfSelIs(c.Fun, "ctl", "RegisterWorkConn") {
				tail = true
			}
		}
	} else {
		return fail("server/service.go: (*Service).RegisterWorkConn not found")
	}

	b := &strings.Builder{}
	b.WriteString("/- GENERATED by translate/gen_poolfacts.go from the frp source tree. Do not edit. -/\n")
	b.WriteString("namespace Frp.Gen.PoolFacts\n\n")
	fmt.Fprintf(b, "def workerPool : List String := %s\n", sfQuoteList(steps))
	fmt.Fprintf(b, "def registerSend : String := \"%s\"\n", regSend)
	fmt.Fprintf(b, "def registerRecoverErr : Bool := %s\n", sfBool(regRecover))
	fmt.Fprintf(b, "def registerLocks : Bool := %s\n", sfBool(regLocks))
	fmt.Fprintf(b, "def serviceClosesOnErr : Bool := %s\n", sfBool(closesOnErr && tail))
	b.WriteString("\nend Frp.Gen.PoolFacts\n")
	return os.WriteFile(filepath.Join(out, "PoolFacts.lean"), []byte(b.String()), 0o644)
}
