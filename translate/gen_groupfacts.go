package main

// Generator GroupFacts (C13): the CRITICAL SECTIONS of the three load-balancing group controllers, read from
// server/group/{tcp,http,tcpmux}.go with go/ast and written to lean/Frp/Gen/GroupFacts.lean.
//
// For each controller the JOIN entry (TCPGroupCtl.Listen / HTTPGroupController.Register / TCPMuxGroupCtl.Listen) and
// the LEAVE entry (TCPGroup.CloseListener / HTTPGroupController.UnRegister / TCPMuxGroup.CloseListener) are walked in
// statement order, calls to functions and methods of package group being inlined (depth <= 4), and every step that
// matters for the model (Frp/Model/Group.lean) is written down together with the locks held at that moment:
//
//	lock ctl|grp, unlock ctl|grp   <x>.mu.Lock() / RLock() / Unlock() / RUnlock(); `defer <x>.mu.Unlock()` keeps the lock
//	                               to the end of the function that deferred it (an "unlock" event is emitted there)
//	tableRead / tableWrite / tableDelete    ctl.groups[k] read, assigned, delete(ctl.groups, k)
//	edit            the member list of a group changes (lns, pxyNames, createFuncs)
//	closeCh         close(<grp>.acceptCh)
//	closeLn         <grp>.tcpLn.Close() / tcpMuxLn.Close() / vhostRouter.Del(..)
//	release:<f>     portManager.Release(<grp>.<f>)
//	gate:<point>    verifhook.At("<point>", ..)
//
// ctl = the controller's mutex (field `mu` of TCPGroupCtl / HTTPGroupController / TCPMuxGroupCtl), grp = the group
// object's (field `mu` of TCPGroup / HTTPGroup / TCPMuxGroup); the type of the expression before `.mu` is resolved
// from the receiver, the parameters, the struct fields of package group and `x := ctl.groups[k]` / `x := NewXGroup(..)`.
//
// Flow rules: a branch that ends in `return` does not flow out; after another branch the held set is the
// intersection; the events of all branches are kept, in source order.
//
// What the facts MEAN is decided in Lean (Frp/Model/GroupSections.lean: oneSection, orderOk, …) and stated as
// obligations in Frp/Props/C13.lean.  A changed shape is not a failure of the translator; a missing entry
// function or a `.mu` whose owner cannot be typed is ("BROKEN TIE").

import (
	"fmt"
	"go/ast"
	"go/parser"
	"go/token"
	"os"
	"path/filepath"
	"strconv"
	"strings"
)

func init() { generators["GroupFacts"] = genGroupFacts }

type gfEvent struct {
	kind     string
	ctl, grp bool
	fn       string
	line     int
}

type gfWorld struct {
	fset    *token.FileSet
	funcs   map[string]*ast.FuncDecl       // [Recv.]Name
	structs map[string]map[string]ast.Expr // struct -> field -> type expr
	ctlT    map[string]bool
	grpT    map[string]bool
}

func gfTypeName(e ast.Expr) string {
	switch x := e.(type) {
	case *ast.StarExpr:
		return gfTypeName(x.X)
	case *ast.Ident:
		return x.Name
	case *ast.MapType:
		return "map:" + gfTypeName(x.Value)
	case *ast.ArrayType:
		return "slice:" + gfTypeName(x.Elt)
	case *ast.SelectorExpr:
		if id, ok := x.X.(*ast.Ident); ok {
			return id.Name + "." + x.Sel.Name
		}
	}
	return ""
}

type gfFrame struct {
	w        *gfWorld
	name     string
	env      map[string]string // ident -> type name
	ctl, grp *bool             // shared lock state
	deferred []string          // roles to unlock at the end of this frame
	out      *[]gfEvent
	depth    int
}

func (f *gfFrame) typeOf(e ast.Expr) string {
	switch x := e.(type) {
	case *ast.Ident:
		return f.env[x.Name]
	case *ast.ParenExpr:
		return f.typeOf(x.X)
	case *ast.StarExpr:
		return f.typeOf(x.X)
	case *ast.UnaryExpr:
		return f.typeOf(x.X)
	case *ast.SelectorExpr:
		if t := f.typeOf(x.X); t != "" {
			if fs, ok := f.w.structs[t]; ok {
				if ft, ok := fs[x.Sel.Name]; ok {
					return gfTypeName(ft)
				}
			}
		}
	case *ast.IndexExpr:
		t := f.typeOf(x.X)
		if strings.HasPrefix(t, "map:") {
			return t[4:]
		}
		if strings.HasPrefix(t, "slice:") {
			return t[6:]
		}
	case *ast.CallExpr:
		if fd := f.callee(x); fd != nil && fd.Type.Results != nil && len(fd.Type.Results.List) > 0 {
			return gfTypeName(fd.Type.Results.List[0].Type)
		}
	}
	return ""
}

func (f *gfFrame) callee(c *ast.CallExpr) *ast.FuncDecl {
	switch fn := c.Fun.(type) {
	case *ast.Ident:
		return f.w.funcs[fn.Name]
	case *ast.SelectorExpr:
		if t := f.typeOf(fn.X); t != "" {
			return f.w.funcs[t+"."+fn.Sel.Name]
		}
	}
	return nil
}

func (f *gfFrame) emit(kind string, pos token.Pos) {
	*f.out = append(*f.out, gfEvent{kind: kind, ctl: *f.ctl, grp: *f.grp, fn: f.name, line: f.w.fset.Position(pos).Line})
}

func (f *gfFrame) role(owner ast.Expr) (string, error) {
	t := f.typeOf(owner)
	switch {
	case f.w.ctlT[t]:
		return "ctl", nil
	case f.w.grpT[t]:
		return "grp", nil
	}
	return "", fail("%s line %d: cannot type the owner of a `.mu` (%q)", f.name, f.w.fset.Position(owner.Pos()).Line, t)
}

func (f *gfFrame) set(role string, v bool) {
	if role == "ctl" {
		*f.ctl = v
	} else {
		*f.grp = v
	}
}

// lockCall: <owner>.mu.<Lock|RLock|Unlock|RUnlock>()
func gfLockCall(c *ast.CallExpr) (owner ast.Expr, op string, ok bool) {
	s, ok1 := c.Fun.(*ast.SelectorExpr)
	if !ok1 {
		return nil, "", false
	}
	switch s.Sel.Name {
	case "Lock", "RLock", "Unlock", "RUnlock":
	default:
		return nil, "", false
	}
	m, ok2 := s.X.(*ast.SelectorExpr)
	if !ok2 || m.Sel.Name != "mu" {
		return nil, "", false
	}
	return m.X, s.Sel.Name, true
}

func gfIsGroups(e ast.Expr) bool {
	ix, ok := e.(*ast.IndexExpr)
	if !ok {
		return false
	}
	s, ok := ix.X.(*ast.SelectorExpr)
	return ok && s.Sel.Name == "groups"
}

var gfMemberFields = map[string]bool{"lns": true, "pxyNames": true, "createFuncs": true}

func gfMemberTarget(e ast.Expr) bool {
	switch x := e.(type) {
	case *ast.SelectorExpr:
		return gfMemberFields[x.Sel.Name]
	case *ast.IndexExpr:
		return gfMemberTarget(x.X)
	}
	return false
}

func (f *gfFrame) expr(e ast.Expr) error {
	var err error
	ast.Inspect(e, func(n ast.Node) bool {
		if err != nil || n == nil {
			return false
		}
		switch x := n.(type) {
		case *ast.FuncLit:
			return false // closures are not run here
		case *ast.IndexExpr:
			if gfIsGroups(x) {
				f.emit("tableRead", x.Pos())
			}
		case *ast.CallExpr:
			if e2 := f.call(x); e2 != nil {
				err = e2
			}
			return false
		}
		return true
	})
	return err
}

func (f *gfFrame) call(c *ast.CallExpr) error {
	for _, a := range c.Args {
		if err := f.expr(a); err != nil {
			return err
		}
	}
	if owner, op, ok := gfLockCall(c); ok {
		r, err := f.role(owner)
		if err != nil {
			return err
		}
		if op == "Lock" || op == "RLock" {
			f.emit("lock "+r, c.Pos())
			f.set(r, true)
		} else {
			f.set(r, false)
			f.emit("unlock "+r, c.Pos())
		}
		return nil
	}
	if id, ok := c.Fun.(*ast.Ident); ok {
		switch id.Name {
		case "delete":
			if len(c.Args) > 0 {
				if s, ok := c.Args[0].(*ast.SelectorExpr); ok {
					if s.Sel.Name == "groups" {
						f.emit("tableDelete", c.Pos())
					} else if gfMemberFields[s.Sel.Name] {
						f.emit("edit", c.Pos())
					}
				}
			}
			return nil
		case "close":
			if len(c.Args) == 1 {
				if s, ok := c.Args[0].(*ast.SelectorExpr); ok && s.Sel.Name == "acceptCh" {
					f.emit("closeCh", c.Pos())
				}
			}
			return nil
		}
	}
	if s, ok := c.Fun.(*ast.SelectorExpr); ok {
		if x, ok := s.X.(*ast.Ident); ok && x.Name == "verifhook" && s.Sel.Name == "At" && len(c.Args) > 0 {
			if bl, ok := c.Args[0].(*ast.BasicLit); ok {
				p, _ := strconv.Unquote(bl.Value)
				f.emit("gate:"+p, c.Pos())
			}
			return nil
		}
		if in, ok := s.X.(*ast.SelectorExpr); ok {
			switch {
			case s.Sel.Name == "Close" && (in.Sel.Name == "tcpLn" || in.Sel.Name == "tcpMuxLn"):
				f.emit("closeLn", c.Pos())
				return nil
			case s.Sel.Name == "Del" && in.Sel.Name == "vhostRouter":
				f.emit("closeLn", c.Pos())
				return nil
			case s.Sel.Name == "Release" && in.Sel.Name == "portManager":
				arg := "?"
				if len(c.Args) == 1 {
					if a, ok := c.Args[0].(*ast.SelectorExpr); ok {
						arg = a.Sel.Name
					} else if a, ok := c.Args[0].(*ast.Ident); ok {
						arg = a.Name
					}
				}
				f.emit("release:"+arg, c.Pos())
				return nil
			}
		}
		if err := f.expr(s.X); err != nil {
			return err
		}
	}
	if fd := f.callee(c); fd != nil && fd.Body != nil && f.depth < 4 {
		return f.inline(fd)
	}
	return nil
}

func gfFuncName(fd *ast.FuncDecl) string {
	if fd.Recv != nil && len(fd.Recv.List) == 1 {
		return gfTypeName(fd.Recv.List[0].Type) + "." + fd.Name.Name
	}
	return fd.Name.Name
}

func (f *gfFrame) inline(fd *ast.FuncDecl) error {
	g := &gfFrame{w: f.w, name: gfFuncName(fd), env: map[string]string{}, ctl: f.ctl, grp: f.grp, out: f.out, depth: f.depth + 1}
	if fd.Recv != nil && len(fd.Recv.List) == 1 && len(fd.Recv.List[0].Names) == 1 {
		g.env[fd.Recv.List[0].Names[0].Name] = gfTypeName(fd.Recv.List[0].Type)
	}
	for _, p := range fd.Type.Params.List {
		for _, n := range p.Names {
			g.env[n.Name] = gfTypeName(p.Type)
		}
	}
	if fd.Type.Results != nil {
		for _, p := range fd.Type.Results.List {
			for _, n := range p.Names {
				g.env[n.Name] = gfTypeName(p.Type)
			}
		}
	}
	if _, err := g.block(fd.Body.List); err != nil {
		return err
	}
	for i := len(g.deferred) - 1; i >= 0; i-- {
		g.set(g.deferred[i], false)
		g.emit("unlock "+g.deferred[i], fd.Body.Rbrace)
	}
	return nil
}

// block returns true if the statement list ends in a return
func (f *gfFrame) block(stmts []ast.Stmt) (bool, error) {
	for _, st := range stmts {
		term, err := f.stmt(st)
		if err != nil {
			return false, err
		}
		if term {
			return true, nil
		}
	}
	return false, nil
}

func (f *gfFrame) stmt(st ast.Stmt) (bool, error) {
	switch x := st.(type) {
	case *ast.ExprStmt:
		return false, f.expr(x.X)
	case *ast.AssignStmt:
		for _, r := range x.Rhs {
			if err := f.expr(r); err != nil {
				return false, err
			}
		}
		for i, l := range x.Lhs {
			switch {
			case gfIsGroups(l):
				f.emit("tableWrite", l.Pos())
			case gfMemberTarget(l):
				f.emit("edit", l.Pos())
			}
			if id, ok := l.(*ast.Ident); ok && id.Name != "_" {
				var t string
				if len(x.Lhs) == len(x.Rhs) {
					t = f.typeOf(x.Rhs[i])
				} else if i == 0 && len(x.Rhs) == 1 {
					t = f.typeOf(x.Rhs[0])
				}
				if t != "" {
					f.env[id.Name] = t
				}
			}
		}
		return false, nil
	case *ast.DeferStmt:
		if owner, op, ok := gfLockCall(x.Call); ok && (op == "Unlock" || op == "RUnlock") {
			r, err := f.role(owner)
			if err != nil {
				return false, err
			}
			f.deferred = append(f.deferred, r)
			return false, nil
		}
		return false, nil
	case *ast.ReturnStmt:
		for _, r := range x.Results {
			if err := f.expr(r); err != nil {
				return false, err
			}
		}
		return true, nil
	case *ast.IfStmt:
		if x.Init != nil {
			if _, err := f.stmt(x.Init); err != nil {
				return false, err
			}
		}
		if err := f.expr(x.Cond); err != nil {
			return false, err
		}
		c0, g0 := *f.ctl, *f.grp
		t1, err := f.block(x.Body.List)
		if err != nil {
			return false, err
		}
		c1, g1 := *f.ctl, *f.grp
		*f.ctl, *f.grp = c0, g0
		t2 := false
		if x.Else != nil {
			switch e := x.Else.(type) {
			case *ast.BlockStmt:
				t2, err = f.block(e.List)
			default:
				t2, err = f.stmt(e)
			}
			if err != nil {
				return false, err
			}
		}
		c2, g2 := *f.ctl, *f.grp
		switch {
		case t1 && t2:
			return true, nil
		case t1:
			*f.ctl, *f.grp = c2, g2
		case t2:
			*f.ctl, *f.grp = c1, g1
		default:
			*f.ctl, *f.grp = c1 && c2, g1 && g2
		}
		return false, nil
	case *ast.BlockStmt:
		return f.block(x.List)
	case *ast.ForStmt:
		if x.Init != nil {
			if _, err := f.stmt(x.Init); err != nil {
				return false, err
			}
		}
		if x.Cond != nil {
			if err := f.expr(x.Cond); err != nil {
				return false, err
			}
		}
		_, err := f.block(x.Body.List)
		return false, err
	case *ast.RangeStmt:
		if err := f.expr(x.X); err != nil {
			return false, err
		}
		if id, ok := x.Value.(*ast.Ident); ok {
			if t := f.typeOf(x.X); strings.HasPrefix(t, "slice:") {
				f.env[id.Name] = t[6:]
			}
		}
		_, err := f.block(x.Body.List)
		return false, err
	case *ast.SwitchStmt:
		if x.Init != nil {
			if _, err := f.stmt(x.Init); err != nil {
				return false, err
			}
		}
		if x.Tag != nil {
			if err := f.expr(x.Tag); err != nil {
				return false, err
			}
		}
		c0, g0 := *f.ctl, *f.grp
		allTerm, hasDefault := true, false
		cc, gg := true, true
		for _, cl := range x.Body.List {
			cs := cl.(*ast.CaseClause)
			if cs.List == nil {
				hasDefault = true
			}
			*f.ctl, *f.grp = c0, g0
			t, err := f.block(cs.Body)
			if err != nil {
				return false, err
			}
			if !t {
				allTerm = false
				cc, gg = cc && *f.ctl, gg && *f.grp
			}
		}
		if allTerm && hasDefault {
			return true, nil
		}
		if !hasDefault {
			cc, gg = cc && c0, gg && g0
		}
		*f.ctl, *f.grp = cc, gg
		return false, nil
	case *ast.GoStmt:
		return false, nil // `go tg.worker()`: another goroutine
	case *ast.DeclStmt, *ast.IncDecStmt, *ast.BranchStmt, *ast.EmptyStmt:
		return false, nil
	}
	return false, fail("%s line %d: statement shape %T not handled", f.name, f.w.fset.Position(st.Pos()).Line, st)
}

func genGroupFacts(repo, out string) error {
	w := &gfWorld{fset: token.NewFileSet(), funcs: map[string]*ast.FuncDecl{}, structs: map[string]map[string]ast.Expr{},
		ctlT: map[string]bool{"TCPGroupCtl": true, "HTTPGroupController": true, "TCPMuxGroupCtl": true},
		grpT: map[string]bool{"TCPGroup": true, "HTTPGroup": true, "TCPMuxGroup": true}}
	dir := filepath.Join(repo, "server", "group")
	for _, n := range []string{"tcp.go", "http.go", "tcpmux.go"} {
		file, err := parser.ParseFile(w.fset, filepath.Join(dir, n), nil, 0)
		if err != nil {
			return err
		}
		for _, d := range file.Decls {
			switch x := d.(type) {
			case *ast.FuncDecl:
				w.funcs[gfFuncName(x)] = x
			case *ast.GenDecl:
				for _, sp := range x.Specs {
					if ts, ok := sp.(*ast.TypeSpec); ok {
						if st, ok := ts.Type.(*ast.StructType); ok {
							fs := map[string]ast.Expr{}
							for _, fl := range st.Fields.List {
								for _, nm := range fl.Names {
									fs[nm.Name] = fl.Type
								}
							}
							w.structs[ts.Name.Name] = fs
						}
					}
				}
			}
		}
	}
	entries := []struct{ lean, fn string }{
		{"tcpJoin", "TCPGroupCtl.Listen"}, {"tcpLeave", "TCPGroup.CloseListener"},
		{"httpJoin", "HTTPGroupController.Register"}, {"httpLeave", "HTTPGroupController.UnRegister"},
		{"muxJoin", "TCPMuxGroupCtl.Listen"}, {"muxLeave", "TCPMuxGroup.CloseListener"},
	}
	var b strings.Builder
	b.WriteString("/- GENERATED by translate/gen_groupfacts.go from server/group/{tcp,http,tcpmux}.go. Do not edit. -/\n")
	b.WriteString("import Frp.Model.GroupSections\nnamespace Frp.Gen.GroupFacts\nopen Frp.GroupSections\n")
	for _, e := range entries {
		fd := w.funcs[e.fn]
		if fd == nil || fd.Body == nil {
			return fail("server/group: function %s not found", e.fn)
		}
		var evs []gfEvent
		ctl, grp := false, false
		root := &gfFrame{w: w, name: "<entry>", env: map[string]string{}, ctl: &ctl, grp: &grp, out: &evs}
		if err := root.inline(fd); err != nil {
			return err
		}
		fmt.Fprintf(&b, "\n/-- %s -/\ndef %s : List Ev :=\n  [", e.fn, e.lean)
		for i, ev := range evs {
			if i > 0 {
				b.WriteString(",\n   ")
			}
			fmt.Fprintf(&b, "⟨%q, %v, %v, %q, %d⟩", ev.kind, ev.ctl, ev.grp, ev.fn, ev.line)
		}
		b.WriteString("]\n")
	}
	b.WriteString("\nend Frp.Gen.GroupFacts\n")
	return os.WriteFile(filepath.Join(out, "GroupFacts.lean"), []byte(b.String()), 0o644)
}
