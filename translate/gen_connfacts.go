package main

// Generator ConnFacts (C01): three small shapes of connection handling code, read with go/ast and written to
// lean/Frp/Gen/ConnFacts.lean.  The Lean models (Frp/Model/Deadline.lean, QuicStream.lean, CodecPool.lean) are
// written by hand; these facts tie the programs they run to the source.
//
//	muxerHandleDeadlines   pkg/util/vhost/vhost.go (*Muxer).handle: every Set{,Read,Write}Deadline call in source order as
//	                       (receiver, method, argument source text, block depth); depth 0 = a statement of the function
//	                       body itself (or the init / condition of one), i.e. on the straight-line path to the hand-off
//	muxerHandleHandOff     the channel-send statement(s) of handle (source text) — the hand-off to the proxy's listener
//	quicCloseCalls         pkg/util/net/conn.go (*wrapQuicStream).Close: every method call whose receiver chain starts at
//	                       the method's receiver, in source order, as (method path, later) — later = lexically inside a
//	                       function literal or a go statement (runs at some other time than Close itself)
//	quicCloseOther         all other calls in that body (callee source text), e.g. time.AfterFunc
//	poolRecycleMax         for every function that binds the second result of libio.WithCompressionFromPool to a variable:
//	                       ("<file>:<func>", max number of times that variable is invoked on any path through the function)
//	                       — `defer v()` counts once for every path through it, a call inside a loop counts twice
//
// Fails ("BROKEN TIE") when an anchor function is missing.  A changed shape is NOT a translator failure: the facts are
// written as found and the Lean obligations C01.handle_code_clears / quic_close_code / pool_recycle_once_code decide.

import (
	"bytes"
	"fmt"
	"go/ast"
	"go/parser"
	"go/printer"
	"go/token"
	"os"
	"path/filepath"
	"sort"
	"strconv"
	"strings"
)

func init() { generators["ConnFacts"] = genConnFacts }

func cfSrc(fset *token.FileSet, n ast.Node) string {
	var b bytes.Buffer
	_ = printer.Fprint(&b, fset, n)
	return strings.Join(strings.Fields(b.String()), " ")
}

func cfMethod(f *ast.File, recvType, name string) *ast.FuncDecl {
	for _, d := range f.Decls {
		fd, ok := d.(*ast.FuncDecl)
		if !ok || fd.Name.Name != name || fd.Recv == nil || len(fd.Recv.List) != 1 {
			continue
		}
		t := fd.Recv.List[0].Type
		if s, ok := t.(*ast.StarExpr); ok {
			t = s.X
		}
		if id, ok := t.(*ast.Ident); ok && id.Name == recvType {
			return fd
		}
	}
	return nil
}

// root identifier and dotted path of a selector chain: conn.Stream.Close -> ("conn", "Stream.Close")
func cfChain(e ast.Expr) (string, string) {
	var parts []string
	for {
		switch x := e.(type) {
		case *ast.SelectorExpr:
			parts = append([]string{x.Sel.Name}, parts...)
			e = x.X
			continue
		case *ast.Ident:
			return x.Name, strings.Join(parts, ".")
		}
		return "", ""
	}
}

// ---- deadlines in Muxer.handle

type cfDl struct {
	recv, method, arg string
	depth             int
}

func cfDeadlines(fset *token.FileSet, fd *ast.FuncDecl) (dls []cfDl, sends []string) {
	var walk func(n ast.Node, depth int)
	walk = func(n ast.Node, depth int) {
		ast.Inspect(n, func(x ast.Node) bool {
			switch v := x.(type) {
			case *ast.BlockStmt:
				if v == fd.Body {
					return true
				}
				for _, s := range v.List {
					walk(s, depth+1)
				}
				return false
			case *ast.CaseClause:
				for _, s := range v.Body {
					walk(s, depth+1)
				}
				return false
			case *ast.CommClause:
				for _, s := range v.Body {
					walk(s, depth+1)
				}
				return false
			case *ast.FuncLit:
				// the hand-off sits in a closure handed to PanicToError: same path, not a deeper branch
				for _, s := range v.Body.List {
					walk(s, depth)
				}
				return false
			case *ast.SendStmt:
				sends = append(sends, cfSrc(fset, v))
			case *ast.CallExpr:
				if sel, ok := v.Fun.(*ast.SelectorExpr); ok {
					switch sel.Sel.Name {
					case "SetDeadline", "SetReadDeadline", "SetWriteDeadline":
						arg := ""
						if len(v.Args) == 1 {
							arg = cfSrc(fset, v.Args[0])
						}
						dls = append(dls, cfDl{cfSrc(fset, sel.X), sel.Sel.Name, arg, depth})
					}
				}
			}
			return true
		})
	}
	walk(fd.Body, 0)
	return
}

// ---- calls in wrapQuicStream.Close

func cfRecvCalls(fset *token.FileSet, fd *ast.FuncDecl) (own [][2]string, other []string) {
	recv := ""
	if len(fd.Recv.List[0].Names) == 1 {
		recv = fd.Recv.List[0].Names[0].Name
	}
	var walk func(n ast.Node, later bool)
	walk = func(n ast.Node, later bool) {
		ast.Inspect(n, func(x ast.Node) bool {
			switch v := x.(type) {
			case *ast.FuncLit:
				walk(v.Body, true)
				return false
			case *ast.GoStmt:
				walk(v.Call, true)
				return false
			case *ast.CallExpr:
				root, path := cfChain(v.Fun)
				if root != "" && root == recv && path != "" {
					own = append(own, [2]string{path, strconv.FormatBool(later)})
				} else {
					other = append(other, cfSrc(fset, v.Fun))
				}
			}
			return true
		})
	}
	walk(fd.Body, false)
	return
}

// ---- how often a recycle function can run on one path

// invocations of v in an expression / simple statement (not descending into closures: a closure that calls v is
// counted where it is deferred or called, which this analysis does not follow — it is reported as 2 = "unknown")
func cfCountIn(n ast.Node, v string) int {
	c := 0
	ast.Inspect(n, func(x ast.Node) bool {
		switch e := x.(type) {
		case *ast.FuncLit:
			inner := 0
			ast.Inspect(e.Body, func(y ast.Node) bool {
				if ce, ok := y.(*ast.CallExpr); ok {
					if id, ok := ce.Fun.(*ast.Ident); ok && id.Name == v {
						inner++
					}
				}
				return true
			})
			if inner > 0 {
				c += 2
			}
			return false
		case *ast.CallExpr:
			if id, ok := e.Fun.(*ast.Ident); ok && id.Name == v {
				c++
			}
		}
		return true
	})
	return c
}

func cfMax(a, b int) int {
	if a > b {
		return a
	}
	return b
}

// paths through a statement list that starts with `n` invocations behind it:
// done = most invocations on a path that leaves the function inside the list (-1: none does),
// fall = most invocations on a path that runs off the end of the list (-1: none does)
func cfPaths(list []ast.Stmt, v string, n int) (done, fall int) {
	done = -1
	for _, s := range list {
		if n < 0 {
			break
		}
		switch st := s.(type) {
		case *ast.ReturnStmt:
			n += cfCountIn(st, v)
			return cfMax(done, n), -1
		case *ast.DeferStmt, *ast.GoStmt:
			n += cfCountIn(st, v)
		case *ast.BlockStmt:
			d, f := cfPaths(st.List, v, n)
			done, n = cfMax(done, d), f
		case *ast.IfStmt:
			if st.Init != nil {
				n += cfCountIn(st.Init, v)
			}
			n += cfCountIn(st.Cond, v)
			d1, f1 := cfPaths(st.Body.List, v, n)
			d2, f2 := -1, n
			if st.Else != nil {
				d2, f2 = cfPaths([]ast.Stmt{st.Else}, v, n)
			}
			done = cfMax(done, cfMax(d1, d2))
			n = cfMax(f1, f2)
		case *ast.ForStmt, *ast.RangeStmt:
			if cfCountIn(st, v) > 0 {
				n += 2
			}
		case *ast.SwitchStmt, *ast.TypeSwitchStmt, *ast.SelectStmt:
			var body *ast.BlockStmt
			switch w := st.(type) {
			case *ast.SwitchStmt:
				body = w.Body
			case *ast.TypeSwitchStmt:
				body = w.Body
			case *ast.SelectStmt:
				body = w.Body
			}
			best := n
			for _, cl := range body.List {
				var b []ast.Stmt
				switch c := cl.(type) {
				case *ast.CaseClause:
					b = c.Body
				case *ast.CommClause:
					b = c.Body
				}
				d, f := cfPaths(b, v, n)
				done = cfMax(done, d)
				best = cfMax(best, f)
			}
			n = best
		default:
			n += cfCountIn(s, v)
		}
	}
	return done, n
}

func cfPoolFuncs(fset *token.FileSet, repo string) ([][2]string, error) {
	var out [][2]string
	for _, top := range []string{"client", "server", "pkg"} {
		err := filepath.Walk(filepath.Join(repo, top), func(p string, info os.FileInfo, err error) error {
			if err != nil {
				return err
			}
			n := info.Name()
			if info.IsDir() || !strings.HasSuffix(n, ".go") || strings.HasSuffix(n, "_test.go") || strings.HasPrefix(n, "verif_") {
				return nil
			}
			src, err := os.ReadFile(p)
			if err != nil {
				return err
			}
			if !bytes.Contains(src, []byte("WithCompressionFromPool")) {
				return nil
			}
			f, err := parser.ParseFile(fset, p, src, 0)
			if err != nil {
				return err
			}
			rel, _ := filepath.Rel(repo, p)
			for _, d := range f.Decls {
				fd, ok := d.(*ast.FuncDecl)
				if !ok || fd.Body == nil {
					continue
				}
				vars := map[string]bool{}
				ast.Inspect(fd.Body, func(x ast.Node) bool {
					as, ok := x.(*ast.AssignStmt)
					if !ok || len(as.Rhs) != 1 || len(as.Lhs) != 2 {
						return true
					}
					ce, ok := as.Rhs[0].(*ast.CallExpr)
					if !ok {
						return true
					}
					if sel, ok := ce.Fun.(*ast.SelectorExpr); ok && sel.Sel.Name == "WithCompressionFromPool" {
						if id, ok := as.Lhs[1].(*ast.Ident); ok && id.Name != "_" {
							vars[id.Name] = true
						} else {
							vars["<"+cfSrc(fset, as.Lhs[1])+">"] = true
						}
					}
					return true
				})
				var names []string
				for v := range vars {
					names = append(names, v)
				}
				sort.Strings(names)
				for _, v := range names {
					d, fl := cfPaths(fd.Body.List, v, 0)
					out = append(out, [2]string{fmt.Sprintf("%s:%s:%s", filepath.ToSlash(rel), fd.Name.Name, v), strconv.Itoa(cfMax(d, fl))})
				}
			}
			return nil
		})
		if err != nil {
			return nil, err
		}
	}
	sort.Slice(out, func(i, j int) bool { return out[i][0] < out[j][0] })
	return out, nil
}


// ---- limit.Reader.Read: is every return after the read below dominated by a WaitN call?

func cfHasCall(n ast.Node, method string) bool {
	found := false
	ast.Inspect(n, func(x ast.Node) bool {
		if c, ok := x.(*ast.CallExpr); ok {
			if sel, ok := c.Fun.(*ast.SelectorExpr); ok && sel.Sel.Name == method {
				found = true
			}
		}
		return !found
	})
	return found
}

// a statement list certainly runs WaitN: one of its top-level statements (or the init of a top-level `if`) calls it
func cfRunsWaitN(list []ast.Stmt) bool {
	for _, st := range list {
		switch t := st.(type) {
		case *ast.AssignStmt, *ast.ExprStmt:
			if cfHasCall(t, "WaitN") {
				return true
			}
		case *ast.IfStmt:
			if t.Init != nil && cfHasCall(t.Init, "WaitN") {
				return true
			}
		}
	}
	return false
}

// walks a statement list in source order; seen = the read below has happened, charged = WaitN has certainly run on
// this path (a block guarded by `n > 0` that runs WaitN counts: it runs whenever there are bytes to charge).
// Every return statement after the read is reported with `charged`.
func cfReaderReturns(fset *token.FileSet, list []ast.Stmt, seen, charged bool, out *[][2]string) (bool, bool) {
	for _, st := range list {
		switch t := st.(type) {
		case *ast.ReturnStmt:
			if seen {
				*out = append(*out, [2]string{strconv.Itoa(fset.Position(t.Pos()).Line), strconv.FormatBool(charged)})
			}
		case *ast.IfStmt:
			c := charged
			if t.Init != nil && cfHasCall(t.Init, "WaitN") {
				c, charged = true, true
			}
			cfReaderReturns(fset, t.Body.List, seen, c, out)
			if els, ok := t.Else.(*ast.BlockStmt); ok {
				cfReaderReturns(fset, els.List, seen, c, out)
			}
			if cfSrc(fset, t.Cond) == "n > 0" && t.Else == nil && cfRunsWaitN(t.Body.List) {
				charged = true
			}
		case *ast.BlockStmt:
			seen, charged = cfReaderReturns(fset, t.List, seen, charged, out)
		default:
			if cfHasCall(st, "WaitN") {
				charged = true
			}
			if as, ok := st.(*ast.AssignStmt); ok && cfHasCall(as, "Read") && !cfHasCall(as, "WaitN") {
				seen = true
			}
		}
	}
	return seen, charged
}

func genConnFacts(repo, out string) error {
	fset := token.NewFileSet()
	vf, err := parser.ParseFile(fset, filepath.Join(repo, "pkg", "util", "vhost", "vhost.go"), nil, 0)
	if err != nil {
		return err
	}
	handle := cfMethod(vf, "Muxer", "handle")
	if handle == nil || handle.Body == nil {
		return fail("pkg/util/vhost/vhost.go: (*Muxer).handle not found")
	}
	dls, sends := cfDeadlines(fset, handle)
	cf, err := parser.ParseFile(fset, filepath.Join(repo, "pkg", "util", "net", "conn.go"), nil, 0)
	if err != nil {
		return err
	}
	qclose := cfMethod(cf, "wrapQuicStream", "Close")
	if qclose == nil || qclose.Body == nil {
		return fail("pkg/util/net/conn.go: (*wrapQuicStream).Close not found")
	}
	own, other := cfRecvCalls(fset, qclose)
	pool, err := cfPoolFuncs(fset, repo)
	if err != nil {
		return err
	}
	if len(pool) == 0 {
		return fail("no function binds the recycle function of libio.WithCompressionFromPool")
	}

	rf, err := parser.ParseFile(fset, filepath.Join(repo, "pkg", "util", "limit", "reader.go"), nil, 0)
	if err != nil {
		return err
	}
	rread := cfMethod(rf, "Reader", "Read")
	if rread == nil || rread.Body == nil {
		return fail("pkg/util/limit/reader.go: (*Reader).Read not found")
	}
	var rets [][2]string
	if seen, _ := cfReaderReturns(fset, rread.Body.List, false, false, &rets); !seen {
		return fail("pkg/util/limit/reader.go: (*Reader).Read does not read from the reader below")
	}

	q := strconv.Quote
	var w bytes.Buffer
	w.WriteString("/- GENERATED by translate/gen_connfacts.go from pkg/util/vhost/vhost.go (Muxer.handle), pkg/util/net/conn.go\n" +
		"   (wrapQuicStream.Close), pkg/util/limit/reader.go (Reader.Read) and every caller of libio.WithCompressionFromPool. Do not edit. -/\n")
	w.WriteString("namespace Frp.Gen.ConnFacts\n\n")
	w.WriteString("/-- (receiver, method, argument, block depth) of every deadline call in (*Muxer).handle, source order -/\n")
	w.WriteString("def muxerHandleDeadlines : List (String × String × String × Nat) :=\n  [")
	for i, d := range dls {
		if i > 0 {
			w.WriteString(", ")
		}
		fmt.Fprintf(&w, "(%s, %s, %s, %d)", q(d.recv), q(d.method), q(d.arg), d.depth)
	}
	w.WriteString("]\n")
	w.WriteString("def muxerHandleHandOff : List String := [")
	for i, s := range sends {
		if i > 0 {
			w.WriteString(", ")
		}
		w.WriteString(q(s))
	}
	w.WriteString("]\n\n")
	w.WriteString("/-- (method path below the receiver, runs later than Close itself) in (*wrapQuicStream).Close, source order -/\n")
	w.WriteString("def quicCloseCalls : List (String × Bool) :=\n  [")
	for i, c := range own {
		if i > 0 {
			w.WriteString(", ")
		}
		fmt.Fprintf(&w, "(%s, %s)", q(c[0]), c[1])
	}
	w.WriteString("]\n")
	w.WriteString("def quicCloseOther : List String := [")
	for i, s := range other {
		if i > 0 {
			w.WriteString(", ")
		}
		w.WriteString(q(s))
	}
	w.WriteString("]\n\n")
	w.WriteString("/-- (file:function:variable, most invocations of the pooled codec's recycle function on any path) -/\n")
	w.WriteString("def poolRecycleMax : List (String × Nat) :=\n  [")
	for i, p := range pool {
		if i > 0 {
			w.WriteString(",\n   ")
		}
		fmt.Fprintf(&w, "(%s, %s)", q(p[0]), p[1])
	}
	w.WriteString("]\n\n")
	w.WriteString("/-- (line, a WaitN call certainly ran before — one guarded by `n > 0` counts) of every return statement of\n" +
		"    (*limit.Reader).Read that follows the read from the reader below, source order -/\n")
	w.WriteString("def readerReturnsCharged : List (Nat × Bool) :=\n  [")
	for i, r := range rets {
		if i > 0 {
			w.WriteString(", ")
		}
		fmt.Fprintf(&w, "(%s, %s)", r[0], r[1])
	}
	w.WriteString("]\n\nend Frp.Gen.ConnFacts\n")
	return os.WriteFile(filepath.Join(out, "ConnFacts.lean"), w.Bytes(), 0o644)
}
