package main

// Generator ConnFacts (C01): three small shapes of connection handling code, read with go/ast and written to
// lean/Frp/Gen/ConnFacts.lean.  The Lean models (Frp/Model/Deadline.lean, QuicStream.lean, CodecPool.lean) are
// written by hand; these facts tie the programs they run to the source.
//
//	muxerHandleDeadlines   pkg/util/vhost/vhost.go (*Muxer).handle: every Set{,Read,Write}Deadline call in source order as
//	                       (receiver, method, argument source text, block depth); depth 0 = a statement of the function
//	                       body itself (or the init / condition of one), i.e. on the straight-line path to the hand-off
//	muxerHandleHandOff     the channel-send statement(s) of handle (source text) — the hand-off to the proxy's listener
//	quicCloseCalls         pkg/util/net/conn.go (*wrapQuicStream).Close: every method call whose receiver chain starts at
//	                       the method's receiver, in source order, as (method path, later) — later = lexically inside a
//	                       function literal or a go statement (runs at some other time than Close itself)
//	quicCloseOther         all other calls in that body (callee source text), e.g. time.AfterFunc
//	poolRecycleMax         for every function that binds the second result of libio.WithCompressionFromPool to a variable:
//	                       ("<file>:<func>", max number of times that variable is invoked on any path through the function)
//	                       — `defer v()` counts once for every path through it, a call inside a loop counts twice
//
// Fails ("BROKEN TIE") when an anchor function is missing.  A changed shape is NOT a translator failure: the facts are
// written as found and the Lean obligations C01.handle_code_clears / quic_close_code / pool_recycle_once_code decide.

import (
	"bytes"
	"fmt"
	"go/ast"
	"go/parser"
	"go/printer"
	"go/token"
	"os"
	"path/filepath"
	"sort"
	"strconv"
	"strings"
)

func init() { generators["ConnFacts"] = genConnFacts }

func cfSrc(fset *token.FileSet, n ast.Node) string {
	var b bytes.Buffer
	_ = printer.Fprint(&b, fset, n)
	return strings.Join(strings.Fields(b.String()), " ")
}

func cfMethod(f *ast.File, recvType, name string) *ast.FuncDecl {
	for _, d := range f.Decls {
		fd, ok := d.(*ast.FuncDecl)
		if !ok || fd.Name.Name != name || fd.Recv == nil || len(fd.Recv.List) != 1 {
			continue
		}
		t := fd.Recv.List[0].Type
		if s, ok := t.(*ast.StarExpr); ok {
			t = s.X
		}
		if id, ok := t.(*ast.Ident); ok && id.Name == recvType {
			return fd
		}
	}
	return nil
}

// root identifier and dotted path of a selector chain: conn.Stream.Close -> ("conn", "Stream.Close")
func cfChain(e ast.Expr) (string, string) {
	var parts []string
	for {
		switch x := e.(type) {
		case *ast.SelectorExpr:
			parts = append([]string{x.Sel.Name}, parts...)
			e = x.X
			continue
		case *ast.Ident:
			return x.Name, strings.Join(parts, ".")
		}
		return "", ""
	}
}

// ---- deadlines in Muxer.handle

type cfDl struct {
	recv, method, arg string
	depth             int
}

func cfDeadlines(fset *token.FileSet, fd *ast.FuncDecl) (dls []cfDl, sends []string) {
	var walk func(n ast.Node, depth int)
	walk = func(n ast.Node, depth int) {
		ast.Inspect(n, func(x ast.Node) bool {
			switch v := x.(type) {
			case *ast.BlockStmt:
				if v == fd.Body {
					return true
				}
				for _, s := range v.List {
					walk(s, depth+1)
				}
				return false
			case *ast.CaseClause:
				for _, s := range v.Body {
					walk(s, depth+1)
				}
				return false
			case *ast.CommClause:
				for _, s := range v.Body {
					walk(s, depth+1)
				}
				return false
			case *ast.FuncLit:
				// the hand-off sits in a closure handed to PanicToError: same path, not a deeper branch
				for _, s := range v.Body.List {
					walk(s, depth)
				}
				return false
			case *ast.SendStmt:
				sends = append(sends, cfSrc(fset, v))
			case *ast.CallExpr:
				if sel, ok := v.Fun.(*ast.SelectorExpr); ok {
					switch sel.Sel.Name {
					case "SetDeadline", "SetReadDeadline", "SetWriteDeadline":
						arg := ""
						if len(v.Args) == 1 {
							arg = cfSrc(fset, v.Args[0])
						}
						dls = append(dls, cfDl{cfSrc(fset, sel.X), sel.Sel.Name, arg, depth})
					}
				}
			}
			return true
		})
	}
	walk(fd.Body, 0)
	return
}

// ---- calls in wrapQuicStream.Close

func cfRecvCalls(fset *token.FileSet, fd *ast.FuncDecl) (own [][2]string, other []string) {
	recv := ""
	if len(fd.Recv.List[0].Names) == 1 {
		recv = fd.Recv.List[0].Names[0].Name
	}
	var walk func(n ast.Node, later bool)
	walk = func(n ast.Node, later bool) {
		ast.Inspect(n, func(x ast.Node) bool {
			switch v := x.(type) {
			case *ast.FuncLit:
				walk(v.Body, true)
				return false
			case *ast.GoStmt:
				walk(v.Call, true)
				return false
			case *ast.CallExpr:
				root, path := cfChain(v.Fun)
				if root != "" && root == recv && path != "" {
					own = append(own, [2]string{path, strconv.FormatBool(later)})
				} else {
					other = append(other, cfSrc(fset, v.Fun))
				}
			}
			return true
		})
	}
	walk(fd.Body, false)
	return
}

// ---- how often a recycle function can run on one path

// invocations of v in an expression / simple statement (not descending into closures: a closure that calls v is
// counted where it is deferred or called, which this analysis does not follow — it is reported as 2 = "unknown")
func cfCountIn(n ast.Node, v string) int {
	c := 0
	ast.Inspect(n, func(x ast.Node) bool {
		switch e := x.(type) {
		case *ast.FuncLit:
			inner := 0
			ast.Inspect(e.Body, func(y ast.Node) bool {
				if ce, ok := y.(*ast.CallExpr); ok {
					if id, ok := ce.Fun.(*ast.Ident); ok && id.Name == v {
						inner++
					}
				}
				return true
			})
			if inner > 0 {
				c += 2
			}
			return false
		case *ast.CallExpr:
			if id, ok := e.Fun.(*ast.Ident); ok && id.Name == v {
				c++
			}
		}
		return true
	})
	return c
}

func cfMax(a, b int) int {
	if a > b {
		return a
	}
	return b
}

// paths through a statement list that starts with `n` invocations behind it:
// done = most invocations on a path that leaves the function inside the list (-1: none does),
// fall = most invocations on a path that runs off the end of the list (-1: none does)
func cfPaths(list []ast.Stmt, v string, n int) (done, fall int) {
	done = -1
	for _, s := range list {
		if n < 0 {
			break
		}
		switch st := s.(type) {
		case *ast.ReturnStmt:
			n += cfCountIn(st, v)
			return cfMax(done, n), -1
		case *ast.DeferStmt, *ast.GoStmt:
			n += cfCountIn(st, v)
		case *ast.BlockStmt:
			d, f := cfPaths(st.List, v, n)
			done, n = cfMax(done, d), f
		case *ast.IfStmt:
			if st.Init != nil {
				n += cfCountIn(st.Init, v)
			}
			n += cfCountIn(st.Cond, v)
			d1, f1 := cfPaths(st.Body.List, v, n)
			d2, f2 := -1, n
			if st.Else != nil {
				d2, f2 = cfPaths([]ast.Stmt{st.Else}, v, n)
			}
			done = cfMax(done, cfMax(d1, d2))
			n = cfMax(f1, f2)
		case *ast.ForStmt, *ast.RangeStmt:
			if cfCountIn(st, v) > 0 {
				n += 2
			}
		case *ast.SwitchStmt, *ast.TypeSwitchStmt, *ast.SelectStmt:
			var body *ast.BlockStmt
			switch w := st.(type) {
			case *ast.SwitchStmt:
				body = w.Body
			case *ast.TypeSwitchStmt:
				body = w.Body
			case *ast.SelectStmt:
				body = w.Body
			}
			best := n
			for _, cl := range body.List {
				var b []ast.Stmt
				switch c := cl.(type) {
				case *ast.CaseClause:
					b = c.Body
				case *ast.CommClause:
					b = c.Body
				}
				d, f := cfPaths(b, v, n)
				done = cfMax(done, d)
				best = cfMax(best, f)
			}
			n = best
		default:
			n += cfCountIn(s, v)
		}
	}
	return done, n
}

func cfPoolFuncs(fset *token.FileSet, repo string) ([][2]string, error) {
	var out [][2]string
	for _, top := range []string{"client", "server", "pkg"} {
		err := filepath.Walk(filepath.Join(repo, top), func(p string, info os.FileInfo, err error) error {
			if err != nil {
				return err
			}
			n := info.Name()
			if info.IsDir() || !strings.HasSuffix(n, ".go") || strings.HasSuffix(n, "_test.go") || strings.HasPrefix(n, "verif_") {
				return nil
			}
			src, err := os.ReadFile(p)
			if err != nil {
				return err
			}
			if !bytes.Contains(src, []byte("WithCompressionFromPool")) {
				return nil
			}
			f, err := parser.ParseFile(fset, p, src, 0)
			if err != nil {
				return err
			}
			rel, _ := filepath.Rel(repo, p)
			for _, d := range f.Decls {
				fd, ok := d.(*ast.FuncDecl)
				if !ok || fd.Body == nil {
					continue
				}
				vars := map[string]bool{}
				ast.Inspect(fd.Body, func(x ast.Node) bool {
					as, ok := x.(*ast.AssignStmt)
					if !ok || len(as.Rhs) != 1 || len(as.Lhs) != 2 {
						return true
					}
					ce, ok := as.Rhs[0].(*ast.CallExpr)
					if !ok {
						return true
					}
					if sel, ok := ce.Fun.(*ast.SelectorExpr); ok && sel.Sel.Name == "WithCompressionFromPool" {
						if id, ok := as.Lhs[1].(*ast.Ident); ok && id.Name != "_" {
							vars[id.Name] = true
						} else {
							vars["<"+cfSrc(fset, as.Lhs[1])+">"] = true
						}
					}
					return true
				})
				var names []string
				for v := range vars {
					names = append(names, v)
				}
				sort.Strings(names)
				for _, v := range names {
					d, fl := cfPaths(fd.Body.List, v, 0)
					out = append(out, [2]string{fmt.Sprintf("%s:%s:%s", filepath.ToSlash(rel), fd.Name.Name, v), strconv.Itoa(cfMax(d, fl))})
				}
			}
			return nil
		})
		if err != nil {
			return nil, err
		}
	}
	sort.Slice(out, func(i, j int) bool { return out[i][0] < out[j][0] })
	return out, nil
}


// ---- limit.Reader.Read: is every return after the read below dominated by a WaitN call?

func cfHasCall(n ast.Node, method string) bool {
	found := false
	ast.Inspect(n, func(x ast.Node) bool {
		if c, ok := x.(*ast.CallExpr); ok {
			if sel, ok := c.Fun.(*ast.SelectorExpr); ok && sel.Sel.Name == method {
				found = true
			}
		}
		return !found
	})
	return found
}

// a statement list certainly runs WaitN: one of its top-level statements (or the init of a top-level `if`) calls it
func cfRunsWaitN(list []ast.Stmt) bool {
	for _, st := range list {
		switch t := st.(type) {
		case *ast.AssignStmt, *ast.ExprStmt:
			if cfHasCall(t, "WaitN") {
				return true
			}
		case *ast.IfStmt:
			if t.Init != nil && cfHasCall(t.Init, "WaitN") {
				return true
			}
		}
	}
	return false
}

// walks a statement list in source order; seen = the read below has happened, charged = WaitN has certainly run on
// this path (a block guarded by `n > 0` that runs WaitN counts: it runs whenever there are bytes to charge).
// Every return statement after the read is reported with `charged`.
func cfReaderReturns(fset *token.FileSet, list []ast.Stmt, seen, charged bool, out *[][2]string) (bool, bool) {
	for _, st := range list {
		switch t := st.(type) {
		case *ast.ReturnStmt:
			if seen {
				*out = append(*out, [2]string{strconv.Itoa(fset.Position(t.Pos()).Line), strconv.FormatBool(charged)})
			}
		case *ast.IfStmt:
			c := charged
			if t.Init != nil && cfHasCall(t.Init, "WaitN") {
				c, charged = true, true
			}
			cfReaderReturns(fset, t.Body.List, seen, c, out)
			if els, ok := t.Else.(*ast.BlockStmt); ok {
				cfReaderReturns(fset, els.List, seen, c, out)
			}
			if cfSrc(fset, t.Cond) == "n > 0" && t.Else == nil && cfRunsWaitN(t.Body.List) {
				charged = true
			}
		case *ast.BlockStmt:
			seen, charged = cfReaderReturns(fset, t.List, seen, charged, out)
		default:
			if cfHasCall(st, "WaitN") {
				charged = true
			}
			if as, ok := st.(*ast.AssignStmt); ok && cfHasCall(as, "Read") && !cfHasCall(as, "WaitN") {
				seen = true
			}
		}
	}
	return seen, charged
}


// ---- Manager.UpdateAll: what happens to a RUNNING proxy on a reload, and who writes a running proxy's configuration

// selector chain of an lvalue, looking through *x, (x), x[i]: root identifier and the selected names
func cfLPath(e ast.Expr) (string, []string) {
	var parts []string
	for {
		switch x := e.(type) {
		case *ast.SelectorExpr:
			parts = append([]string{x.Sel.Name}, parts...)
			e = x.X
		case *ast.StarExpr:
			e = x.X
		case *ast.ParenExpr:
			e = x.X
		case *ast.IndexExpr:
			e = x.X
		case *ast.Ident:
			return x.Name, parts
		default:
			return "", parts
		}
	}
}

type cfUpdateAll struct {
	delConds [][]string // for every `del = true`: the conditions on the way to it
	touches  []string   // everything loop 1 does WITH the running wrapper besides reading its fields
	delBody  []string   // the calls under `if del`
	addCalls []string   // the callees of loop 2
}

func cfUpdateAllFacts(fset *token.FileSet, fd *ast.FuncDecl) (*cfUpdateAll, error) {
	var loops []*ast.RangeStmt
	for _, st := range fd.Body.List {
		if r, ok := st.(*ast.RangeStmt); ok {
			loops = append(loops, r)
		}
	}
	if len(loops) != 2 || !strings.HasSuffix(cfSrc(fset, loops[0].X), ".proxies") {
		return nil, fail("client/proxy/proxy_manager.go: UpdateAll is not `for … range pm.proxies {…}` followed by one loop over the new configuration")
	}
	val, ok := loops[0].Value.(*ast.Ident)
	if !ok {
		return nil, fail("client/proxy/proxy_manager.go: UpdateAll: loop 1 has no value variable")
	}
	u := &cfUpdateAll{}
	var walk func(list []ast.Stmt, chain []string)
	note := func(n ast.Node) {
		ast.Inspect(n, func(x ast.Node) bool {
			switch v := x.(type) {
			case *ast.CallExpr:
				if sel, ok := v.Fun.(*ast.SelectorExpr); ok {
					if id, ok := sel.X.(*ast.Ident); ok && id.Name == val.Name {
						u.touches = append(u.touches, sel.Sel.Name)
					}
				}
				for _, a := range v.Args {
					if id, ok := a.(*ast.Ident); ok && id.Name == val.Name {
						u.touches = append(u.touches, cfSrc(fset, v.Fun)+"(.."+val.Name+"..)")
					}
					if ue, ok := a.(*ast.UnaryExpr); ok && ue.Op == token.AND {
						if root, _ := cfLPath(ue.X); root == val.Name {
							u.touches = append(u.touches, cfSrc(fset, v.Fun)+"(.."+cfSrc(fset, a)+"..)")
						}
					}
				}
			case *ast.AssignStmt:
				for _, l := range v.Lhs {
					if root, path := cfLPath(l); root == val.Name && len(path) > 0 {
						u.touches = append(u.touches, cfSrc(fset, l)+" =")
					}
				}
			}
			return true
		})
	}
	walk = func(list []ast.Stmt, chain []string) {
		for _, st := range list {
			switch t := st.(type) {
			case *ast.IfStmt:
				if t.Init != nil {
					note(t.Init)
				}
				note(t.Cond)
				c := cfSrc(fset, t.Cond)
				if c == "del" {
					ast.Inspect(t.Body, func(x ast.Node) bool {
						if ce, ok := x.(*ast.CallExpr); ok {
							u.delBody = append(u.delBody, cfSrc(fset, ce))
						}
						return true
					})
				}
				walk(t.Body.List, append(append([]string(nil), chain...), c))
				switch e := t.Else.(type) {
				case *ast.BlockStmt:
					walk(e.List, append(append([]string(nil), chain...), "!("+c+")"))
				case *ast.IfStmt:
					walk([]ast.Stmt{e}, append(append([]string(nil), chain...), "!("+c+")"))
				}
			case *ast.BlockStmt:
				walk(t.List, chain)
			case *ast.AssignStmt:
				note(t)
				if len(t.Lhs) == 1 && len(t.Rhs) == 1 && cfSrc(fset, t.Lhs[0]) == "del" && cfSrc(fset, t.Rhs[0]) == "true" {
					u.delConds = append(u.delConds, append([]string(nil), chain...))
				}
			default:
				note(st)
			}
		}
	}
	walk(loops[0].Body.List, nil)
	ast.Inspect(loops[1].Body, func(x ast.Node) bool {
		if ce, ok := x.(*ast.CallExpr); ok {
			u.addCalls = append(u.addCalls, cfSrc(fset, ce.Fun))
		}
		return true
	})
	return u, nil
}

// every assignment (not a definition) in client/proxy whose target lies on a path through a configuration holder:
// Wrapper.Cfg, Wrapper.pxy, BaseProxy.baseCfg, the typed proxies' cfg — as "<file>:<func>:<target>"
func cfCfgWriters(fset *token.FileSet, repo string) ([]string, error) {
	dir := filepath.Join(repo, "client", "proxy")
	ents, err := os.ReadDir(dir)
	if err != nil {
		return nil, err
	}
	holders := map[string]bool{"Cfg": true, "pxy": true, "baseCfg": true, "cfg": true}
	var out []string
	for _, e := range ents {
		n := e.Name()
		if e.IsDir() || !strings.HasSuffix(n, ".go") || strings.HasSuffix(n, "_test.go") || strings.HasPrefix(n, "verif_") {
			continue
		}
		f, err := parser.ParseFile(fset, filepath.Join(dir, n), nil, 0)
		if err != nil {
			return nil, err
		}
		for _, d := range f.Decls {
			fd, ok := d.(*ast.FuncDecl)
			if !ok || fd.Body == nil {
				continue
			}
			ast.Inspect(fd.Body, func(x ast.Node) bool {
				as, ok := x.(*ast.AssignStmt)
				if !ok || as.Tok == token.DEFINE {
					return true
				}
				for _, l := range as.Lhs {
					_, path := cfLPath(l)
					for _, seg := range path {
						if holders[seg] {
							out = append(out, fmt.Sprintf("client/proxy/%s:%s:%s", n, fd.Name.Name, cfSrc(fset, l)))
							break
						}
					}
				}
				return true
			})
		}
	}
	sort.Strings(out)
	return out, nil
}

// ---- server BaseProxy.GetWorkConnFromPool: where the StartWorkConn message comes from

type cfStartMsg struct {
	shape      string      // "literal" = msg.WriteMsg(…, &msg.StartWorkConn{…}) | "other:<argument>"
	fields     [][3]string // (key, value, every variable in the value is declared inside the function)
	recvWrites []string    // writes through / addresses taken of the receiver in the function and the methods it calls
}

func cfStartMsgFacts(fset *token.FileSet, repo string) (*cfStartMsg, error) {
	dir := filepath.Join(repo, "server", "proxy")
	ents, err := os.ReadDir(dir)
	if err != nil {
		return nil, err
	}
	methods := map[string]*ast.FuncDecl{}
	for _, e := range ents {
		n := e.Name()
		if e.IsDir() || !strings.HasSuffix(n, ".go") || strings.HasSuffix(n, "_test.go") || strings.HasPrefix(n, "verif_") {
			continue
		}
		f, err := parser.ParseFile(fset, filepath.Join(dir, n), nil, 0)
		if err != nil {
			return nil, err
		}
		for _, d := range f.Decls {
			if fd, ok := d.(*ast.FuncDecl); ok && fd.Body != nil && fd.Recv != nil && len(fd.Recv.List) == 1 {
				t := fd.Recv.List[0].Type
				if s, ok := t.(*ast.StarExpr); ok {
					t = s.X
				}
				if id, ok := t.(*ast.Ident); ok && id.Name == "BaseProxy" {
					methods[fd.Name.Name] = fd
				}
			}
		}
	}
	top := methods["GetWorkConnFromPool"]
	if top == nil {
		return nil, fail("server/proxy: (*BaseProxy).GetWorkConnFromPool not found")
	}
	r := &cfStartMsg{}
	recvOf := func(fd *ast.FuncDecl) string {
		if len(fd.Recv.List[0].Names) == 1 {
			return fd.Recv.List[0].Names[0].Name
		}
		return ""
	}
	// the message
	var arg ast.Expr
	writes := 0
	ast.Inspect(top.Body, func(x ast.Node) bool {
		if ce, ok := x.(*ast.CallExpr); ok && cfSrc(fset, ce.Fun) == "msg.WriteMsg" && len(ce.Args) == 2 {
			arg = ce.Args[1]
			writes++
		}
		return true
	})
	if writes != 1 {
		return nil, fail("server/proxy/proxy.go: GetWorkConnFromPool has %d msg.WriteMsg calls (1 expected)", writes)
	}
	r.shape = "other:" + cfSrc(fset, arg)
	if ue, ok := arg.(*ast.UnaryExpr); ok && ue.Op == token.AND {
		if cl, ok := ue.X.(*ast.CompositeLit); ok && cfSrc(fset, cl.Type) == "msg.StartWorkConn" {
			r.shape = "literal"
			recv := recvOf(top)
			universe := map[string]bool{"uint16": true, "uint64": true, "int": true, "string": true, "nil": true, "true": true, "false": true}
			for _, el := range cl.Elts {
				kv, ok := el.(*ast.KeyValueExpr)
				if !ok {
					r.shape = "other:" + cfSrc(fset, arg)
					break
				}
				local := true
				ast.Inspect(kv.Value, func(x ast.Node) bool {
					switch v := x.(type) {
					case *ast.SelectorExpr:
						// only the root of a selection is a variable
						ast.Inspect(v.X, func(y ast.Node) bool {
							if id, ok := y.(*ast.Ident); ok {
								if id.Name == recv || id.Obj == nil || id.Obj.Kind != ast.Var || id.Obj.Pos() < top.Pos() || id.Obj.Pos() > top.End() {
									local = false
								}
							}
							return true
						})
						return false
					case *ast.Ident:
						if universe[v.Name] && v.Obj == nil {
							return true
						}
						if v.Name == recv || v.Obj == nil || v.Obj.Kind != ast.Var || v.Obj.Pos() < top.Pos() || v.Obj.Pos() > top.End() {
							local = false
						}
					}
					return true
				})
				r.fields = append(r.fields, [3]string{cfSrc(fset, kv.Key), cfSrc(fset, kv.Value), strconv.FormatBool(local)})
			}
		}
	}
	// writes through the receiver, in the function and in the methods of BaseProxy it calls
	seen := map[string]bool{}
	var visit func(fd *ast.FuncDecl)
	visit = func(fd *ast.FuncDecl) {
		if seen[fd.Name.Name] {
			return
		}
		seen[fd.Name.Name] = true
		recv := recvOf(fd)
		ast.Inspect(fd.Body, func(x ast.Node) bool {
			switch v := x.(type) {
			case *ast.AssignStmt:
				if v.Tok != token.DEFINE {
					for _, l := range v.Lhs {
						if root, path := cfLPath(l); root == recv && len(path) > 0 {
							r.recvWrites = append(r.recvWrites, fd.Name.Name+":"+cfSrc(fset, l)+" =")
						}
					}
				}
			case *ast.IncDecStmt:
				if root, path := cfLPath(v.X); root == recv && len(path) > 0 {
					r.recvWrites = append(r.recvWrites, fd.Name.Name+":"+cfSrc(fset, v))
				}
			case *ast.UnaryExpr:
				if v.Op == token.AND {
					if root, path := cfLPath(v.X); root == recv && len(path) > 0 {
						r.recvWrites = append(r.recvWrites, fd.Name.Name+":"+cfSrc(fset, v))
					}
				}
			case *ast.CallExpr:
				if sel, ok := v.Fun.(*ast.SelectorExpr); ok {
					if id, ok := sel.X.(*ast.Ident); ok && id.Name == recv {
						if m := methods[sel.Sel.Name]; m != nil {
							visit(m)
						}
					}
				}
			}
			return true
		})
	}
	visit(top)
	return r, nil
}

func cfStrList(w *bytes.Buffer, xs []string) {
	w.WriteString("[")
	for i, s := range xs {
		if i > 0 {
			w.WriteString(", ")
		}
		w.WriteString(strconv.Quote(s))
	}
	w.WriteString("]")
}

func genConnFacts(repo, out string) error {
	fset := token.NewFileSet()
	vf, err := parser.ParseFile(fset, filepath.Join(repo, "pkg", "util", "vhost", "vhost.go"), nil, 0)
	if err != nil {
		return err
	}
	handle := cfMethod(vf, "Muxer", "handle")
	if handle == nil || handle.Body == nil {
		return fail("pkg/util/vhost/vhost.go: (*Muxer).handle not found")
	}
	dls, sends := cfDeadlines(fset, handle)
	cf, err := parser.ParseFile(fset, filepath.Join(repo, "pkg", "util", "net", "conn.go"), nil, 0)
	if err != nil {
		return err
	}
	qclose := cfMethod(cf, "wrapQuicStream", "Close")
	if qclose == nil || qclose.Body == nil {
		return fail("pkg/util/net/conn.go: (*wrapQuicStream).Close not found")
	}
	own, other := cfRecvCalls(fset, qclose)
	pool, err := cfPoolFuncs(fset, repo)
	if err != nil {
		return err
	}
	if len(pool) == 0 {
		return fail("no function binds the recycle function of libio.WithCompressionFromPool")
	}

	rf, err := parser.ParseFile(fset, filepath.Join(repo, "pkg", "util", "limit", "reader.go"), nil, 0)
	if err != nil {
		return err
	}
	rread := cfMethod(rf, "Reader", "Read")
	if rread == nil || rread.Body == nil {
		return fail("pkg/util/limit/reader.go: (*Reader).Read not found")
	}
	var rets [][2]string
	if seen, _ := cfReaderReturns(fset, rread.Body.List, false, false, &rets); !seen {
		return fail("pkg/util/limit/reader.go: (*Reader).Read does not read from the reader below")
	}

	mf, err := parser.ParseFile(fset, filepath.Join(repo, "client", "proxy", "proxy_manager.go"), nil, 0)
	if err != nil {
		return err
	}
	updAll := cfMethod(mf, "Manager", "UpdateAll")
	if updAll == nil || updAll.Body == nil {
		return fail("client/proxy/proxy_manager.go: (*Manager).UpdateAll not found")
	}
	upd, err := cfUpdateAllFacts(fset, updAll)
	if err != nil {
		return err
	}
	cfgWriters, err := cfCfgWriters(fset, repo)
	if err != nil {
		return err
	}
	smsg, err := cfStartMsgFacts(fset, repo)
	if err != nil {
		return err
	}

	q := strconv.Quote
	var w bytes.Buffer
	w.WriteString("/- GENERATED by translate/gen_connfacts.go from pkg/util/vhost/vhost.go (Muxer.handle), pkg/util/net/conn.go\n" +
		"   (wrapQuicStream.Close), pkg/util/limit/reader.go (Reader.Read), every caller of libio.WithCompressionFromPool,\n" +
		"   client/proxy (Manager.UpdateAll, writers of a running proxy's configuration) and server/proxy/proxy.go (GetWorkConnFromPool). Do not edit. -/\n")
	w.WriteString("namespace Frp.Gen.ConnFacts\n\n")
	w.WriteString("/-- (receiver, method, argument, block depth) of every deadline call in (*Muxer).handle, source order -/\n")
	w.WriteString("def muxerHandleDeadlines : List (String × String × String × Nat) :=\n  [")
	for i, d := range dls {
		if i > 0 {
			w.WriteString(", ")
		}
		fmt.Fprintf(&w, "(%s, %s, %s, %d)", q(d.recv), q(d.method), q(d.arg), d.depth)
	}
	w.WriteString("]\n")
	w.WriteString("def muxerHandleHandOff : List String := [")
	for i, s := range sends {
		if i > 0 {
			w.WriteString(", ")
		}
		w.WriteString(q(s))
	}
	w.WriteString("]\n\n")
	w.WriteString("/-- (method path below the receiver, runs later than Close itself) in (*wrapQuicStream).Close, source order -/\n")
	w.WriteString("def quicCloseCalls : List (String × Bool) :=\n  [")
	for i, c := range own {
		if i > 0 {
			w.WriteString(", ")
		}
		fmt.Fprintf(&w, "(%s, %s)", q(c[0]), c[1])
	}
	w.WriteString("]\n")
	w.WriteString("def quicCloseOther : List String := [")
	for i, s := range other {
		if i > 0 {
			w.WriteString(", ")
		}
		w.WriteString(q(s))
	}
	w.WriteString("]\n\n")
	w.WriteString("/-- (file:function:variable, most invocations of the pooled codec's recycle function on any path) -/\n")
	w.WriteString("def poolRecycleMax : List (String × Nat) :=\n  [")
	for i, p := range pool {
		if i > 0 {
			w.WriteString(",\n   ")
		}
		fmt.Fprintf(&w, "(%s, %s)", q(p[0]), p[1])
	}
	w.WriteString("]\n\n")
	w.WriteString("/-- (line, a WaitN call certainly ran before — one guarded by `n > 0` counts) of every return statement of\n" +
		"    (*limit.Reader).Read that follows the read from the reader below, source order -/\n")
	w.WriteString("def readerReturnsCharged : List (Nat × Bool) :=\n  [")
	for i, r := range rets {
		if i > 0 {
			w.WriteString(", ")
		}
		fmt.Fprintf(&w, "(%s, %s)", r[0], r[1])
	}
	w.WriteString("]\n\n")
	w.WriteString("/-- (*proxy.Manager).UpdateAll, loop 1 (over the RUNNING proxies): for every `del = true` the conditions on the way to it -/\n")
	w.WriteString("def updateAllDelConds : List (List String) :=\n  [")
	for i, c := range upd.delConds {
		if i > 0 {
			w.WriteString(", ")
		}
		cfStrList(&w, c)
	}
	w.WriteString("]\n")
	w.WriteString("/-- … everything that loop does WITH the running wrapper besides reading its fields (method calls, the wrapper or the\n" +
		"    address of one of its fields as an argument, assignments to its fields), source order -/\n")
	w.WriteString("def updateAllTouches : List String := ")
	cfStrList(&w, upd.touches)
	w.WriteString("\n/-- … the calls under `if del` -/\ndef updateAllDelBody : List String := ")
	cfStrList(&w, upd.delBody)
	w.WriteString("\n/-- … the callees of loop 2 (over the new configuration) -/\ndef updateAllAddCalls : List String := ")
	cfStrList(&w, upd.addCalls)
	w.WriteString("\n/-- every assignment in client/proxy to a path through Wrapper.Cfg / Wrapper.pxy / BaseProxy.baseCfg / a typed proxy's cfg -/\n")
	w.WriteString("def clientCfgWriters : List String := ")
	cfStrList(&w, cfgWriters)
	w.WriteString("\n\n/-- server (*BaseProxy).GetWorkConnFromPool: the message handed to msg.WriteMsg — \"literal\" = `&msg.StartWorkConn{…}` built at the call -/\n")
	fmt.Fprintf(&w, "def startMsgShape : String := %s\n", q(smsg.shape))
	w.WriteString("/-- (field, value, every variable in the value is a parameter / local of GetWorkConnFromPool) -/\n")
	w.WriteString("def startMsgFields : List (String × String × Bool) :=\n  [")
	for i, f := range smsg.fields {
		if i > 0 {
			w.WriteString(", ")
		}
		fmt.Fprintf(&w, "(%s, %s, %s)", q(f[0]), q(f[1]), f[2])
	}
	w.WriteString("]\n")
	w.WriteString("/-- assignments through the receiver and addresses taken of its fields, in GetWorkConnFromPool and the BaseProxy methods it calls -/\n")
	w.WriteString("def startMsgRecvWrites : List String := ")
	cfStrList(&w, smsg.recvWrites)
	w.WriteString("\n\nend Frp.Gen.ConnFacts\n")
	return os.WriteFile(filepath.Join(out, "ConnFacts.lean"), w.Bytes(), 0o644)
}
