package main

// Generator "CmdWire" (property C18).
//
// Reads, from the frp tree as it is now,
//   cmd/frpc/sub/proxy.go   init(): the per-type loop that builds the `frpc <type>` / `frpc <type> visitor`
//                           sub-commands — which configuration OBJECT each command's Run closure receives
//                           (NewProxyCommand / NewVisitorCommand arguments), which object each Register*Flags call
//                           binds the command's flags to, and WHERE each of these objects is declared (inside the
//                           loop body = one per command, or outside = shared by all commands); proxyTypes,
//                           visitorTypes; the statements of the two Run closures
//   cmd/frps/root.go        init(): the object RegisterServerConfigFlags binds to; the statements of RunE
//   pkg/config/v1/proxy.go, visitor.go   the type-name constants
// and writes <out>/CmdWire.lean.
//
// Statement shapes accepted in cmd/frpc/sub/proxy.go init() — anything else is a broken tie:
//   top level:   x := <expr>                                      an object declared OUTSIDE the loop (shared)
//                for _, typ := range proxyTypes { … }              exactly one
//   loop body (and the body of `if slices.Contains(visitorTypes, v1.VisitorType(typ)) { … }` inside it):
//                x := <expr>                                       an object declared per iteration
//                x := NewProxyCommand(string(typ), <obj>, &<cfg>)  /  NewVisitorCommand(string(typ), <obj>, &<cfg>)
//                if x == nil { panic(…) }
//                config.RegisterClientCommonConfigFlags(<cmd>, &<cfg>)
//                config.RegisterProxyFlags(<cmd>, <obj>)  /  config.RegisterVisitorFlags(<cmd>, <obj>)
//                <cmd>.AddCommand(<cmd'>)                          (rootCmd or a command of this iteration)
//   comments are ignored.

import (
	"bytes"
	"fmt"
	"go/ast"
	"go/printer"
	"go/token"
	"os"
	"path/filepath"
	"strings"
)

func init() { generators["CmdWire"] = genCmdWire }

type cmdSite struct {
	Role     string // runClient regClient runProxy regProxy runVisitor regVisitor
	Cmd      string // the command variable
	Obj      string // the configuration object variable
	Scope    string // perCommand | shared     (where Obj is declared)
	CmdScope string // perCommand | shared     (where Cmd is declared)
}

type cmdWireFacts struct {
	Sites        []cmdSite
	Adds         [][2]string // parent.AddCommand(child)
	ProxyTypes   []string
	VisitorTypes []string
	ProxyRun     []string
	VisitorRun   []string
	FrpsInit     []string
	FrpsRun      []string
	FrpsRegObj   string
	FrpsObjPkgLevel bool
}

// srcText: the source text of a node with all white space runs collapsed
func srcText(fset *token.FileSet, n any) string {
	var b bytes.Buffer
	if err := printer.Fprint(&b, fset, n); err != nil {
		return "<unprintable>"
	}
	return strings.Join(strings.Fields(b.String()), " ")
}

func identName(e ast.Expr) (string, bool) {
	id, ok := e.(*ast.Ident)
	if !ok {
		return "", false
	}
	return id.Name, true
}

// addrOfIdent: &x → x
func addrOfIdent(e ast.Expr) (string, bool) {
	u, ok := e.(*ast.UnaryExpr)
	if !ok || u.Op != token.AND {
		return "", false
	}
	return identName(u.X)
}

type cmdScopeEnv struct {
	scope map[string]string // variable → perCommand | shared
	fx    *cmdWireFacts
	fset  *token.FileSet
}

func (e *cmdScopeEnv) scopeOf(v string) (string, error) {
	if s, ok := e.scope[v]; ok {
		return s, nil
	}
	return "", fmt.Errorf("variable %s is not declared in init() (package-level objects are not expected here)", v)
}

func (e *cmdScopeEnv) site(role, cmd, obj string) error {
	so, err := e.scopeOf(obj)
	if err != nil {
		return err
	}
	sc, err := e.scopeOf(cmd)
	if err != nil {
		return err
	}
	e.fx.Sites = append(e.fx.Sites, cmdSite{role, cmd, obj, so, sc})
	return nil
}

func (e *cmdScopeEnv) stmt(s ast.Stmt, where string) error {
	switch v := s.(type) {
	case *ast.AssignStmt:
		if v.Tok != token.DEFINE || len(v.Lhs) != 1 || len(v.Rhs) != 1 {
			return fmt.Errorf("init(): unsupported assignment: %s", srcText(e.fset, s))
		}
		name, ok := identName(v.Lhs[0])
		if !ok {
			return fmt.Errorf("init(): unsupported assignment target: %s", srcText(e.fset, s))
		}
		if _, dup := e.scope[name]; dup {
			return fmt.Errorf("init(): %s is declared twice (shadowing is outside the accepted shapes)", name)
		}
		e.scope[name] = where
		if call, ok := v.Rhs[0].(*ast.CallExpr); ok {
			fn := render(call.Fun)
			if fn == "NewProxyCommand" || fn == "NewVisitorCommand" {
				if where != "perCommand" {
					return fmt.Errorf("init(): %s called outside the per-type loop", fn)
				}
				if len(call.Args) != 3 || render(call.Args[0]) != "string(typ)" {
					return fmt.Errorf("init(): unexpected arguments: %s", srcText(e.fset, s))
				}
				obj, ok1 := identName(call.Args[1])
				cfg, ok2 := addrOfIdent(call.Args[2])
				if !ok1 || !ok2 {
					return fmt.Errorf("init(): unexpected arguments: %s", srcText(e.fset, s))
				}
				kind := "Proxy"
				if fn == "NewVisitorCommand" {
					kind = "Visitor"
				}
				if err := e.site("run"+kind, name, obj); err != nil {
					return err
				}
				return e.site("runClient", name, cfg)
			}
		}
		return nil
	case *ast.IfStmt:
		if v.Init == nil && v.Else == nil {
			cond := render(v.Cond)
			if strings.HasSuffix(cond, " == nil") && len(v.Body.List) == 1 && strings.HasPrefix(srcText(e.fset, v.Body.List[0]), "panic(") {
				return nil
			}
			if cond == "slices.Contains(visitorTypes, v1.VisitorType(typ))" && where == "perCommand" {
				for _, b := range v.Body.List {
					if err := e.stmt(b, where); err != nil {
						return err
					}
				}
				return nil
			}
		}
		return fmt.Errorf("init(): unsupported if statement: %s", srcText(e.fset, s))
	case *ast.ExprStmt:
		call, ok := v.X.(*ast.CallExpr)
		if !ok {
			break
		}
		fn := render(call.Fun)
		switch {
		case fn == "config.RegisterClientCommonConfigFlags" && len(call.Args) == 2:
			cmd, ok1 := identName(call.Args[0])
			cfg, ok2 := addrOfIdent(call.Args[1])
			if ok1 && ok2 {
				return e.site("regClient", cmd, cfg)
			}
		case (fn == "config.RegisterProxyFlags" || fn == "config.RegisterVisitorFlags") && len(call.Args) == 2:
			cmd, ok1 := identName(call.Args[0])
			obj, ok2 := identName(call.Args[1])
			if ok1 && ok2 {
				role := "regProxy"
				if fn == "config.RegisterVisitorFlags" {
					role = "regVisitor"
				}
				return e.site(role, cmd, obj)
			}
		case strings.HasSuffix(fn, ".AddCommand") && len(call.Args) == 1:
			parent := strings.TrimSuffix(fn, ".AddCommand")
			child, ok := identName(call.Args[0])
			if ok {
				if parent != "rootCmd" {
					if _, err := e.scopeOf(parent); err != nil {
						return err
					}
				}
				if _, err := e.scopeOf(child); err != nil {
					return err
				}
				e.fx.Adds = append(e.fx.Adds, [2]string{parent, child})
				return nil
			}
		}
	}
	return fmt.Errorf("init(): unsupported statement (%s): %s", where, srcText(e.fset, s))
}

// typeNames: `var proxyTypes = []v1.ProxyType{v1.ProxyTypeTCP, …}` → ["tcp", …]
func typeNames(fi *fileInfo, varName string, consts map[string]string) ([]string, error) {
	e, ok := fi.vars[varName]
	if !ok {
		return nil, fmt.Errorf("var %s not found", varName)
	}
	cl, ok := e.(*ast.CompositeLit)
	if !ok {
		return nil, fmt.Errorf("var %s is not a composite literal", varName)
	}
	out := []string{}
	for _, el := range cl.Elts {
		sel, ok := el.(*ast.SelectorExpr)
		if !ok || render(sel.X) != "v1" {
			return nil, fmt.Errorf("%s: unexpected element %s", varName, render(el))
		}
		s, ok := consts[sel.Sel.Name]
		if !ok {
			return nil, fmt.Errorf("%s: constant v1.%s not found", varName, sel.Sel.Name)
		}
		out = append(out, s)
	}
	return out, nil
}

// runClosure: `return &cobra.Command{…, Run: func(…) { body }}` → statements of body
func runClosure(fset *token.FileSet, fd *ast.FuncDecl, field string) ([]string, error) {
	var lit *ast.CompositeLit
	if len(fd.Body.List) == 1 {
		if r, ok := fd.Body.List[0].(*ast.ReturnStmt); ok && len(r.Results) == 1 {
			if u, ok := r.Results[0].(*ast.UnaryExpr); ok && u.Op == token.AND {
				lit, _ = u.X.(*ast.CompositeLit)
			}
		}
	}
	if lit == nil {
		return nil, fmt.Errorf("%s: expected a single `return &cobra.Command{…}`", fd.Name.Name)
	}
	return closureOfLit(fset, lit, field, fd.Name.Name)
}

func closureOfLit(fset *token.FileSet, lit *ast.CompositeLit, field, what string) ([]string, error) {
	for _, el := range lit.Elts {
		kvx, ok := el.(*ast.KeyValueExpr)
		if !ok || render(kvx.Key) != field {
			continue
		}
		fl, ok := kvx.Value.(*ast.FuncLit)
		if !ok {
			return nil, fmt.Errorf("%s: %s is not a function literal", what, field)
		}
		out := []string{}
		for _, s := range fl.Body.List {
			out = append(out, srcText(fset, s))
		}
		return out, nil
	}
	return nil, fmt.Errorf("%s: no %s field", what, field)
}

func extractCmdWire(repo string) (*cmdWireFacts, error) {
	fset := token.NewFileSet()
	fx := &cmdWireFacts{}
	consts := map[string]string{}
	for _, f := range []string{"pkg/config/v1/proxy.go", "pkg/config/v1/visitor.go"} {
		fi, err := loadFile(fset, filepath.Join(repo, f))
		if err != nil {
			return nil, err
		}
		for k, v := range fi.consts {
			consts[k] = v
		}
	}
	px, err := loadFile(fset, filepath.Join(repo, "cmd/frpc/sub/proxy.go"))
	if err != nil {
		return nil, err
	}
	if fx.ProxyTypes, err = typeNames(px, "proxyTypes", consts); err != nil {
		return nil, err
	}
	if fx.VisitorTypes, err = typeNames(px, "visitorTypes", consts); err != nil {
		return nil, err
	}
	// init() is not in fileInfo.funcs when several exist; find it directly
	var initFn *ast.FuncDecl
	for _, d := range px.f.Decls {
		if fd, ok := d.(*ast.FuncDecl); ok && fd.Recv == nil && fd.Name.Name == "init" {
			if initFn != nil {
				return nil, fmt.Errorf("cmd/frpc/sub/proxy.go: more than one init()")
			}
			initFn = fd
		}
	}
	if initFn == nil {
		return nil, fmt.Errorf("cmd/frpc/sub/proxy.go: init() not found")
	}
	env := &cmdScopeEnv{scope: map[string]string{}, fx: fx, fset: fset}
	loops := 0
	for _, s := range initFn.Body.List {
		if rs, ok := s.(*ast.RangeStmt); ok {
			if render(rs.X) != "proxyTypes" || render(rs.Value) != "typ" || rs.Tok != token.DEFINE {
				return nil, fmt.Errorf("init(): unexpected loop header: %s", srcText(fset, rs.X))
			}
			loops++
			for _, b := range rs.Body.List {
				if err := env.stmt(b, "perCommand"); err != nil {
					return nil, err
				}
			}
			continue
		}
		if loops > 0 {
			return nil, fmt.Errorf("init(): statement after the per-type loop: %s", srcText(fset, s))
		}
		if err := env.stmt(s, "shared"); err != nil {
			return nil, err
		}
	}
	if loops != 1 {
		return nil, fmt.Errorf("init(): expected exactly one `for _, typ := range proxyTypes`, found %d", loops)
	}
	for name, dst := range map[string]*[]string{"NewProxyCommand": &fx.ProxyRun, "NewVisitorCommand": &fx.VisitorRun} {
		fd, ok := px.funcs[name]
		if !ok {
			return nil, fmt.Errorf("cmd/frpc/sub/proxy.go: %s not found", name)
		}
		names := []string{}
		for _, p := range fd.Type.Params.List {
			for _, n := range p.Names {
				names = append(names, n.Name)
			}
		}
		if strings.Join(names, ",") != "name,c,clientCfg" {
			return nil, fmt.Errorf("%s: unexpected parameter names %v", name, names)
		}
		steps, err := runClosure(fset, fd, "Run")
		if err != nil {
			return nil, err
		}
		*dst = steps
	}

	// cmd/frps/root.go
	rt, err := loadFile(fset, filepath.Join(repo, "cmd/frps/root.go"))
	if err != nil {
		return nil, err
	}
	var sInit *ast.FuncDecl
	for _, d := range rt.f.Decls {
		if fd, ok := d.(*ast.FuncDecl); ok && fd.Recv == nil && fd.Name.Name == "init" {
			if sInit != nil {
				return nil, fmt.Errorf("cmd/frps/root.go: more than one init()")
			}
			sInit = fd
		}
	}
	if sInit == nil {
		return nil, fmt.Errorf("cmd/frps/root.go: init() not found")
	}
	for _, s := range sInit.Body.List {
		txt := srcText(fset, s)
		fx.FrpsInit = append(fx.FrpsInit, txt)
		if es, ok := s.(*ast.ExprStmt); ok {
			if call, ok := es.X.(*ast.CallExpr); ok && render(call.Fun) == "config.RegisterServerConfigFlags" {
				if len(call.Args) != 2 || render(call.Args[0]) != "rootCmd" {
					return nil, fmt.Errorf("cmd/frps/root.go init(): unexpected %s", txt)
				}
				obj, ok := addrOfIdent(call.Args[1])
				if !ok || fx.FrpsRegObj != "" {
					return nil, fmt.Errorf("cmd/frps/root.go init(): unexpected %s", txt)
				}
				fx.FrpsRegObj = obj
			}
		}
	}
	if fx.FrpsRegObj == "" {
		return nil, fmt.Errorf("cmd/frps/root.go init(): RegisterServerConfigFlags(rootCmd, &obj) not found")
	}
	// the registered object must be a package-level variable (init and RunE are different functions)
	for _, d := range rt.f.Decls {
		if gd, ok := d.(*ast.GenDecl); ok && gd.Tok == token.VAR {
			for _, sp := range gd.Specs {
				if vs, ok := sp.(*ast.ValueSpec); ok {
					for _, n := range vs.Names {
						if n.Name == fx.FrpsRegObj && render(vs.Type) == "v1.ServerConfig" {
							fx.FrpsObjPkgLevel = true
						}
					}
				}
			}
		}
	}
	rootLit, ok := rt.vars["rootCmd"]
	if !ok {
		return nil, fmt.Errorf("cmd/frps/root.go: var rootCmd not found")
	}
	u, ok := rootLit.(*ast.UnaryExpr)
	if !ok {
		return nil, fmt.Errorf("cmd/frps/root.go: rootCmd is not &cobra.Command{…}")
	}
	lit, ok := u.X.(*ast.CompositeLit)
	if !ok {
		return nil, fmt.Errorf("cmd/frps/root.go: rootCmd is not &cobra.Command{…}")
	}
	if fx.FrpsRun, err = closureOfLit(fset, lit, "RunE", "frps rootCmd"); err != nil {
		return nil, err
	}
	return fx, nil
}

func leanStrList(xs []string, indent string) string {
	if len(xs) == 0 {
		return "[]"
	}
	var b strings.Builder
	b.WriteString("[\n")
	for i, x := range xs {
		sep := ","
		if i == len(xs)-1 {
			sep = " ]"
		}
		fmt.Fprintf(&b, "%s%s%s  -- %s\n", indent, leanBytes(x), sep, strings.ReplaceAll(x, "\n", " "))
	}
	return strings.TrimRight(b.String(), "\n")
}

func emitCmdWireLean(fx *cmdWireFacts) string {
	var b strings.Builder
	w := func(f string, a ...any) { fmt.Fprintf(&b, f, a...) }
	w("/-\n  GENERATED by `translate CmdWire` — do not edit.\n")
	w("  Source: cmd/frpc/sub/proxy.go (init(), NewProxyCommand, NewVisitorCommand), cmd/frps/root.go (init(), rootCmd.RunE).\n-/\n")
	w("import Frp.Model.Str\nnamespace Frp\nnamespace Gen\nnamespace CmdWire\n\n")
	w(`/-- where a variable of init() is declared: inside the body of the per-type loop (a fresh object for every
    sub-command) or before it (one object shared by all sub-commands) -/
inductive Scope
  | perCommand | shared
  deriving DecidableEq, Repr

/-- what a call of init() does with a configuration object: hands it to the Run closure of a command
    (New…Command argument) or binds the command's flags to it (Register…Flags argument) -/
inductive Role
  | runClient | regClient | runProxy | regProxy | runVisitor | regVisitor
  deriving DecidableEq, Repr

structure Site where
  role : Role
  cmd : Str
  obj : Str
  scope : Scope
  cmdScope : Scope
  deriving DecidableEq, Repr

`)
	w("/-- the calls of init() in cmd/frpc/sub/proxy.go, in source order -/\ndef frpcSites : List Site := [\n")
	for i, s := range fx.Sites {
		sep := ","
		if i == len(fx.Sites)-1 {
			sep = " ]"
		}
		w("  ⟨.%s, %s, %s, .%s, .%s⟩%s  -- %s: command %s, object %s\n", s.Role, leanBytes(s.Cmd), leanBytes(s.Obj), s.Scope, s.CmdScope, sep, s.Role, s.Cmd, s.Obj)
	}
	w("\n/-- `parent.AddCommand(child)` calls of that init() -/\ndef frpcAdds : List (Str × Str) := [")
	for i, a := range fx.Adds {
		if i > 0 {
			w(", ")
		}
		w("(%s, %s)", leanBytes(a[0]), leanBytes(a[1]))
	}
	w("]  -- ")
	for _, a := range fx.Adds {
		w("%s←%s ", a[0], a[1])
	}
	w("\n\n/-- proxyTypes / visitorTypes of cmd/frpc/sub/proxy.go -/\n")
	w("def proxyTypes : List Str := %s\n", leanStrList(fx.ProxyTypes, "  "))
	w("def visitorTypes : List Str := %s\n\n", leanStrList(fx.VisitorTypes, "  "))
	w("/-- the statements of the Run closure NewProxyCommand(name, c, clientCfg) returns -/\ndef proxyRun : List Str := %s\n\n", leanStrList(fx.ProxyRun, "  "))
	w("/-- the statements of the Run closure NewVisitorCommand(name, c, clientCfg) returns -/\ndef visitorRun : List Str := %s\n\n", leanStrList(fx.VisitorRun, "  "))
	w("/-- cmd/frps/root.go: the statements of init() -/\ndef frpsInit : List Str := %s\n\n", leanStrList(fx.FrpsInit, "  "))
	w("/-- the object `config.RegisterServerConfigFlags(rootCmd, &obj)` binds the flags to, and whether it is a\n    package-level `v1.ServerConfig` -/\n")
	w("def frpsRegObj : Str := %s  -- %s\ndef frpsRegObjPkgLevel : Bool := %v\n\n", leanBytes(fx.FrpsRegObj), fx.FrpsRegObj, fx.FrpsObjPkgLevel)
	w("/-- the statements of rootCmd.RunE of frps -/\ndef frpsRun : List Str := %s\n\n", leanStrList(fx.FrpsRun, "  "))
	w("end CmdWire\nend Gen\nend Frp\n")
	return b.String()
}

func genCmdWire(repo, out string) error {
	fx, err := extractCmdWire(repo)
	if err != nil {
		return err
	}
	src := emitCmdWireLean(fx)
	if err := os.MkdirAll(out, 0o755); err != nil {
		return err
	}
	target := filepath.Join(out, "CmdWire.lean")
	if old, err := os.ReadFile(target); err != nil || string(old) != src {
		return os.WriteFile(target, []byte(src), 0o644)
	}
	return nil
}
