package main

// Generator CodecFacts (C02): WHERE client/proxy/proxy.go BaseProxy.HandleTCPWorkConnection recycles the pooled
// snappy reader / writer of a compressed work connection, read from the source with go/ast and written to
// lean/Frp/Gen/CodecFacts.lean as a `CodecPool.Disc`:
//
//	anchors (top-level statements of the function, in source order)
//	  wrap     the statement that calls libio.WithCompressionFromPool; the name its second result is bound to is
//	           the recycle function
//	  plugin   `if pxy.proxyPlugin != nil { … .Handle(…) … return }`
//	  join     the statement that calls libio.Join
//	recycle sites = every call of the recycle function in the function body:
//	  a `defer` registered before / inside the plugin branch   → runs when the plugin path returns  (pluginRelAtReturn)
//	                                                              and on every later return          (errRel, +1 plainRel)
//	  a `defer` registered after the plugin branch, before Join → runs on the error returns         (errRel, +1 plainRel)
//	  a direct call after Join                                  → +1 plainRel
//	  a direct call inside the plugin branch                    → pluginRelAtReturn
//	  anything else (a direct call before Join on the plain path, a site inside a closure that is not deferred)
//	           → BROKEN TIE: the shape is not one the model knows
//	queueingPlugins = the client plugins whose Handle neither joins nor serves the connection itself but only
//	  hands it to a listener (`….PutConn(…)`) — the connection stays in use after Handle returned.
//
// Fails ("BROKEN TIE") when an anchor is missing.

import (
	"fmt"
	"go/ast"
	"go/parser"
	"go/token"
	"os"
	"path/filepath"
	"sort"
	"strings"
)

func init() { generators["CodecFacts"] = genCodecFacts }

func cfCalls(n ast.Node, pred func(*ast.CallExpr) bool) bool {
	found := false
	ast.Inspect(n, func(x ast.Node) bool {
		if c, ok := x.(*ast.CallExpr); ok && pred(c) {
			found = true
		}
		return !found
	})
	return found
}

func cfIsSel(c *ast.CallExpr, pkg, name string) bool {
	s, ok := c.Fun.(*ast.SelectorExpr)
	if !ok || s.Sel.Name != name {
		return false
	}
	if pkg == "" {
		return true
	}
	id, ok := s.X.(*ast.Ident)
	return ok && id.Name == pkg
}

func genCodecFacts(repo, out string) error {
	fset := token.NewFileSet()
	src := filepath.Join(repo, "client", "proxy", "proxy.go")
	f, err := parser.ParseFile(fset, src, nil, 0)
	if err != nil {
		return err
	}
	var fn *ast.FuncDecl
	for _, d := range f.Decls {
		if fd, ok := d.(*ast.FuncDecl); ok && fd.Name.Name == "HandleTCPWorkConnection" && fd.Recv != nil {
			fn = fd
		}
	}
	if fn == nil || fn.Body == nil {
		return fail("client/proxy/proxy.go: method HandleTCPWorkConnection not found")
	}
	// the recycle function's name
	recycle := ""
	ast.Inspect(fn.Body, func(x ast.Node) bool {
		as, ok := x.(*ast.AssignStmt)
		if !ok || len(as.Rhs) != 1 || len(as.Lhs) != 2 {
			return true
		}
		if c, ok := as.Rhs[0].(*ast.CallExpr); ok && cfIsSel(c, "libio", "WithCompressionFromPool") {
			if id, ok := as.Lhs[1].(*ast.Ident); ok {
				recycle = id.Name
			}
		}
		return true
	})
	if recycle == "" || recycle == "_" {
		return fail("HandleTCPWorkConnection: no `x, recycle = libio.WithCompressionFromPool(…)` (the objects are never recycled, or the wrap changed)")
	}
	isRecycle := func(c *ast.CallExpr) bool {
		id, ok := c.Fun.(*ast.Ident)
		return ok && id.Name == recycle
	}
	wrap, plugin, join := -1, -1, -1
	for i, st := range fn.Body.List {
		if cfCalls(st, func(c *ast.CallExpr) bool { return cfIsSel(c, "libio", "WithCompressionFromPool") }) && wrap < 0 {
			wrap = i
		}
		if ifs, ok := st.(*ast.IfStmt); ok && plugin < 0 &&
			cfCalls(ifs.Body, func(c *ast.CallExpr) bool { return cfIsSel(c, "", "Handle") }) {
			hasRet := false
			for _, b := range ifs.Body.List {
				if _, ok := b.(*ast.ReturnStmt); ok {
					hasRet = true
				}
			}
			if !hasRet {
				return fail("HandleTCPWorkConnection: the plugin branch does not return")
			}
			plugin = i
		}
		if cfCalls(st, func(c *ast.CallExpr) bool { return cfIsSel(c, "libio", "Join") }) && join < 0 {
			join = i
		}
	}
	if wrap < 0 || plugin < 0 || join < 0 || !(wrap < plugin && plugin < join) {
		return fail("HandleTCPWorkConnection: anchors wrap=%d plugin=%d join=%d not found in that order", wrap, plugin, join)
	}
	plainRel, pluginRel, errRel := 0, false, false
	var sites []string
	for i, st := range fn.Body.List {
		// walk the statement keeping track of an enclosing defer / function literal
		var walk func(n ast.Node, deferred, inLit bool) error
		walk = func(n ast.Node, deferred, inLit bool) error {
			var werr error
			ast.Inspect(n, func(x ast.Node) bool {
				if werr != nil || x == nil {
					return false
				}
				switch v := x.(type) {
				case *ast.DeferStmt:
					if isRecycle(v.Call) {
						werr = walk(v.Call, true, inLit) // `defer recycle()`
					} else {
						werr = walk(v.Call, true, inLit) // `defer func() { … recycle() … }()`
					}
					return false
				case *ast.FuncLit:
					if x != n {
						werr = walk(v.Body, deferred, !deferred)
						return false
					}
				case *ast.CallExpr:
					if isRecycle(v) {
						pos := fset.Position(v.Pos())
						switch {
						case inLit && !deferred:
							werr = fail("proxy.go:%d: the recycle function is called inside a closure that is not deferred", pos.Line)
						case deferred && i <= plugin:
							pluginRel, errRel = true, true
							plainRel++
							sites = append(sites, fmt.Sprintf("line %d: defer, registered before the plugin branch returns", pos.Line))
						case deferred && i < join:
							errRel = true
							plainRel++
							sites = append(sites, fmt.Sprintf("line %d: defer, registered after the plugin branch and before Join", pos.Line))
						case deferred:
							plainRel++
							sites = append(sites, fmt.Sprintf("line %d: defer, registered after Join", pos.Line))
						case i == plugin:
							pluginRel = true
							sites = append(sites, fmt.Sprintf("line %d: call inside the plugin branch", pos.Line))
						case i > join:
							plainRel++
							sites = append(sites, fmt.Sprintf("line %d: call after Join returned", pos.Line))
						default:
							werr = fail("proxy.go:%d: the recycle function is called before Join on the plain path", pos.Line)
						}
					}
				}
				return true
			})
			return werr
		}
		if err := walk(st, false, false); err != nil {
			return err
		}
	}

	// which client plugins only queue the connection
	var queueing []string
	pdir := filepath.Join(repo, "pkg", "plugin", "client")
	ents, err := os.ReadDir(pdir)
	if err != nil {
		return err
	}
	for _, e := range ents {
		if !strings.HasSuffix(e.Name(), ".go") || strings.HasSuffix(e.Name(), "_test.go") {
			continue
		}
		pf, err := parser.ParseFile(fset, filepath.Join(pdir, e.Name()), nil, 0)
		if err != nil {
			return err
		}
		for _, d := range pf.Decls {
			fd, ok := d.(*ast.FuncDecl)
			if !ok || fd.Name.Name != "Handle" || fd.Recv == nil || fd.Body == nil {
				continue
			}
			puts := cfCalls(fd.Body, func(c *ast.CallExpr) bool { return cfIsSel(c, "", "PutConn") })
			joins := cfCalls(fd.Body, func(c *ast.CallExpr) bool { return cfIsSel(c, "libio", "Join") })
			if puts && !joins {
				queueing = append(queueing, strings.TrimSuffix(e.Name(), ".go"))
			}
		}
	}
	sort.Strings(queueing)
	for _, need := range []string{"http2http", "http2https", "https2http", "https2https"} {
		if i := sort.SearchStrings(queueing, need); i >= len(queueing) || queueing[i] != need {
			return fail("pkg/plugin/client/%s.go: Handle no longer just queues the connection (PutConn)", need)
		}
	}

	var b strings.Builder
	b.WriteString("/- GENERATED by /verif/translate (generator CodecFacts) from client/proxy/proxy.go and pkg/plugin/client/*.go — do not edit. -/\n")
	b.WriteString("import Frp.Model.CodecPool\nnamespace Frp.Gen.CodecFacts\nopen Frp.CodecPool\n\n")
	b.WriteString("/-- HandleTCPWorkConnection: the calls of `" + recycle + "`\n")
	for _, s := range sites {
		b.WriteString("      " + s + "\n")
	}
	b.WriteString("-/\n")
	fmt.Fprintf(&b, "def disc : Disc := { plainRel := %d, pluginRelAtReturn := %v, errRel := %v }\n\n", plainRel, pluginRel, errRel)
	b.WriteString("/-- client plugins whose `Handle` only hands the connection to a listener (it stays in use after `Handle` returned) -/\n")
	q := make([]string, len(queueing))
	for i, s := range queueing {
		q[i] = fmt.Sprintf("%q", s)
	}
	b.WriteString("def queueingPlugins : List String := [" + strings.Join(q, ", ") + "]\n\nend Frp.Gen.CodecFacts\n")

	if err := os.MkdirAll(out, 0o755); err != nil {
		return err
	}
	target := filepath.Join(out, "CodecFacts.lean")
	if old, err := os.ReadFile(target); err == nil && string(old) == b.String() {
		return nil // unchanged: keep mtime so lake does not rebuild
	}
	return os.WriteFile(target, []byte(b.String()), 0o644)
}
