package main

// Generator PluginSiteFacts (C15): where the heartbeat of a session is counted, read from server/*.go with
// go/ast and written to lean/Frp/Gen/PluginSiteFacts.lean.  The hand-written call-site model
// (Frp/Model/PluginSite.lean) stores `lastPing` only on the branch of handlePing on which the Ping chain and
// VerifyPing passed, and lets nothing else but NewControl write it; these facts are what that rests on.
//
//	handlePing       the top-level statements of (*Control).handlePing, classified in source order:
//	                   chain   `…, err := ctl.pluginManager.Ping(…)`
//	                   verify  `if err == nil { … err = ctl.authVerifier.VerifyPing(…) }`
//	                   refuse  `if err != nil { … return }`            (no else; the body ends with return)
//	                   store   `ctl.lastPing.Store(…)`                 (an expression statement of its own)
//	                   pong    a statement that sends a `msg.Pong` and is none of the above
//	                   nested-store  any other statement with a `lastPing.Store` somewhere inside
//	                   other   everything else
//	refuseSendsError the body of the `refuse` statement sends a `msg.Pong` with an `Error` member
//	lastPingWriters  every function of server/*.go (tests excluded) that calls `….lastPing.Store(`, as "file:func"
//	hbOffCond        heartbeatWorker: the condition of the first `if` whose body is a bare `return`
//	hbCloseCond      heartbeatWorker: the condition of the `if` whose body calls `ctl.conn.Close()`
//	hbPeriod         heartbeatWorker: the period argument of wait.Until
//
// Fails ("BROKEN TIE") when an anchor is missing.

import (
	"bytes"
	"fmt"
	"go/ast"
	"go/parser"
	"go/printer"
	"go/token"
	"os"
	"path/filepath"
	"sort"
	"strings"
)

func init() { generators["PluginSiteFacts"] = genPluginSiteFacts }

func psfSrc(fset *token.FileSet, n ast.Node) string {
	var b bytes.Buffer
	_ = printer.Fprint(&b, fset, n)
	return strings.Join(strings.Fields(b.String()), " ")
}

func psfLeanStr(s string) string {
	return "\"" + strings.NewReplacer("\\", "\\\\", "\"", "\\\"").Replace(s) + "\""
}

// x.y.z as "x.y.z" ("" if the expression is not a chain of selectors over an identifier)
func psfPath(e ast.Expr) string {
	switch v := e.(type) {
	case *ast.Ident:
		return v.Name
	case *ast.SelectorExpr:
		p := psfPath(v.X)
		if p == "" {
			return ""
		}
		return p + "." + v.Sel.Name
	}
	return ""
}

func psfCallIs(n ast.Node, path string) bool {
	c, ok := n.(*ast.CallExpr)
	return ok && psfPath(c.Fun) == path
}

func psfContainsCall(n ast.Node, suffix string) bool {
	found := false
	ast.Inspect(n, func(x ast.Node) bool {
		if c, ok := x.(*ast.CallExpr); ok && strings.HasSuffix(psfPath(c.Fun), suffix) {
			found = true
		}
		return true
	})
	return found
}

// a composite literal msg.Pong{…} somewhere inside; withError: it has an `Error:` key
func psfPongLit(n ast.Node) (found, withError bool) {
	ast.Inspect(n, func(x ast.Node) bool {
		cl, ok := x.(*ast.CompositeLit)
		if !ok || psfPath(cl.Type) != "msg.Pong" {
			return true
		}
		found = true
		for _, el := range cl.Elts {
			if kv, ok := el.(*ast.KeyValueExpr); ok {
				if id, ok := kv.Key.(*ast.Ident); ok && id.Name == "Error" {
					withError = true
				}
			}
		}
		return true
	})
	return
}

func psfIsErrCmp(e ast.Expr, op token.Token) bool {
	b, ok := e.(*ast.BinaryExpr)
	if !ok || b.Op != op {
		return false
	}
	x, ok1 := b.X.(*ast.Ident)
	y, ok2 := b.Y.(*ast.Ident)
	return ok1 && ok2 && x.Name == "err" && y.Name == "nil"
}

func genPluginSiteFacts(repo, out string) error {
	fset := token.NewFileSet()
	dir := filepath.Join(repo, "server")
	ents, err := os.ReadDir(dir)
	if err != nil {
		return err
	}
	var writers []string
	var control *ast.File
	for _, e := range ents {
		name := e.Name()
		if e.IsDir() || !strings.HasSuffix(name, ".go") || strings.HasSuffix(name, "_test.go") {
			continue
		}
		f, err := parser.ParseFile(fset, filepath.Join(dir, name), nil, 0)
		if err != nil {
			return err
		}
		if name == "control.go" {
			control = f
		}
		for _, d := range f.Decls {
			fd, ok := d.(*ast.FuncDecl)
			if !ok || fd.Body == nil {
				continue
			}
			if psfContainsCall(fd.Body, "lastPing.Store") {
				writers = append(writers, name+":"+fd.Name.Name)
			}
		}
	}
	sort.Strings(writers)
	if control == nil {
		return fail("server/control.go not found")
	}
	hp := sfMethod(control, "Control", "handlePing")
	if hp == nil || hp.Body == nil {
		return fail("server/control.go: (*Control).handlePing not found")
	}
	var shape []string
	refuseSendsError := false
	for _, st := range hp.Body.List {
		kind := "other"
		switch v := st.(type) {
		case *ast.AssignStmt:
			if len(v.Rhs) == 1 && psfCallIs(v.Rhs[0], "ctl.pluginManager.Ping") && len(v.Lhs) == 2 {
				if id, ok := v.Lhs[1].(*ast.Ident); ok && id.Name == "err" {
					kind = "chain"
				}
			}
		case *ast.IfStmt:
			switch {
			case v.Init == nil && v.Else == nil && psfIsErrCmp(v.Cond, token.EQL):
				for _, s := range v.Body.List {
					if as, ok := s.(*ast.AssignStmt); ok && len(as.Lhs) == 1 && len(as.Rhs) == 1 &&
						psfPath(as.Lhs[0]) == "err" && as.Tok == token.ASSIGN && psfCallIs(as.Rhs[0], "ctl.authVerifier.VerifyPing") {
						kind = "verify"
					}
				}
			case v.Init == nil && v.Else == nil && psfIsErrCmp(v.Cond, token.NEQ):
				if n := len(v.Body.List); n > 0 {
					if r, ok := v.Body.List[n-1].(*ast.ReturnStmt); ok && len(r.Results) == 0 {
						kind = "refuse"
						_, refuseSendsError = psfPongLit(v.Body)
					}
				}
			}
		case *ast.ExprStmt:
			if psfCallIs(v.X, "ctl.lastPing.Store") {
				kind = "store"
			}
		}
		if kind == "other" || kind == "refuse" || kind == "verify" {
			if psfContainsCall(st, "lastPing.Store") {
				kind = "nested-store"
			}
		}
		if kind == "other" {
			if found, _ := psfPongLit(st); found {
				kind = "pong"
			}
		}
		shape = append(shape, kind)
	}
	hw := sfMethod(control, "Control", "heartbeatWorker")
	if hw == nil || hw.Body == nil {
		return fail("server/control.go: (*Control).heartbeatWorker not found")
	}
	hbOff, hbClose, hbPeriod := "", "", ""
	ast.Inspect(hw.Body, func(n ast.Node) bool {
		switch v := n.(type) {
		case *ast.IfStmt:
			if len(v.Body.List) == 1 {
				if r, ok := v.Body.List[0].(*ast.ReturnStmt); ok && len(r.Results) == 0 && hbOff == "" && hbClose == "" {
					hbOff = psfSrc(fset, v.Cond)
				}
			}
			if psfContainsCall(v.Body, "ctl.conn.Close") && hbClose == "" {
				hbClose = psfSrc(fset, v.Cond)
			}
		case *ast.CallExpr:
			if psfPath(v.Fun) == "wait.Until" && len(v.Args) == 3 {
				hbPeriod = psfSrc(fset, v.Args[1])
			}
		}
		return true
	})
	if hbOff == "" || hbClose == "" || hbPeriod == "" {
		return fail("server/control.go: heartbeatWorker: early return / closing `if` / wait.Until not found (%q, %q, %q)", hbOff, hbClose, hbPeriod)
	}

	var b strings.Builder
	b.WriteString("/- GENERATED by translate/gen_pluginsitefacts.go from the frp source tree. Do not edit. -/\n")
	b.WriteString("namespace Frp.Gen.PluginSiteFacts\n\n")
	strs := func(name string, l []string) {
		q := make([]string, len(l))
		for i, s := range l {
			q[i] = psfLeanStr(s)
		}
		fmt.Fprintf(&b, "def %s : List String :=\n  [%s]\n\n", name, strings.Join(q, ", "))
	}
	strs("handlePing", shape)
	fmt.Fprintf(&b, "def refuseSendsError : Bool := %s\n\n", sfBool(refuseSendsError))
	strs("lastPingWriters", writers)
	fmt.Fprintf(&b, "def hbOffCond : String := %s\n", psfLeanStr(hbOff))
	fmt.Fprintf(&b, "def hbCloseCond : String := %s\n", psfLeanStr(hbClose))
	fmt.Fprintf(&b, "def hbPeriod : String := %s\n", psfLeanStr(hbPeriod))
	b.WriteString("\nend Frp.Gen.PluginSiteFacts\n")
	return os.WriteFile(filepath.Join(out, "PluginSiteFacts.lean"), []byte(b.String()), 0o644)
}
