package main

// Generator PluginSiteFacts (C15): where the heartbeat of a session is counted, read from server/*.go with
// go/ast and written to lean/Frp/Gen/PluginSiteFacts.lean.  The hand-written call-site model
// (Frp/Model/PluginSite.lean) stores `lastPing` only on the branch of handlePing on which the Ping chain and
// VerifyPing passed, and lets nothing else but NewControl write it; these facts are what that rests on.
//
//	handlePing       the top-level statements of (*Control).handlePing, classified in source order:
//	                   chain   `…, err := ctl.pluginManager.Ping(…)`
//	                   verify  `if err == nil { … err = ctl.authVerifier.VerifyPing(…) }`
//	                   refuse  `if err != nil { … return }`            (no else; the body ends with return)
//	                   store   `ctl.lastPing.Store(…)`                 (an expression statement of its own)
//	                   pong    a statement that sends a `msg.Pong` and is none of the above
//	                   nested-store  any other statement with a `lastPing.Store` somewhere inside
//	                   other   everything else
//	refuseSendsError the body of the `refuse` statement sends a `msg.Pong` with an `Error` member
//	lastPingWriters  every function of server/*.go (tests excluded) that calls `….lastPing.Store(`, as "file:func"
//	hbOffCond        heartbeatWorker: the condition of the first `if` whose body is a bare `return`
//	hbCloseCond      heartbeatWorker: the condition of the `if` whose body calls `ctl.conn.Close()`
//	hbPeriod         heartbeatWorker: the period argument of wait.Until
//
//
// Order at the call sites that also check credentials (the chain runs first, the check reads what the chain returned):
//
//	registerWorkConn the top-level statements of (*Service).RegisterWorkConn (server/service.go):
//	                   chain   `retContent, err := svr.pluginManager.NewWorkConn(content)`
//	                   verify  `if err == nil { newMsg = &retContent.NewWorkConn … err = ….VerifyNewWorkConn(newMsg) }`: the
//	                           variable handed to the verifier is assigned from `retContent` earlier in that block
//	                   verify-original  such a block whose verifier argument is not a variable assigned from retContent
//	                   refuse  `if err != nil { … return … }`
//	                   effect  `return ctl.RegisterWorkConn(workConn)`
//	                   stray-chain / stray-verify / stray-effect  any other statement with such a call inside
//	loginCase        the statements of `case *msg.Login:` in (*Service).handleConnection: chain (`pluginManager.Login`),
//	                   verify (`if err == nil { m = &retContent.Login; err = svr.RegisterControl(conn, m, internal) }`), stray-*
//	registerControl  the top-level statements of (*Service).RegisterControl: verify (`if err := authVerifier.VerifyLogin(
//	                   loginMsg); err != nil { return err }`, loginMsg being the function's parameter), create (NewControl(…
//	                   loginMsg …)), add (ctlManager.Add), start (ctl.Start()), stray-verify
//	handlePing       `verify` now also demands `inMsg = &retContent.Ping` ahead of `VerifyPing(inMsg)` (else verify-original)
//	userConn         the top-level statements of (*BaseProxy).handleUserTCPConnection (server/proxy/proxy.go): chain
//	                   (`_, err := rc.PluginManager.NewUserConn(content)`), refuse (`if err != nil { … return }`), workconn (an
//	                   assignment from pxy.GetWorkConnFromPool), stray-chain
//	gateCallers      every call of a plugin manager method (….pluginManager.X / ….PluginManager.X) and of a Verify… / RegisterControl
//	                   in server/*.go and server/proxy/*.go (tests excluded) as "file:func:callee", with ":lit" appended when the
//	                   call stands inside a function literal (the CloseProxy notifications are started as `go func() {…}()`; a
//	                   gated chain is called by the goroutine of the occurrence itself, never through a closure handed to a
//	                   helper that might share one run between several occurrences)
//	userConnSpawn    how the accept loop hands a user connection on: the statement that calls handleUserTCPConnection
//
// Fails ("BROKEN TIE") when an anchor is missing.

import (
	"bytes"
	"fmt"
	"go/ast"
	"go/parser"
	"go/printer"
	"go/token"
	"os"
	"path/filepath"
	"sort"
	"strings"
)

func init() { generators["PluginSiteFacts"] = genPluginSiteFacts }

func psfSrc(fset *token.FileSet, n ast.Node) string {
	var b bytes.Buffer
	_ = printer.Fprint(&b, fset, n)
	return strings.Join(strings.Fields(b.String()), " ")
}

func psfLeanStr(s string) string {
	return "\"" + strings.NewReplacer("\\", "\\\\", "\"", "\\\"").Replace(s) + "\""
}

// x.y.z as "x.y.z" ("" if the expression is not a chain of selectors over an identifier)
func psfPath(e ast.Expr) string {
	switch v := e.(type) {
	case *ast.Ident:
		return v.Name
	case *ast.SelectorExpr:
		p := psfPath(v.X)
		if p == "" {
			return ""
		}
		return p + "." + v.Sel.Name
	}
	return ""
}

func psfCallIs(n ast.Node, path string) bool {
	c, ok := n.(*ast.CallExpr)
	return ok && psfPath(c.Fun) == path
}

func psfContainsCall(n ast.Node, suffix string) bool {
	found := false
	ast.Inspect(n, func(x ast.Node) bool {
		if c, ok := x.(*ast.CallExpr); ok && strings.HasSuffix(psfPath(c.Fun), suffix) {
			found = true
		}
		return true
	})
	return found
}

// a composite literal msg.Pong{…} somewhere inside; withError: it has an `Error:` key
func psfPongLit(n ast.Node) (found, withError bool) {
	ast.Inspect(n, func(x ast.Node) bool {
		cl, ok := x.(*ast.CompositeLit)
		if !ok || psfPath(cl.Type) != "msg.Pong" {
			return true
		}
		found = true
		for _, el := range cl.Elts {
			if kv, ok := el.(*ast.KeyValueExpr); ok {
				if id, ok := kv.Key.(*ast.Ident); ok && id.Name == "Error" {
					withError = true
				}
			}
		}
		return true
	})
	return
}

func psfIsErrCmp(e ast.Expr, op token.Token) bool {
	b, ok := e.(*ast.BinaryExpr)
	if !ok || b.Op != op {
		return false
	}
	x, ok1 := b.X.(*ast.Ident)
	y, ok2 := b.Y.(*ast.Ident)
	return ok1 && ok2 && x.Name == "err" && y.Name == "nil"
}

// `if err == nil { X = &retContent.F … err = <callSuffix>(… X …) }`: "verify" when the variable handed to the call (argument
// number argIdx) is one that was assigned from retContent earlier in the block, "verify-original" when the call is there
// but its argument is something else, "" when the block has no such call
func psfVerifyBlock(v *ast.IfStmt, callSuffix string, argIdx int) string {
	if v.Init != nil || v.Else != nil || !psfIsErrCmp(v.Cond, token.EQL) {
		return ""
	}
	rewritten := map[string]bool{}
	kind := ""
	for _, s := range v.Body.List {
		as, ok := s.(*ast.AssignStmt)
		if !ok || len(as.Lhs) != 1 || len(as.Rhs) != 1 || as.Tok != token.ASSIGN {
			if psfContainsCall(s, callSuffix) {
				return "verify-original"
			}
			continue
		}
		if u, ok := as.Rhs[0].(*ast.UnaryExpr); ok && u.Op == token.AND {
			if p := psfPath(u.X); strings.HasPrefix(p, "retContent.") {
				if id, ok := as.Lhs[0].(*ast.Ident); ok {
					rewritten[id.Name] = true
				}
			}
			continue
		}
		if c, ok := as.Rhs[0].(*ast.CallExpr); ok && strings.HasSuffix(psfPath(c.Fun), callSuffix) && psfPath(as.Lhs[0]) == "err" {
			if kind != "" {
				return "verify-original" // a second call
			}
			kind = "verify-original"
			if argIdx < len(c.Args) {
				if id, ok := c.Args[argIdx].(*ast.Ident); ok && rewritten[id.Name] {
					kind = "verify"
				}
			}
		}
	}
	return kind
}

func psfChainAssign(st ast.Stmt, path string) bool {
	v, ok := st.(*ast.AssignStmt)
	if !ok || len(v.Rhs) != 1 || len(v.Lhs) != 2 || !psfCallIs(v.Rhs[0], path) {
		return false
	}
	id, ok := v.Lhs[1].(*ast.Ident)
	return ok && id.Name == "err"
}

// `if err != nil { … return … }` without else
func psfRefuse(st ast.Stmt) bool {
	v, ok := st.(*ast.IfStmt)
	if !ok || v.Init != nil || v.Else != nil || !psfIsErrCmp(v.Cond, token.NEQ) || len(v.Body.List) == 0 {
		return false
	}
	_, isRet := v.Body.List[len(v.Body.List)-1].(*ast.ReturnStmt)
	return isRet
}

func psfStray(st ast.Stmt, kind string, pairs ...string) string {
	if kind != "other" {
		return kind
	}
	for i := 0; i+1 < len(pairs); i += 2 {
		if psfContainsCall(st, pairs[i]) {
			return pairs[i+1]
		}
	}
	return kind
}

// calls of gated manager methods / verifiers per function, ":lit" when inside a function literal
func psfGateCallers(file string, f *ast.File) []string {
	var out []string
	for _, d := range f.Decls {
		fd, ok := d.(*ast.FuncDecl)
		if !ok || fd.Body == nil {
			continue
		}
		var walk func(n ast.Node, lit bool)
		walk = func(n ast.Node, lit bool) {
			ast.Inspect(n, func(x ast.Node) bool {
				switch v := x.(type) {
				case *ast.FuncLit:
					if v != n {
						walk(v.Body, true)
						return false
					}
				case *ast.CallExpr:
					p := psfPath(v.Fun)
					parts := strings.Split(p, ".")
					callee := parts[len(parts)-1]
					hit := false
					if len(parts) >= 2 {
						recv := parts[len(parts)-2]
						if (recv == "pluginManager" || recv == "PluginManager") && callee != "Register" {
							hit = true
						}
					}
					if strings.HasPrefix(callee, "Verify") && len(parts) >= 2 && strings.HasSuffix(strings.ToLower(parts[len(parts)-2]), "verifier") {
						hit = true
					}
					if callee == "RegisterControl" {
						hit = true
					}
					if hit {
						e := file + ":" + fd.Name.Name + ":" + callee
						if lit {
							e += ":lit"
						}
						out = append(out, e)
					}
				}
				return true
			})
		}
		walk(fd.Body, false)
	}
	return out
}

func genPluginSiteFacts(repo, out string) error {
	fset := token.NewFileSet()
	dir := filepath.Join(repo, "server")
	ents, err := os.ReadDir(dir)
	if err != nil {
		return err
	}
	var writers, gateCallers []string
	var control, service, proxyGo *ast.File
	for _, e := range ents {
		name := e.Name()
		if e.IsDir() || !strings.HasSuffix(name, ".go") || strings.HasSuffix(name, "_test.go") {
			continue
		}
		f, err := parser.ParseFile(fset, filepath.Join(dir, name), nil, 0)
		if err != nil {
			return err
		}
		if name == "control.go" {
			control = f
		}
		if name == "service.go" {
			service = f
		}
		gateCallers = append(gateCallers, psfGateCallers(name, f)...)
		for _, d := range f.Decls {
			fd, ok := d.(*ast.FuncDecl)
			if !ok || fd.Body == nil {
				continue
			}
			if psfContainsCall(fd.Body, "lastPing.Store") {
				writers = append(writers, name+":"+fd.Name.Name)
			}
		}
	}
	sort.Strings(writers)
	if control == nil {
		return fail("server/control.go not found")
	}
	if service == nil {
		return fail("server/service.go not found")
	}
	pdir := filepath.Join(dir, "proxy")
	pents, err := os.ReadDir(pdir)
	if err != nil {
		return err
	}
	for _, e := range pents {
		name := e.Name()
		if e.IsDir() || !strings.HasSuffix(name, ".go") || strings.HasSuffix(name, "_test.go") {
			continue
		}
		f, err := parser.ParseFile(fset, filepath.Join(pdir, name), nil, 0)
		if err != nil {
			return err
		}
		if name == "proxy.go" {
			proxyGo = f
		}
		gateCallers = append(gateCallers, psfGateCallers("proxy/"+name, f)...)
	}
	sort.Strings(gateCallers)
	if proxyGo == nil {
		return fail("server/proxy/proxy.go not found")
	}

	// (*Service).RegisterWorkConn
	rw := sfMethod(service, "Service", "RegisterWorkConn")
	if rw == nil || rw.Body == nil {
		return fail("server/service.go: (*Service).RegisterWorkConn not found")
	}
	var workShape []string
	for _, st := range rw.Body.List {
		kind := "other"
		switch v := st.(type) {
		case *ast.AssignStmt:
			if psfChainAssign(st, "svr.pluginManager.NewWorkConn") {
				kind = "chain"
			}
		case *ast.IfStmt:
			if k := psfVerifyBlock(v, "VerifyNewWorkConn", 0); k != "" {
				kind = k
			} else if psfRefuse(st) {
				kind = "refuse"
			}
		case *ast.ReturnStmt:
			if len(v.Results) == 1 && psfCallIs(v.Results[0], "ctl.RegisterWorkConn") {
				kind = "effect"
			}
		}
		if kind == "refuse" && (psfContainsCall(st, "VerifyNewWorkConn") || psfContainsCall(st, "pluginManager.NewWorkConn") || psfContainsCall(st, "ctl.RegisterWorkConn")) {
			kind = "stray-in-refuse"
		}
		workShape = append(workShape, psfStray(st, kind, "pluginManager.NewWorkConn", "stray-chain", "VerifyNewWorkConn", "stray-verify", "ctl.RegisterWorkConn", "stray-effect"))
	}

	// (*Service).handleConnection, case *msg.Login
	hc := sfMethod(service, "Service", "handleConnection")
	if hc == nil || hc.Body == nil {
		return fail("server/service.go: (*Service).handleConnection not found")
	}
	var loginShape []string
	foundLogin := false
	ast.Inspect(hc.Body, func(n ast.Node) bool {
		cc, ok := n.(*ast.CaseClause)
		if !ok || len(cc.List) != 1 {
			return true
		}
		if st, ok := cc.List[0].(*ast.StarExpr); !ok || psfPath(st.X) != "msg.Login" {
			return true
		}
		foundLogin = true
		for _, st := range cc.Body {
			kind := "other"
			switch v := st.(type) {
			case *ast.AssignStmt:
				if psfChainAssign(st, "svr.pluginManager.Login") {
					kind = "chain"
				}
			case *ast.IfStmt:
				if k := psfVerifyBlock(v, "svr.RegisterControl", 1); k != "" {
					kind = k
				}
			}
			loginShape = append(loginShape, psfStray(st, kind, "pluginManager.Login", "stray-chain", "RegisterControl", "stray-verify"))
		}
		return false
	})
	if !foundLogin {
		return fail("server/service.go: handleConnection: `case *msg.Login:` not found")
	}

	// (*Service).RegisterControl
	rcF := sfMethod(service, "Service", "RegisterControl")
	if rcF == nil || rcF.Body == nil || rcF.Type.Params == nil || len(rcF.Type.Params.List) < 2 || len(rcF.Type.Params.List[1].Names) != 1 {
		return fail("server/service.go: (*Service).RegisterControl(conn, loginMsg, …) not found")
	}
	loginParam := rcF.Type.Params.List[1].Names[0].Name
	var regShape []string
	for _, st := range rcF.Body.List {
		kind := "other"
		switch v := st.(type) {
		case *ast.IfStmt:
			if as, ok := v.Init.(*ast.AssignStmt); ok && len(as.Rhs) == 1 {
				if c, ok := as.Rhs[0].(*ast.CallExpr); ok && strings.HasSuffix(psfPath(c.Fun), "authVerifier.VerifyLogin") && len(c.Args) == 1 {
					if id, ok := c.Args[0].(*ast.Ident); ok && id.Name == loginParam && psfIsErrCmp(v.Cond, token.NEQ) && len(v.Body.List) == 1 {
						if _, ok := v.Body.List[0].(*ast.ReturnStmt); ok {
							kind = "verify"
						}
					}
				}
			}
			if kind == "other" && psfContainsCall(v, "ctlManager.Add") {
				kind = "add"
			}
		case *ast.AssignStmt:
			if len(v.Rhs) == 1 {
				if c, ok := v.Rhs[0].(*ast.CallExpr); ok && psfPath(c.Fun) == "NewControl" {
					kind = "create-other"
					for _, a := range c.Args {
						if id, ok := a.(*ast.Ident); ok && id.Name == loginParam {
							kind = "create"
						}
					}
				}
			}
		case *ast.ExprStmt:
			if psfCallIs(v.X, "ctl.Start") {
				kind = "start"
			}
		}
		regShape = append(regShape, psfStray(st, kind, "VerifyLogin", "stray-verify"))
	}

	// (*BaseProxy).handleUserTCPConnection and the accept loop that starts it
	hu := sfMethod(proxyGo, "BaseProxy", "handleUserTCPConnection")
	if hu == nil || hu.Body == nil {
		return fail("server/proxy/proxy.go: (*BaseProxy).handleUserTCPConnection not found")
	}
	var userShape []string
	for _, st := range hu.Body.List {
		kind := "other"
		switch v := st.(type) {
		case *ast.AssignStmt:
			if len(v.Rhs) == 1 && len(v.Lhs) == 2 {
				if c, ok := v.Rhs[0].(*ast.CallExpr); ok {
					switch {
					case strings.HasSuffix(psfPath(c.Fun), "PluginManager.NewUserConn"):
						if id, ok := v.Lhs[1].(*ast.Ident); ok && id.Name == "err" {
							kind = "chain"
						}
					case psfPath(c.Fun) == "pxy.GetWorkConnFromPool":
						kind = "workconn"
					}
				}
			}
		case *ast.IfStmt:
			if v.Init == nil && v.Else == nil && psfIsErrCmp(v.Cond, token.NEQ) && len(v.Body.List) > 0 {
				if r, ok := v.Body.List[len(v.Body.List)-1].(*ast.ReturnStmt); ok && len(r.Results) == 0 {
					kind = "refuse"
				}
			}
		}
		if kind == "refuse" && psfContainsCall(st, "GetWorkConnFromPool") {
			kind = "stray-in-refuse"
		}
		userShape = append(userShape, psfStray(st, kind, "NewUserConn", "stray-chain", "GetWorkConnFromPool", "stray-workconn"))
	}
	userSpawn := ""
	for _, d := range proxyGo.Decls {
		fd, ok := d.(*ast.FuncDecl)
		if !ok || fd.Body == nil || fd.Name.Name == "handleUserTCPConnection" {
			continue
		}
		ast.Inspect(fd.Body, func(n ast.Node) bool {
			st, ok := n.(ast.Stmt)
			if !ok {
				return true
			}
			switch v := st.(type) {
			case *ast.GoStmt:
				if strings.HasSuffix(psfPath(v.Call.Fun), "handleUserTCPConnection") {
					userSpawn += fd.Name.Name + ": " + psfSrc(fset, v) + "; "
				}
			case *ast.ExprStmt:
				if c, ok := v.X.(*ast.CallExpr); ok && strings.HasSuffix(psfPath(c.Fun), "handleUserTCPConnection") {
					userSpawn += fd.Name.Name + ": " + psfSrc(fset, v) + "; "
				}
			}
			return true
		})
	}
	hp := sfMethod(control, "Control", "handlePing")
	if hp == nil || hp.Body == nil {
		return fail("server/control.go: (*Control).handlePing not found")
	}
	var shape []string
	refuseSendsError := false
	for _, st := range hp.Body.List {
		kind := "other"
		switch v := st.(type) {
		case *ast.AssignStmt:
			if len(v.Rhs) == 1 && psfCallIs(v.Rhs[0], "ctl.pluginManager.Ping") && len(v.Lhs) == 2 {
				if id, ok := v.Lhs[1].(*ast.Ident); ok && id.Name == "err" {
					kind = "chain"
				}
			}
		case *ast.IfStmt:
			switch {
			case v.Init == nil && v.Else == nil && psfIsErrCmp(v.Cond, token.EQL):
				if k := psfVerifyBlock(v, "ctl.authVerifier.VerifyPing", 0); k != "" {
					kind = k
				}
			case v.Init == nil && v.Else == nil && psfIsErrCmp(v.Cond, token.NEQ):
				if n := len(v.Body.List); n > 0 {
					if r, ok := v.Body.List[n-1].(*ast.ReturnStmt); ok && len(r.Results) == 0 {
						kind = "refuse"
						_, refuseSendsError = psfPongLit(v.Body)
					}
				}
			}
		case *ast.ExprStmt:
			if psfCallIs(v.X, "ctl.lastPing.Store") {
				kind = "store"
			}
		}
		if kind == "other" || kind == "refuse" || kind == "verify" || kind == "verify-original" {
			if psfContainsCall(st, "lastPing.Store") {
				kind = "nested-store"
			}
		}
		kind = psfStray(st, kind, "pluginManager.Ping", "stray-chain", "VerifyPing", "stray-verify")
		if kind == "other" {
			if found, _ := psfPongLit(st); found {
				kind = "pong"
			}
		}
		shape = append(shape, kind)
	}
	hw := sfMethod(control, "Control", "heartbeatWorker")
	if hw == nil || hw.Body == nil {
		return fail("server/control.go: (*Control).heartbeatWorker not found")
	}
	hbOff, hbClose, hbPeriod := "", "", ""
	ast.Inspect(hw.Body, func(n ast.Node) bool {
		switch v := n.(type) {
		case *ast.IfStmt:
			if len(v.Body.List) == 1 {
				if r, ok := v.Body.List[0].(*ast.ReturnStmt); ok && len(r.Results) == 0 && hbOff == "" && hbClose == "" {
					hbOff = psfSrc(fset, v.Cond)
				}
			}
			if psfContainsCall(v.Body, "ctl.conn.Close") && hbClose == "" {
				hbClose = psfSrc(fset, v.Cond)
			}
		case *ast.CallExpr:
			if psfPath(v.Fun) == "wait.Until" && len(v.Args) == 3 {
				hbPeriod = psfSrc(fset, v.Args[1])
			}
		}
		return true
	})
	if hbOff == "" || hbClose == "" || hbPeriod == "" {
		return fail("server/control.go: heartbeatWorker: early return / closing `if` / wait.Until not found (%q, %q, %q)", hbOff, hbClose, hbPeriod)
	}

	var b strings.Builder
	b.WriteString("/- GENERATED by translate/gen_pluginsitefacts.go from the frp source tree. Do not edit. -/\n")
	b.WriteString("namespace Frp.Gen.PluginSiteFacts\n\n")
	strs := func(name string, l []string) {
		q := make([]string, len(l))
		for i, s := range l {
			q[i] = psfLeanStr(s)
		}
		fmt.Fprintf(&b, "def %s : List String :=\n  [%s]\n\n", name, strings.Join(q, ", "))
	}
	strs("handlePing", shape)
	fmt.Fprintf(&b, "def refuseSendsError : Bool := %s\n\n", sfBool(refuseSendsError))
	strs("lastPingWriters", writers)
	fmt.Fprintf(&b, "def hbOffCond : String := %s\n", psfLeanStr(hbOff))
	fmt.Fprintf(&b, "def hbCloseCond : String := %s\n", psfLeanStr(hbClose))
	fmt.Fprintf(&b, "def hbPeriod : String := %s\n", psfLeanStr(hbPeriod))
	b.WriteString("\n")
	strs("registerWorkConn", workShape)
	strs("loginCase", loginShape)
	strs("registerControl", regShape)
	strs("userConn", userShape)
	strs("gateCallers", gateCallers)
	fmt.Fprintf(&b, "def userConnSpawn : String := %s\n", psfLeanStr(strings.TrimSpace(userSpawn)))
	b.WriteString("\nend Frp.Gen.PluginSiteFacts\n")
	return os.WriteFile(filepath.Join(out, "PluginSiteFacts.lean"), []byte(b.String()), 0o644)
}
