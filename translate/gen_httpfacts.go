package main

// Generator HttpFacts (C02): two syntactic facts about the files that relay HTTP exchanges
//
//	pkg/util/vhost/http.go   pkg/plugin/client/{http2http,http2https,https2http,https2https}.go
//
// read with go/ast and written to lean/Frp/Gen/HttpFacts.lean:
//
//	recoverSites   every `defer` in one of these files whose callee — a function literal, or a function /
//	               method declared in the same package — contains a call of the builtin `recover`:
//	               (file, enclosing function).  httputil.ReverseProxy aborts an answer whose body copy failed by
//	               panic(http.ErrAbortHandler); a recover between it and net/http's conn.serve turns the abort
//	               into a normal return (Frp/Model/HttpAbort.lean, `Env.recovers`).
//	transports     for every file its `httputil.ReverseProxy` literal's Transport: the fields set in the
//	               `http.Transport` literal with their value when it is an integer constant (durations in ms), or
//	               `explicit := false` when the ReverseProxy has no Transport field (http.DefaultTransport).
//	               (Frp/Model/ConnLimit.lean reads MaxConnsPerHost; the other limiting fields are listed so that
//	               a reader sees them.)
//
// BROKEN TIE: a file without exactly one ReverseProxy literal, a Transport field that is neither an
// `&http.Transport{…}` literal nor a variable bound to one in the same function.

import (
	"fmt"
	"go/ast"
	"go/parser"
	"go/token"
	"os"
	"path/filepath"
	"sort"
	"strconv"
	"strings"
)

func init() { generators["HttpFacts"] = genHttpFacts }

func hfIsBuiltinRecover(c *ast.CallExpr) bool {
	id, ok := c.Fun.(*ast.Ident)
	return ok && id.Name == "recover" && len(c.Args) == 0
}

func hfHasRecover(n ast.Node) bool {
	if n == nil {
		return false
	}
	return cfCalls(n, hfIsBuiltinRecover)
}

// `pkg.Name` composite literal type
func hfIsType(e ast.Expr, pkg, name string) bool {
	s, ok := e.(*ast.SelectorExpr)
	if !ok || s.Sel.Name != name {
		return false
	}
	id, ok := s.X.(*ast.Ident)
	return ok && id.Name == pkg
}

func hfLit(e ast.Expr, pkg, name string) *ast.CompositeLit {
	if u, ok := e.(*ast.UnaryExpr); ok && u.Op == token.AND {
		e = u.X
	}
	if cl, ok := e.(*ast.CompositeLit); ok && hfIsType(cl.Type, pkg, name) {
		return cl
	}
	return nil
}

// integer constants: 16, 60 * time.Second (ms), time.Second * 60, 0
func hfConst(e ast.Expr) (int, bool) {
	switch v := e.(type) {
	case *ast.BasicLit:
		if v.Kind == token.INT {
			n, err := strconv.Atoi(v.Value)
			return n, err == nil
		}
	case *ast.ParenExpr:
		return hfConst(v.X)
	case *ast.SelectorExpr:
		if id, ok := v.X.(*ast.Ident); ok && id.Name == "time" {
			switch v.Sel.Name {
			case "Millisecond":
				return 1, true
			case "Second":
				return 1000, true
			case "Minute":
				return 60000, true
			case "Hour":
				return 3600000, true
			}
		}
	case *ast.BinaryExpr:
		a, ok1 := hfConst(v.X)
		b, ok2 := hfConst(v.Y)
		if ok1 && ok2 {
			switch v.Op {
			case token.MUL:
				return a * b, true
			case token.ADD:
				return a + b, true
			}
		}
	}
	return 0, false
}

type hfTransport struct {
	file     string
	explicit bool
	fields   [][2]string // name, Lean `Option Nat`
}

func genHttpFacts(repo, out string) error {
	fset := token.NewFileSet()
	files := [][2]string{
		{"pkg/util/vhost", "http.go"},
		{"pkg/plugin/client", "http2http.go"}, {"pkg/plugin/client", "http2https.go"},
		{"pkg/plugin/client", "https2http.go"}, {"pkg/plugin/client", "https2https.go"},
	}
	// per package: which declared functions / methods contain recover()
	recoverFns := map[string]map[string]bool{}
	parsed := map[string]*ast.File{}
	for _, df := range files {
		dir := df[0]
		if recoverFns[dir] != nil {
			continue
		}
		recoverFns[dir] = map[string]bool{}
		ents, err := os.ReadDir(filepath.Join(repo, dir))
		if err != nil {
			return err
		}
		for _, e := range ents {
			if !strings.HasSuffix(e.Name(), ".go") || strings.HasSuffix(e.Name(), "_test.go") {
				continue
			}
			pf, err := parser.ParseFile(fset, filepath.Join(repo, dir, e.Name()), nil, 0)
			if err != nil {
				return err
			}
			parsed[dir+"/"+e.Name()] = pf
			for _, d := range pf.Decls {
				if fd, ok := d.(*ast.FuncDecl); ok && fd.Body != nil && hfHasRecover(fd.Body) {
					recoverFns[dir][fd.Name.Name] = true
				}
			}
		}
	}
	var sites [][3]string // file, function, line
	var trs []hfTransport
	for _, df := range files {
		dir, name := df[0], df[1]
		pf := parsed[dir+"/"+name]
		if pf == nil {
			return fail("%s/%s not found", dir, name)
		}
		for _, d := range pf.Decls {
			fd, ok := d.(*ast.FuncDecl)
			if !ok || fd.Body == nil {
				continue
			}
			ast.Inspect(fd.Body, func(x ast.Node) bool {
				ds, ok := x.(*ast.DeferStmt)
				if !ok {
					return true
				}
				rec := false
				switch f := ds.Call.Fun.(type) {
				case *ast.FuncLit:
					rec = hfHasRecover(f.Body)
				case *ast.Ident:
					rec = recoverFns[dir][f.Name]
				case *ast.SelectorExpr:
					rec = recoverFns[dir][f.Sel.Name]
				}
				if rec {
					sites = append(sites, [3]string{dir + "/" + name, fd.Name.Name, strconv.Itoa(fset.Position(ds.Pos()).Line)})
				}
				return true
			})
		}
		// the ReverseProxy literal and its Transport
		var rps []*ast.CompositeLit
		binds := map[string]*ast.CompositeLit{} // variable -> &http.Transport{…} it is bound to
		ast.Inspect(pf, func(x ast.Node) bool {
			switch v := x.(type) {
			case *ast.CompositeLit:
				if hfIsType(v.Type, "httputil", "ReverseProxy") {
					rps = append(rps, v)
				}
			case *ast.AssignStmt:
				if len(v.Lhs) == 1 && len(v.Rhs) == 1 {
					if id, ok := v.Lhs[0].(*ast.Ident); ok {
						if cl := hfLit(v.Rhs[0], "http", "Transport"); cl != nil {
							binds[id.Name] = cl
						}
					}
				}
			}
			return true
		})
		if len(rps) != 1 {
			return fail("%s/%s: %d httputil.ReverseProxy literals (expected exactly one)", dir, name, len(rps))
		}
		t := hfTransport{file: dir + "/" + name}
		for _, el := range rps[0].Elts {
			kv, ok := el.(*ast.KeyValueExpr)
			if !ok {
				return fail("%s/%s: ReverseProxy literal with positional fields", dir, name)
			}
			if k, ok := kv.Key.(*ast.Ident); !ok || k.Name != "Transport" {
				continue
			}
			lit := hfLit(kv.Value, "http", "Transport")
			if lit == nil {
				if id, ok := kv.Value.(*ast.Ident); ok {
					lit = binds[id.Name]
				}
			}
			if lit == nil {
				return fail("%s/%s: the ReverseProxy's Transport is neither an &http.Transport{…} literal nor a variable bound to one", dir, name)
			}
			t.explicit = true
			for _, fe := range lit.Elts {
				fkv, ok := fe.(*ast.KeyValueExpr)
				if !ok {
					return fail("%s/%s: http.Transport literal with positional fields", dir, name)
				}
				fk, ok := fkv.Key.(*ast.Ident)
				if !ok {
					return fail("%s/%s: http.Transport literal: unexpected key", dir, name)
				}
				val := "none"
				if n, ok := hfConst(fkv.Value); ok && n >= 0 {
					val = fmt.Sprintf("some %d", n)
				}
				t.fields = append(t.fields, [2]string{fk.Name, val})
			}
		}
		sort.Slice(t.fields, func(i, j int) bool { return t.fields[i][0] < t.fields[j][0] })
		trs = append(trs, t)
	}

	var b strings.Builder
	b.WriteString("/- GENERATED by /verif/translate (generator HttpFacts) from pkg/util/vhost/{http,resource,vhost}.go, server/group/http.go and pkg/plugin/client/{http2http,http2https,https2http,https2https}.go — do not edit. -/\n")
	b.WriteString("namespace Frp.Gen.HttpFacts\n\n")
	b.WriteString("/-- every `defer` in these files whose callee contains `recover()`: (file, enclosing function)\n")
	for _, s := range sites {
		b.WriteString("      " + s[0] + ":" + s[2] + " in " + s[1] + "\n")
	}
	b.WriteString("-/\ndef recoverSites : List (String × String) := [")
	for i, s := range sites {
		if i > 0 {
			b.WriteString(", ")
		}
		fmt.Fprintf(&b, "(%q, %q)", s[0], s[1])
	}
	b.WriteString("]\n\n")
	b.WriteString("/-- the `http.Transport` of a file's `httputil.ReverseProxy`: the fields its literal sets, with the value when it\n    is an integer constant (durations in ms); `explicit := false`: no Transport field (http.DefaultTransport) -/\n")
	b.WriteString("structure TransportLit where\n  file : String\n  explicit : Bool\n  fields : List (String × Option Nat)\nderiving DecidableEq, Repr\n\n")
	b.WriteString("def transports : List TransportLit := [\n")
	for i, t := range trs {
		fs := make([]string, len(t.fields))
		for j, f := range t.fields {
			fs[j] = fmt.Sprintf("(%q, %s)", f[0], f[1])
		}
		sep := ","
		if i == len(trs)-1 {
			sep = ""
		}
		fmt.Fprintf(&b, "  { file := %q, explicit := %v, fields := [%s] }%s\n", t.file, t.explicit, strings.Join(fs, ", "), sep)
	}
	b.WriteString("]\n\n")
	routes, err := hfRoutesLean(repo, fset, parsed)
	if err != nil {
		return err
	}
	b.WriteString(routes)
	b.WriteString("end Frp.Gen.HttpFacts\n")

	if err := os.MkdirAll(out, 0o755); err != nil {
		return err
	}
	target := filepath.Join(out, "HttpFacts.lean")
	if old, err := os.ReadFile(target); err == nil && string(old) == b.String() {
		return nil
	}
	return os.WriteFile(target, []byte(b.String()), 0o644)
}
