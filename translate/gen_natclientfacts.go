package main

// Generator NatClientFacts (C20): the two places where the hand-written NAT-hole models rest on the SHAPE of a
// piece of code, read from the source with go/ast and written to lean/Frp/Gen/NatClientFacts.lean.
//
// 1. pkg/nathole/controller.go HandleVisitor — the signature test.
//
//	critical    the statements of the closure that holds c.mu and stores the session (in order, one string each)
//	sigGuard    the condition of the `if` whose body returns the "auth failed" error
//	sigCompare  what that condition compares:
//	              .whole a b   `a != b`, `!(a == b)`, `!util.ConstantTimeEqString(a, b)` or
//	                           `subtle.ConstantTimeCompare([]byte(a), []byte(b)) != 1` — the two WHOLE strings
//	                           (util.ConstantTimeEqString is followed into pkg/util/util/util.go: its body must be
//	                           `return subtle.ConstantTimeCompare([]byte(a), []byte(b)) == 1`)
//	              .other src   anything else (a helper, a prefix / overlap comparison, …)
//	authKeyBody the statements of util.GetAuthKey
//
// 2. pkg/nathole/nathole.go MakeHole — which addresses of the instruction are probed one by one.
//    The value of `detectAddrs` at the send loop, by symbolic execution of the statements before it, for the four
//    paths (role sender | other) x (len(CandidatePorts) == 0 | > 0), as a term of Frp.NatPunch.AddrExpr:
//
//	m.AssistedAddrs → .assisted     m.CandidateAddrs → .candidate     nil / `var detectAddrs []string` → .nil
//	append(x, y...) → .app x y      slices.Compact(x) → .compact x    x[:N] (N literal or constant) → .take N x
//	any other right-hand side, and any statement other than the two known `if`s that assigns detectAddrs
//	(a guarded truncation, a loop that filters, …) → .unknown "<source>"
//
//	sendLoop      the range expressions of the two nested loops and the send call
//	sendLoopExits number of break / continue / return / goto statements inside the send loop
//	instrWrites   every assignment in nathole.go to m.CandidateAddrs / m.AssistedAddrs / m.DetectBehavior.CandidatePorts
//	rangeCall     the call of sendSidMessageToRangePorts in MakeHole
//	rangeLoops    the headers of the loops of sendSidMessageToRangePorts; rangeLoopExits as above
//
// The theorems C20.sig_compare_shape / visitor_critical_shape / makehole_plan_shape pin these values and
// C20.detectAddrs_is_source proves that the model's `detectAddrs` is the regenerated term.
// Fails ("BROKEN TIE") when an anchor is missing.

import (
	"bytes"
	"fmt"
	"go/ast"
	"go/parser"
	"go/printer"
	"go/token"
	"os"
	"path/filepath"
	"strconv"
	"strings"
)

func init() { generators["NatClientFacts"] = genNatClientFacts }

func ncfSrc(fset *token.FileSet, n ast.Node) string {
	var b bytes.Buffer
	_ = printer.Fprint(&b, fset, n)
	return strings.Join(strings.Fields(b.String()), " ")
}

func ncfQ(s string) string { return strconv.Quote(s) }

// (a, b string, n int)
func ncfParams(fset *token.FileSet, fl *ast.FieldList) string {
	var parts []string
	if fl != nil {
		for _, f := range fl.List {
			var ns []string
			for _, n := range f.Names {
				ns = append(ns, n.Name)
			}
			parts = append(parts, strings.TrimSpace(strings.Join(ns, ", ")+" "+ncfSrc(fset, f.Type)))
		}
	}
	return "(" + strings.Join(parts, ", ") + ")"
}

func ncfList(l []string) string {
	q := make([]string, len(l))
	for i, s := range l {
		q[i] = ncfQ(s)
	}
	return "[" + strings.Join(q, ",\n   ") + "]"
}

func ncfFunc(f *ast.File, name string) *ast.FuncDecl {
	for _, d := range f.Decls {
		if fd, ok := d.(*ast.FuncDecl); ok && fd.Name.Name == name && fd.Body != nil {
			return fd
		}
	}
	return nil
}

func ncfIsSel(e ast.Expr, x, sel string) bool {
	s, ok := e.(*ast.SelectorExpr)
	if !ok || s.Sel.Name != sel {
		return false
	}
	id, ok := s.X.(*ast.Ident)
	return ok && id.Name == x
}

// []byte(x) → x
func ncfBytesOf(e ast.Expr) (ast.Expr, bool) {
	c, ok := e.(*ast.CallExpr)
	if !ok || len(c.Args) != 1 {
		return nil, false
	}
	at, ok := c.Fun.(*ast.ArrayType)
	if !ok || at.Len != nil {
		return nil, false
	}
	if id, ok := at.Elt.(*ast.Ident); !ok || id.Name != "byte" {
		return nil, false
	}
	return c.Args[0], true
}

func ncfUnparen(e ast.Expr) ast.Expr {
	for {
		p, ok := e.(*ast.ParenExpr)
		if !ok {
			return e
		}
		e = p.X
	}
}

func ncfCountExits(n ast.Node) int {
	k := 0
	ast.Inspect(n, func(x ast.Node) bool {
		switch x.(type) {
		case *ast.BranchStmt, *ast.ReturnStmt:
			k++
		case *ast.FuncLit:
			return false
		}
		return true
	})
	return k
}

func genNatClientFacts(repo, out string) error {
	fset := token.NewFileSet()

	// ---------------------------------------------------------------- 1. HandleVisitor
	ctlF, err := parser.ParseFile(fset, filepath.Join(repo, "pkg", "nathole", "controller.go"), nil, 0)
	if err != nil {
		return err
	}
	utilF, err := parser.ParseFile(fset, filepath.Join(repo, "pkg", "util", "util", "util.go"), nil, 0)
	if err != nil {
		return err
	}
	hv := ncfFunc(ctlF, "HandleVisitor")
	if hv == nil {
		return fail("pkg/nathole/controller.go: HandleVisitor not found")
	}
	// the closure that stores the session: the function literal containing `c.sessions[sid] = session`
	var crit *ast.FuncLit
	ast.Inspect(hv.Body, func(x ast.Node) bool {
		fl, ok := x.(*ast.FuncLit)
		if !ok {
			return true
		}
		stores := false
		for _, st := range fl.Body.List {
			if as, ok := st.(*ast.AssignStmt); ok && len(as.Lhs) == 1 {
				if ix, ok := as.Lhs[0].(*ast.IndexExpr); ok && ncfIsSel(ix.X, "c", "sessions") {
					stores = true
				}
			}
		}
		if stores && crit == nil {
			crit = fl
		}
		return true
	})
	if crit == nil {
		return fail("HandleVisitor: no closure with a top-level `c.sessions[…] = …` (the critical section changed shape)")
	}
	var critical []string
	for _, st := range crit.Body.List {
		critical = append(critical, ncfSrc(fset, st))
	}
	var guard ast.Expr
	guards := 0
	ast.Inspect(hv.Body, func(x ast.Node) bool {
		ifs, ok := x.(*ast.IfStmt)
		if !ok {
			return true
		}
		for _, st := range ifs.Body.List {
			if r, ok := st.(*ast.ReturnStmt); ok && strings.Contains(ncfSrc(fset, r), "auth failed") {
				guard = ifs.Cond
				guards++
			}
		}
		return true
	})
	if guards != 1 {
		return fail("HandleVisitor: %d `if … { return …\"auth failed\"… }` statements (want exactly 1)", guards)
	}
	// util.ConstantTimeEqString
	cteq := ncfFunc(utilF, "ConstantTimeEqString")
	cteqBody := ""
	if cteq != nil {
		var parts []string
		for _, st := range cteq.Body.List {
			parts = append(parts, ncfSrc(fset, st))
		}
		cteqBody = ncfParams(fset, cteq.Type.Params) + " " + strings.Join(parts, "; ")
	}
	const cteqWant = "(a, b string) return subtle.ConstantTimeCompare([]byte(a), []byte(b)) == 1"
	sigCompare := ""
	whole := func(a, b ast.Expr) string {
		return ".whole " + ncfQ(ncfSrc(fset, a)) + " " + ncfQ(ncfSrc(fset, b))
	}
	classify := func(e ast.Expr) string {
		e = ncfUnparen(e)
		if b, ok := e.(*ast.BinaryExpr); ok && b.Op == token.NEQ {
			// subtle.ConstantTimeCompare([]byte(a), []byte(b)) != 1
			if c, ok := ncfUnparen(b.X).(*ast.CallExpr); ok && ncfIsSel(c.Fun, "subtle", "ConstantTimeCompare") && len(c.Args) == 2 {
				if lit, ok := b.Y.(*ast.BasicLit); ok && lit.Value == "1" {
					x, ok1 := ncfBytesOf(c.Args[0])
					y, ok2 := ncfBytesOf(c.Args[1])
					if ok1 && ok2 {
						return whole(x, y)
					}
				}
				return ""
			}
			if _, isCall := ncfUnparen(b.X).(*ast.CallExpr); !isCall {
				return whole(b.X, b.Y) // a != b on strings
			}
			return ""
		}
		if u, ok := e.(*ast.UnaryExpr); ok && u.Op == token.NOT {
			in := ncfUnparen(u.X)
			if b, ok := in.(*ast.BinaryExpr); ok && b.Op == token.EQL {
				if _, isCall := ncfUnparen(b.X).(*ast.CallExpr); !isCall {
					return whole(b.X, b.Y)
				}
			}
			if c, ok := in.(*ast.CallExpr); ok && ncfIsSel(c.Fun, "util", "ConstantTimeEqString") && len(c.Args) == 2 {
				if cteqBody == cteqWant {
					return whole(c.Args[0], c.Args[1])
				}
			}
		}
		return ""
	}
	if sigCompare = classify(guard); sigCompare == "" {
		sigCompare = ".other " + ncfQ(ncfSrc(fset, guard))
	}
	gak := ncfFunc(utilF, "GetAuthKey")
	if gak == nil {
		return fail("pkg/util/util/util.go: GetAuthKey not found")
	}
	authKeyBody := []string{ncfParams(fset, gak.Type.Params)}
	for _, st := range gak.Body.List {
		authKeyBody = append(authKeyBody, ncfSrc(fset, st))
	}

	// ---------------------------------------------------------------- 2. MakeHole
	nhF, err := parser.ParseFile(fset, filepath.Join(repo, "pkg", "nathole", "nathole.go"), nil, 0)
	if err != nil {
		return err
	}
	mh := ncfFunc(nhF, "MakeHole")
	if mh == nil {
		return fail("pkg/nathole/nathole.go: MakeHole not found")
	}
	// integer constants of the package (for x[:N])
	consts := map[string]int{}
	for _, d := range nhF.Decls {
		if gd, ok := d.(*ast.GenDecl); ok {
			for _, sp := range gd.Specs {
				if vs, ok := sp.(*ast.ValueSpec); ok {
					for i, nm := range vs.Names {
						if i < len(vs.Values) {
							if lit, ok := vs.Values[i].(*ast.BasicLit); ok && lit.Kind == token.INT {
								if n, err := strconv.Atoi(lit.Value); err == nil {
									consts[nm.Name] = n
								}
							}
						}
					}
				}
			}
		}
	}
	const v = "detectAddrs"
	// paths: 0 sender/noPorts, 1 sender/ports, 2 receiver/noPorts, 3 receiver/ports
	cur := [4]string{"", "", "", ""} // "" = not declared yet
	unknown := func(n ast.Node) string { return "(.unknown " + ncfQ(ncfSrc(fset, n)) + ")" }
	var tr func(e ast.Expr, p int) string
	tr = func(e ast.Expr, p int) string {
		e = ncfUnparen(e)
		switch x := e.(type) {
		case *ast.Ident:
			if x.Name == v {
				if cur[p] == "" {
					return unknown(e)
				}
				return cur[p]
			}
			if x.Name == "nil" {
				return ".nil"
			}
		case *ast.SelectorExpr:
			if ncfIsSel(x, "m", "AssistedAddrs") {
				return ".assisted"
			}
			if ncfIsSel(x, "m", "CandidateAddrs") {
				return ".candidate"
			}
		case *ast.CallExpr:
			if id, ok := x.Fun.(*ast.Ident); ok && id.Name == "append" && len(x.Args) == 2 && x.Ellipsis.IsValid() {
				return "(.app " + tr(x.Args[0], p) + " " + tr(x.Args[1], p) + ")"
			}
			if ncfIsSel(x.Fun, "slices", "Compact") && len(x.Args) == 1 {
				return "(.compact " + tr(x.Args[0], p) + ")"
			}
		case *ast.SliceExpr:
			if x.Low == nil && x.High != nil && x.Max == nil {
				n := -1
				switch h := x.High.(type) {
				case *ast.BasicLit:
					if k, err := strconv.Atoi(h.Value); err == nil {
						n = k
					}
				case *ast.Ident:
					if k, ok := consts[h.Name]; ok {
						n = k
					}
				}
				if n >= 0 {
					return fmt.Sprintf("(.take %d %s)", n, tr(x.X, p))
				}
			}
		}
		return unknown(e)
	}
	assigns := func(n ast.Node) bool { // does the subtree write detectAddrs?
		found := false
		ast.Inspect(n, func(x ast.Node) bool {
			switch s := x.(type) {
			case *ast.AssignStmt:
				for _, l := range s.Lhs {
					l = ncfUnparen(l)
					if id, ok := l.(*ast.Ident); ok && id.Name == v {
						found = true
					}
					if ix, ok := l.(*ast.IndexExpr); ok {
						if id, ok := ix.X.(*ast.Ident); ok && id.Name == v {
							found = true
						}
					}
				}
			case *ast.CallExpr: // a helper that gets the slice's address
				for _, a := range s.Args {
					if u, ok := a.(*ast.UnaryExpr); ok && u.Op == token.AND {
						if id, ok := u.X.(*ast.Ident); ok && id.Name == v {
							found = true
						}
					}
				}
			}
			return !found
		})
		return found
	}
	var sendLoop []string
	sendLoopExits := -1
	var walk func(stmts []ast.Stmt, paths []int) error
	walk = func(stmts []ast.Stmt, paths []int) error {
		for _, st := range stmts {
			if sendLoopExits >= 0 {
				return nil // the send loop has been reached: what follows does not feed it
			}
			switch s := st.(type) {
			case *ast.DeclStmt:
				if gd, ok := s.Decl.(*ast.GenDecl); ok {
					for _, sp := range gd.Specs {
						if vs, ok := sp.(*ast.ValueSpec); ok {
							for i, nm := range vs.Names {
								if nm.Name != v {
									continue
								}
								for _, p := range paths {
									if i < len(vs.Values) {
										cur[p] = tr(vs.Values[i], p)
									} else {
										cur[p] = ".nil"
									}
								}
							}
						}
					}
				}
				continue
			case *ast.AssignStmt:
				if len(s.Lhs) == 1 && len(s.Rhs) == 1 {
					if id, ok := s.Lhs[0].(*ast.Ident); ok && id.Name == v {
						for _, p := range paths {
							cur[p] = tr(s.Rhs[0], p)
						}
						continue
					}
				}
			case *ast.IfStmt:
				cond := ncfSrc(fset, s.Cond)
				split := func(thenP, elseP []int) error {
					if err := walk(s.Body.List, thenP); err != nil {
						return err
					}
					switch e := s.Else.(type) {
					case nil:
					case *ast.BlockStmt:
						return walk(e.List, elseP)
					default:
						return walk([]ast.Stmt{e}, elseP)
					}
					return nil
				}
				sel := func(keep func(int) bool) (a, b []int) {
					for _, p := range paths {
						if keep(p) {
							a = append(a, p)
						} else {
							b = append(b, p)
						}
					}
					return
				}
				if s.Init == nil && cond == "m.DetectBehavior.Role == DetectRoleSender" {
					a, b := sel(func(p int) bool { return p < 2 })
					if err := split(a, b); err != nil {
						return err
					}
					continue
				}
				if s.Init == nil && cond == "len(m.DetectBehavior.CandidatePorts) == 0" {
					a, b := sel(func(p int) bool { return p%2 == 0 })
					if err := split(a, b); err != nil {
						return err
					}
					continue
				}
			case *ast.RangeStmt:
				if id, ok := ncfUnparen(s.X).(*ast.Ident); ok && id.Name == v {
					sendLoop = append(sendLoop, "range "+ncfSrc(fset, s.X))
					ast.Inspect(s.Body, func(x ast.Node) bool {
						switch y := x.(type) {
						case *ast.RangeStmt:
							sendLoop = append(sendLoop, "range "+ncfSrc(fset, y.X))
						case *ast.ForStmt:
							sendLoop = append(sendLoop, "for "+ncfSrc(fset, y.Cond))
						case *ast.CallExpr:
							if id, ok := y.Fun.(*ast.Ident); ok && id.Name == "sendSidMessage" {
								sendLoop = append(sendLoop, ncfSrc(fset, y))
							}
						}
						return true
					})
					sendLoopExits = ncfCountExits(s.Body)
					continue
				}
			}
			// any other statement: it must not write detectAddrs
			if assigns(st) {
				for _, p := range paths {
					cur[p] = unknown(st)
				}
			}
		}
		return nil
	}
	if err := walk(mh.Body.List, []int{0, 1, 2, 3}); err != nil {
		return err
	}
	if sendLoopExits < 0 {
		return fail("MakeHole: no `for … := range detectAddrs` loop")
	}
	for p := range cur {
		if cur[p] == "" {
			return fail("MakeHole: detectAddrs is never declared on path %d", p)
		}
	}
	// writes to the instruction, anywhere in nathole.go
	var instrWrites []string
	ast.Inspect(nhF, func(x ast.Node) bool {
		as, ok := x.(*ast.AssignStmt)
		if !ok {
			return true
		}
		for _, l := range as.Lhs {
			s := ncfSrc(fset, l)
			for _, f := range []string{".CandidateAddrs", ".AssistedAddrs", ".CandidatePorts"} {
				if strings.Contains(s, f) {
					instrWrites = append(instrWrites, ncfSrc(fset, as))
				}
			}
		}
		return true
	})
	rangeCall := ""
	ast.Inspect(mh.Body, func(x ast.Node) bool {
		if c, ok := x.(*ast.CallExpr); ok {
			if id, ok := c.Fun.(*ast.Ident); ok && id.Name == "sendSidMessageToRangePorts" {
				rangeCall = ncfSrc(fset, c)
			}
		}
		return true
	})
	if rangeCall == "" {
		return fail("MakeHole: no call of sendSidMessageToRangePorts")
	}
	rp := ncfFunc(nhF, "sendSidMessageToRangePorts")
	if rp == nil {
		return fail("nathole.go: sendSidMessageToRangePorts not found")
	}
	rangeLoops := []string{ncfParams(fset, rp.Type.Params)}
	ast.Inspect(rp.Body, func(x ast.Node) bool {
		switch y := x.(type) {
		case *ast.RangeStmt:
			rangeLoops = append(rangeLoops, "range "+ncfSrc(fset, y.X))
		case *ast.ForStmt:
			rangeLoops = append(rangeLoops, "for "+ncfSrc(fset, y.Init)+"; "+ncfSrc(fset, y.Cond)+"; "+ncfSrc(fset, y.Post))
		case *ast.CallExpr:
			if id, ok := y.Fun.(*ast.Ident); ok && id.Name == "sendFunc" {
				rangeLoops = append(rangeLoops, ncfSrc(fset, y))
			}
		case *ast.AssignStmt:
			if len(y.Lhs) == 1 && ncfSrc(fset, y.Lhs[0]) == "detectAddr" {
				rangeLoops = append(rangeLoops, ncfSrc(fset, y))
			}
		}
		return true
	})
	rangeLoopExits := ncfCountExits(rp.Body)

	var b strings.Builder
	b.WriteString("/- GENERATED by /verif/translate (generator NatClientFacts) from pkg/nathole/controller.go, pkg/nathole/nathole.go,\n   pkg/util/util/util.go — do not edit. -/\n")
	b.WriteString("import Frp.Model.NatPunch\nimport Frp.Model.NatSign\nnamespace Frp.Gen.NatClientFacts\nopen Frp.NatPunch Frp.NatSign\n\n")
	b.WriteString("/-- HandleVisitor: the statements of the closure that stores the session -/\n")
	b.WriteString("def critical : List String :=\n  " + ncfList(critical) + "\n\n")
	b.WriteString("/-- HandleVisitor: the condition guarding the \"auth failed\" return -/\n")
	b.WriteString("def sigGuard : String := " + ncfQ(ncfSrc(fset, guard)) + "\n\n")
	b.WriteString("def sigCompare : SigCmp := " + sigCompare + "\n\n")
	b.WriteString("/-- util.ConstantTimeEqString -/\ndef ctEqStringBody : String := " + ncfQ(cteqBody) + "\n\n")
	b.WriteString("/-- util.GetAuthKey -/\ndef authKeyBody : List String :=\n  " + ncfList(authKeyBody) + "\n\n")
	b.WriteString("/-- MakeHole: `detectAddrs` at the send loop; sender, no candidate ports -/\n")
	fmt.Fprintf(&b, "def detectSenderNoPorts : AddrExpr := %s\n", cur[0])
	fmt.Fprintf(&b, "def detectSenderPorts : AddrExpr := %s\n", cur[1])
	fmt.Fprintf(&b, "def detectReceiverNoPorts : AddrExpr := %s\n", cur[2])
	fmt.Fprintf(&b, "def detectReceiverPorts : AddrExpr := %s\n\n", cur[3])
	b.WriteString("def sendLoop : List String :=\n  " + ncfList(sendLoop) + "\n")
	fmt.Fprintf(&b, "def sendLoopExits : Nat := %d\n\n", sendLoopExits)
	b.WriteString("def instrWrites : List String :=\n  " + ncfList(instrWrites) + "\n\n")
	b.WriteString("def rangeCall : String := " + ncfQ(rangeCall) + "\n")
	b.WriteString("def rangeLoops : List String :=\n  " + ncfList(rangeLoops) + "\n")
	fmt.Fprintf(&b, "def rangeLoopExits : Nat := %d\n\nend Frp.Gen.NatClientFacts\n", rangeLoopExits)

	if err := os.MkdirAll(out, 0o755); err != nil {
		return err
	}
	target := filepath.Join(out, "NatClientFacts.lean")
	if old, err := os.ReadFile(target); err == nil && string(old) == b.String() {
		return nil // unchanged: keep mtime so lake does not rebuild
	}
	return os.WriteFile(target, []byte(b.String()), 0o644)
}
