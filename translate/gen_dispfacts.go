package main

// Generator DispFacts (C12): who closes the dispatcher's done channel and how handlers are run, read from
// pkg/msg (all non-test files) and from every user of `msgDispatcher.Done()` in server/ and client/ with go/ast,
// written to lean/Frp/Gen/DispFacts.lean.  The session teardown (server/control.go worker()) starts when
// `<-ctl.msgDispatcher.Done()` returns and relies on this: Done fires only after the read loop has returned, and
// handlers run inside the read loop — so no handler of the session is in flight during the teardown.
//
//	doneChUses        every occurrence of the field `doneCh` in package msg, in source order, as (function, kind):
//	                  init (composite-literal key) | close (argument of close) | recv (operand of `<-`) |
//	                  return (a result of a return statement) | other (assigned, passed on, sent, compared, …)
//	doneCallers       every call `<x>.msgDispatcher.Done()` in server/*.go and client/*.go as (file:function, kind):
//	                  recv (operand of `<-`) | other (the channel escapes: it could be closed there)
//	runSpawns         Run(): the methods started by its `go d.<m>()` statements, in order; runOther: its other statements
//	readLoopStmts     the statements of readLoop's `for` body (source text, whitespace-normalised)
//	readLoopOuter     readLoop's statements other than that one `for` (source text)
//	readLoopSpawns    `go` / `defer` statements, function literals and channel sends anywhere in readLoop
//	handlerCalls      calls of `handler` / `d.defaultHandler` in readLoop as (callee, stmt | go | defer | other)
//	sendLoopStmts     sendLoop's statements (source text)
//	sendLoopCalls     every call inside sendLoop (callee source text)
//	writeErrDropped   every WriteMsg call in sendLoop is an expression statement or assigned to `_` only
//	sendStmts / doneStmts   the statements of Send / Done (source text)
//
// Fails ("BROKEN TIE") when Dispatcher / Run / readLoop / sendLoop / Send / Done cannot be found.  A changed shape is NOT
// a failure of the translator: the facts are written as found and the Lean obligations `C12.dispatcher_code_shape`,
// `C12.code_cfg_is_frp` decide.

import (
	"bytes"
	"fmt"
	"go/ast"
	"go/parser"
	"go/token"
	"os"
	"path/filepath"
	"sort"
	"strings"
)

func init() { generators["DispFacts"] = genDispFacts }

func dfGoFiles(dir string) ([]string, error) {
	ents, err := os.ReadDir(dir)
	if err != nil {
		return nil, err
	}
	var out []string
	for _, e := range ents {
		n := e.Name()
		if e.IsDir() || !strings.HasSuffix(n, ".go") || strings.HasSuffix(n, "_test.go") || strings.HasPrefix(n, "verif_") {
			continue
		}
		out = append(out, filepath.Join(dir, n))
	}
	sort.Strings(out)
	return out, nil
}

func dfFuncName(fd *ast.FuncDecl) string { return fd.Name.Name }

// parents of every node below root
func dfParents(root ast.Node) map[ast.Node]ast.Node {
	par := map[ast.Node]ast.Node{}
	var stack []ast.Node
	ast.Inspect(root, func(n ast.Node) bool {
		if n == nil {
			stack = stack[:len(stack)-1]
			return true
		}
		if len(stack) > 0 {
			par[n] = stack[len(stack)-1]
		}
		stack = append(stack, n)
		return true
	})
	return par
}

func dfPairs(ps [][2]string) string {
	var b bytes.Buffer
	b.WriteString("[")
	for i, p := range ps {
		if i > 0 {
			b.WriteString(",\n   ")
		}
		fmt.Fprintf(&b, "(%s, %s)", agLeanStr(p[0]), agLeanStr(p[1]))
	}
	b.WriteString("]")
	return b.String()
}

func dfStrs(xs []string) string {
	var b bytes.Buffer
	b.WriteString("[")
	for i, x := range xs {
		if i > 0 {
			b.WriteString(",\n   ")
		}
		b.WriteString(agLeanStr(x))
	}
	b.WriteString("]")
	return b.String()
}

func genDispFacts(repo, out string) error {
	fset := token.NewFileSet()
	files, err := dfGoFiles(filepath.Join(repo, "pkg", "msg"))
	if err != nil {
		return err
	}
	var doneChUses [][2]string
	var handlerFile *ast.File
	for _, fn := range files {
		f, err := parser.ParseFile(fset, fn, nil, 0)
		if err != nil {
			return err
		}
		if filepath.Base(fn) == "handler.go" {
			handlerFile = f
		}
		for _, d := range f.Decls {
			where := "<package level>"
			if fd, ok := d.(*ast.FuncDecl); ok {
				where = dfFuncName(fd)
			}
			par := dfParents(d)
			ast.Inspect(d, func(n ast.Node) bool {
				switch x := n.(type) {
				case *ast.KeyValueExpr:
					if id, ok := x.Key.(*ast.Ident); ok && id.Name == "doneCh" {
						doneChUses = append(doneChUses, [2]string{where, "init"})
					}
				case *ast.SelectorExpr:
					if x.Sel.Name != "doneCh" {
						return true
					}
					kind := "other"
					switch p := par[x].(type) {
					case *ast.CallExpr:
						if id, ok := p.Fun.(*ast.Ident); ok && id.Name == "close" && len(p.Args) == 1 && p.Args[0] == ast.Expr(x) {
							kind = "close"
						}
					case *ast.UnaryExpr:
						if p.Op == token.ARROW {
							kind = "recv"
						}
					case *ast.ReturnStmt:
						kind = "return"
					}
					doneChUses = append(doneChUses, [2]string{where, kind})
				}
				return true
			})
		}
	}
	if handlerFile == nil {
		return fail("pkg/msg/handler.go not found")
	}
	need := func(name string) (*ast.FuncDecl, error) {
		fd := sfMethod(handlerFile, "Dispatcher", name)
		if fd == nil || fd.Body == nil {
			return nil, fail("pkg/msg/handler.go: (*Dispatcher).%s not found", name)
		}
		return fd, nil
	}
	run, err := need("Run")
	if err != nil {
		return err
	}
	rl, err := need("readLoop")
	if err != nil {
		return err
	}
	sl, err := need("sendLoop")
	if err != nil {
		return err
	}
	send, err := need("Send")
	if err != nil {
		return err
	}
	done, err := need("Done")
	if err != nil {
		return err
	}
	// Run
	var runSpawns, runOther []string
	for _, s := range run.Body.List {
		if g, ok := s.(*ast.GoStmt); ok {
			if sel, ok := g.Call.Fun.(*ast.SelectorExpr); ok && len(g.Call.Args) == 0 {
				if id, ok := sel.X.(*ast.Ident); ok && id.Name == "d" {
					runSpawns = append(runSpawns, sel.Sel.Name)
					continue
				}
			}
		}
		runOther = append(runOther, agSrc(fset, s))
	}
	// readLoop
	var readLoopStmts, readLoopOuter, readLoopSpawns []string
	seenFor := false
	for _, s := range rl.Body.List {
		if f, ok := s.(*ast.ForStmt); ok && !seenFor && f.Init == nil && f.Cond == nil && f.Post == nil {
			seenFor = true
			for _, t := range f.Body.List {
				readLoopStmts = append(readLoopStmts, agSrc(fset, t))
			}
			continue
		}
		readLoopOuter = append(readLoopOuter, agSrc(fset, s))
	}
	var handlerCalls [][2]string
	rpar := dfParents(rl.Body)
	ast.Inspect(rl.Body, func(n ast.Node) bool {
		switch x := n.(type) {
		case *ast.GoStmt:
			readLoopSpawns = append(readLoopSpawns, "go "+agSrc(fset, x.Call))
		case *ast.DeferStmt:
			readLoopSpawns = append(readLoopSpawns, "defer "+agSrc(fset, x.Call))
		case *ast.FuncLit:
			readLoopSpawns = append(readLoopSpawns, "func literal")
		case *ast.SendStmt:
			readLoopSpawns = append(readLoopSpawns, "send "+agSrc(fset, x))
		case *ast.CallExpr:
			callee := agSrc(fset, x.Fun)
			if callee == "handler" || callee == "d.defaultHandler" {
				ctx := "other"
				switch rpar[x].(type) {
				case *ast.ExprStmt:
					ctx = "stmt"
				case *ast.GoStmt:
					ctx = "go"
				case *ast.DeferStmt:
					ctx = "defer"
				}
				handlerCalls = append(handlerCalls, [2]string{callee, ctx})
			}
		}
		return true
	})
	// sendLoop
	var sendLoopStmts, sendLoopCalls []string
	for _, s := range sl.Body.List {
		sendLoopStmts = append(sendLoopStmts, agSrc(fset, s))
	}
	writeErrDropped, sawWrite := true, false
	spar := dfParents(sl.Body)
	ast.Inspect(sl.Body, func(n ast.Node) bool {
		c, ok := n.(*ast.CallExpr)
		if !ok {
			return true
		}
		callee := agSrc(fset, c.Fun)
		sendLoopCalls = append(sendLoopCalls, callee)
		if callee != "WriteMsg" {
			return true
		}
		sawWrite = true
		switch p := spar[c].(type) {
		case *ast.ExprStmt:
		case *ast.AssignStmt:
			for _, l := range p.Lhs {
				if id, ok := l.(*ast.Ident); !ok || id.Name != "_" {
					writeErrDropped = false
				}
			}
			if _, isIf := spar[p].(*ast.IfStmt); isIf {
				writeErrDropped = false
			}
		default:
			writeErrDropped = false
		}
		return true
	})
	writeErrDropped = writeErrDropped && sawWrite
	var sendStmts, doneStmts []string
	for _, s := range send.Body.List {
		sendStmts = append(sendStmts, agSrc(fset, s))
	}
	for _, s := range done.Body.List {
		doneStmts = append(doneStmts, agSrc(fset, s))
	}
	// users of msgDispatcher.Done() in server/ and client/
	var doneCallers [][2]string
	for _, dir := range []string{"server", "client"} {
		fs, err := dfGoFiles(filepath.Join(repo, dir))
		if err != nil {
			return err
		}
		for _, fn := range fs {
			f, err := parser.ParseFile(fset, fn, nil, 0)
			if err != nil {
				return err
			}
			for _, d := range f.Decls {
				fd, ok := d.(*ast.FuncDecl)
				if !ok || fd.Body == nil {
					continue
				}
				par := dfParents(fd)
				ast.Inspect(fd.Body, func(n ast.Node) bool {
					c, ok := n.(*ast.CallExpr)
					if !ok {
						return true
					}
					sel, ok := c.Fun.(*ast.SelectorExpr)
					if !ok || sel.Sel.Name != "Done" {
						return true
					}
					inner, ok := sel.X.(*ast.SelectorExpr)
					if !ok || inner.Sel.Name != "msgDispatcher" {
						return true
					}
					kind := "other"
					if u, ok := par[c].(*ast.UnaryExpr); ok && u.Op == token.ARROW {
						kind = "recv"
					}
					doneCallers = append(doneCallers, [2]string{dir + "/" + filepath.Base(fn) + ":" + fd.Name.Name, kind})
					return true
				})
			}
		}
	}
	if len(doneCallers) == 0 {
		return fail("no user of msgDispatcher.Done() found in server/ and client/")
	}

	var b bytes.Buffer
	b.WriteString("/- GENERATED by translate/gen_dispfacts.go from pkg/msg (Dispatcher) and the users of msgDispatcher.Done(). Do not edit. -/\n")
	b.WriteString("namespace Frp.Gen.DispFacts\n\n")
	fmt.Fprintf(&b, "def doneChUses : List (String × String) :=\n  %s\n\n", dfPairs(doneChUses))
	fmt.Fprintf(&b, "def doneCallers : List (String × String) :=\n  %s\n\n", dfPairs(doneCallers))
	fmt.Fprintf(&b, "def runSpawns : List String := %s\n", dfStrs(runSpawns))
	fmt.Fprintf(&b, "def runOther : List String := %s\n\n", dfStrs(runOther))
	fmt.Fprintf(&b, "def readLoopStmts : List String :=\n  %s\n", dfStrs(readLoopStmts))
	fmt.Fprintf(&b, "def readLoopOuter : List String := %s\n", dfStrs(readLoopOuter))
	fmt.Fprintf(&b, "def readLoopSpawns : List String := %s\n", dfStrs(readLoopSpawns))
	fmt.Fprintf(&b, "def handlerCalls : List (String × String) :=\n  %s\n\n", dfPairs(handlerCalls))
	fmt.Fprintf(&b, "def sendLoopStmts : List String :=\n  %s\n", dfStrs(sendLoopStmts))
	fmt.Fprintf(&b, "def sendLoopCalls : List String := %s\n", dfStrs(sendLoopCalls))
	fmt.Fprintf(&b, "def writeErrDropped : Bool := %s\n\n", sfBool(writeErrDropped))
	fmt.Fprintf(&b, "def sendStmts : List String :=\n  %s\n", dfStrs(sendStmts))
	fmt.Fprintf(&b, "def doneStmts : List String := %s\n", dfStrs(doneStmts))
	b.WriteString("\nend Frp.Gen.DispFacts\n")
	return os.WriteFile(filepath.Join(out, "DispFacts.lean"), b.Bytes(), 0o644)
}
