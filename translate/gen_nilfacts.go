package main

// Generator NilFacts (C16): what the code does with the pointer-typed fields of protocol messages.
//
// A pointer-typed field of a msg struct (today: UDPPacket.LocalAddr / RemoteAddr, `*net.UDPAddr`, JSON
// `omitempty`) is nil whenever the peer leaves the field out or sends `null`.  The readers of work and
// visitor connections run in goroutines without recover, so a dereference of such a field kills the
// process.  This generator lists, from the source (go/ast, syntactic):
//
//	msgPtrFields / msgMapFields   the pointer- and map-typed fields of every struct in pkg/msg/msg.go
//	ptrUses                       every use of such a pointer field in every non-test file of client/
//	                              pkg/ server/ that names the owning struct (msg.<Owner>), with
//	                                kind     fieldSel g | star | method m | arg callee i | argFollowed callee i |
//	                                         nilCmp | store | other what
//	                                guarded  the use lies under `if <expr> != nil` (conjunct of the condition), or
//	                                         after `if <expr> == nil { return / continue / break / panic }`, or inside
//	                                         the closure of errors.PanicToError (recover)
//	                              A field handed to a function literal bound to a local variable of the same
//	                              function, or to a top-level function of the same package, is FOLLOWED: the
//	                              uses of the corresponding parameter are listed too (expr = "<param> <- <callee>"),
//	                              up to depth 3.
//
// The judgement (which kinds dereference, which methods / callees tolerate nil) is made in Lean
// (Frp/Model/LockDisc.lean PtrUse.ok, pinned tables in Props/C16.lean), not here.
// Fails ("BROKEN TIE") when msg.go has no struct, when a pointer field is never used, or when the
// two udp forwarders have no use at all (extractor blind).

import (
	"fmt"
	"go/ast"
	"go/parser"
	"go/token"
	"os"
	"path/filepath"
	"sort"
	"strings"
)

func init() { generators["NilFacts"] = genNilFacts }

type nfField struct{ owner, field, typ string }

const nfRecovered = "<inside errors.PanicToError>"

type nfUse struct {
	file, fn string
	line     int
	expr     string // source text of the pointer expression
	field    string // Owner.Field
	typ      string
	kind     string // Lean constructor application, without the leading dot
	guarded  bool
}

type nfWalker struct {
	fset    *token.FileSet
	rel     string
	fn      string
	fields  map[string]nfField       // field name -> field
	tainted map[string]nfField       // identifier -> field it carries (followed parameters)
	locals  map[string]*ast.FuncLit  // local function literals of the enclosing FuncDecl
	tops    map[string]*ast.FuncDecl // top-level functions of the package
	topFile map[string]string
	depth   int
	out     *[]nfUse
	stack   []ast.Node
	via     string
}

// is e a pointer-field expression? (X.F with F a pointer field and not the callee of a call; or a tainted identifier)
func (w *nfWalker) source(e ast.Expr) (nfField, bool) {
	switch x := e.(type) {
	case *ast.SelectorExpr:
		if f, ok := w.fields[x.Sel.Name]; ok {
			return f, true
		}
	case *ast.Ident:
		if f, ok := w.tainted[x.Name]; ok {
			return f, true
		}
	}
	return nfField{}, false
}

func nfTerminates(b *ast.BlockStmt) bool {
	if b == nil || len(b.List) == 0 {
		return false
	}
	switch s := b.List[len(b.List)-1].(type) {
	case *ast.ReturnStmt:
		return true
	case *ast.BranchStmt:
		return s.Tok == token.CONTINUE || s.Tok == token.BREAK || s.Tok == token.GOTO
	case *ast.ExprStmt:
		if c, ok := s.X.(*ast.CallExpr); ok {
			if id, ok := c.Fun.(*ast.Ident); ok && id.Name == "panic" {
				return true
			}
		}
	}
	return false
}

// conjuncts `E != nil` (want = NEQ) or, for a single comparison, `E == nil` (want = EQL)
func (w *nfWalker) nilTests(cond ast.Expr, want token.Token) []string {
	var out []string
	var rec func(e ast.Expr)
	rec = func(e ast.Expr) {
		switch x := e.(type) {
		case *ast.ParenExpr:
			rec(x.X)
		case *ast.BinaryExpr:
			if x.Op == token.LAND && want == token.NEQ || x.Op == token.LOR && want == token.EQL {
				rec(x.X)
				rec(x.Y)
				return
			}
			if x.Op == want {
				if id, ok := x.Y.(*ast.Ident); ok && id.Name == "nil" {
					out = append(out, agSrc(w.fset, x.X))
				} else if id, ok := x.X.(*ast.Ident); ok && id.Name == "nil" {
					out = append(out, agSrc(w.fset, x.Y))
				}
			}
		}
	}
	rec(cond)
	return out
}

func nfWith(g map[string]bool, xs []string) map[string]bool {
	if len(xs) == 0 {
		return g
	}
	o := map[string]bool{}
	for k := range g {
		o[k] = true
	}
	for _, x := range xs {
		o[x] = true
	}
	return o
}

func (w *nfWalker) block(list []ast.Stmt, g map[string]bool) {
	for _, s := range list {
		g = w.stmt(s, g)
	}
}

// returns the guard set that holds AFTER the statement in the same block
func (w *nfWalker) stmt(s ast.Stmt, g map[string]bool) map[string]bool {
	switch x := s.(type) {
	case *ast.IfStmt:
		if x.Init != nil {
			g = w.stmt(x.Init, g)
		}
		w.expr(x.Cond, g)
		w.block(x.Body.List, nfWith(g, w.nilTests(x.Cond, token.NEQ)))
		eq := w.nilTests(x.Cond, token.EQL)
		if x.Else != nil {
			switch e := x.Else.(type) {
			case *ast.BlockStmt:
				w.block(e.List, nfWith(g, eq))
			default:
				w.stmt(e, nfWith(g, eq))
			}
		}
		if len(eq) > 0 && nfTerminates(x.Body) && x.Else == nil {
			return nfWith(g, eq)
		}
		return g
	case *ast.BlockStmt:
		w.block(x.List, g)
	case *ast.ForStmt:
		if x.Init != nil {
			w.stmt(x.Init, g)
		}
		if x.Cond != nil {
			w.expr(x.Cond, g)
		}
		if x.Post != nil {
			w.stmt(x.Post, g)
		}
		w.block(x.Body.List, g)
	case *ast.RangeStmt:
		w.expr(x.X, g)
		w.block(x.Body.List, g)
	case *ast.SwitchStmt:
		if x.Init != nil {
			w.stmt(x.Init, g)
		}
		if x.Tag != nil {
			w.expr(x.Tag, g)
		}
		for _, c := range x.Body.List {
			cc := c.(*ast.CaseClause)
			for _, e := range cc.List {
				w.expr(e, g)
			}
			w.block(cc.Body, g)
		}
	case *ast.TypeSwitchStmt:
		if x.Init != nil {
			w.stmt(x.Init, g)
		}
		w.stmt(x.Assign, g)
		for _, c := range x.Body.List {
			w.block(c.(*ast.CaseClause).Body, g)
		}
	case *ast.SelectStmt:
		for _, c := range x.Body.List {
			cc := c.(*ast.CommClause)
			if cc.Comm != nil {
				w.stmt(cc.Comm, g)
			}
			w.block(cc.Body, g)
		}
	case *ast.LabeledStmt:
		return w.stmt(x.Stmt, g)
	default:
		// simple statements: every expression inside, with the statement as the root of the parent stack
		w.node(s, g)
	}
	return g
}

func (w *nfWalker) expr(e ast.Expr, g map[string]bool) { w.node(e, g) }

func (w *nfWalker) node(root ast.Node, g map[string]bool) {
	base := len(w.stack)
	ast.Inspect(root, func(n ast.Node) bool {
		if n == nil {
			w.stack = w.stack[:len(w.stack)-1]
			return true
		}
		if c, ok := n.(*ast.CallExpr); ok && len(c.Args) == 1 && agSrc(w.fset, c.Fun) == "errors.PanicToError" {
			if fl, ok := c.Args[0].(*ast.FuncLit); ok {
				// golib errors.PanicToError runs the closure under recover: a panic inside ends the closure, not the process
				w.block(fl.Body.List, nfWith(g, []string{nfRecovered}))
				return false
			}
		}
		if fl, ok := n.(*ast.FuncLit); ok {
			// statements of a closure: same guard tracking (the closure inherits what is known here)
			w.block(fl.Body.List, g)
			return false
		}
		if e, ok := n.(ast.Expr); ok {
			if f, ok := w.source(e); ok {
				w.use(e, f, g)
			}
		}
		w.stack = append(w.stack, n)
		return true
	})
	w.stack = w.stack[:base]
}

func (w *nfWalker) use(e ast.Expr, f nfField, g map[string]bool) {
	var parent, grand ast.Node
	if len(w.stack) >= 1 {
		parent = w.stack[len(w.stack)-1]
	}
	if len(w.stack) >= 2 {
		grand = w.stack[len(w.stack)-2]
	}
	src := agSrc(w.fset, e)
	kind := ""
	switch p := parent.(type) {
	case *ast.SelectorExpr:
		if p.X != e {
			return
		}
		if c, ok := grand.(*ast.CallExpr); ok && c.Fun == p {
			kind = "method " + agLeanStr(p.Sel.Name)
		} else {
			kind = "fieldSel " + agLeanStr(p.Sel.Name)
		}
	case *ast.CallExpr:
		if p.Fun == e {
			return // X.F(...) is a method call of X, not a field
		}
		idx := -1
		for i, a := range p.Args {
			if a == e {
				idx = i
			}
		}
		callee := agSrc(w.fset, p.Fun)
		kind = fmt.Sprintf("arg %s %d", agLeanStr(callee), idx)
		if id, ok := p.Fun.(*ast.Ident); ok && idx >= 0 && w.depth < 3 {
			if w.follow(id.Name, idx, f) {
				kind = fmt.Sprintf("argFollowed %s %d", agLeanStr(callee), idx)
			}
		}
	case *ast.StarExpr:
		kind = "star"
	case *ast.BinaryExpr:
		other := p.Y
		if p.Y == e {
			other = p.X
		}
		if id, ok := other.(*ast.Ident); ok && id.Name == "nil" && (p.Op == token.EQL || p.Op == token.NEQ) {
			kind = "nilCmp"
		} else {
			kind = "other " + agLeanStr("binary "+p.Op.String())
		}
	case *ast.KeyValueExpr:
		if p.Value == e {
			kind = "store"
		} else {
			return // the key of a composite literal is the field NAME
		}
	case *ast.AssignStmt:
		for _, l := range p.Lhs {
			if l == e {
				kind = "store"
			}
		}
		if kind == "" {
			lhs := []string{}
			for _, l := range p.Lhs {
				lhs = append(lhs, agSrc(w.fset, l))
			}
			kind = "other " + agLeanStr("alias "+strings.Join(lhs, ","))
		}
	case *ast.SendStmt, *ast.ReturnStmt, *ast.CompositeLit:
		kind = "other " + agLeanStr(fmt.Sprintf("%T", parent))
	default:
		kind = "other " + agLeanStr(fmt.Sprintf("%T", parent))
	}
	if _, isIdent := e.(*ast.Ident); isIdent {
		src = src + " <- " + w.via
	}
	*w.out = append(*w.out, nfUse{file: w.rel, fn: w.fn, line: w.fset.Position(e.Pos()).Line, expr: src,
		field: f.owner + "." + f.field, typ: f.typ, kind: kind, guarded: g[agSrc(w.fset, e)] || g[nfRecovered]})
}

// the field is handed to `name` as argument idx: list the uses of that parameter in the callee's body
func (w *nfWalker) follow(name string, idx int, f nfField) bool {
	var params *ast.FieldList
	var body *ast.BlockStmt
	rel := w.rel
	if fl, ok := w.locals[name]; ok {
		params, body = fl.Type.Params, fl.Body
	} else if fd, ok := w.tops[name]; ok && fd.Recv == nil {
		params, body = fd.Type.Params, fd.Body
		rel = w.topFile[name]
	} else {
		return false
	}
	pname := ""
	i := 0
	for _, fld := range params.List {
		for _, n := range fld.Names {
			if i == idx {
				pname = n.Name
			}
			i++
		}
	}
	if pname == "" || pname == "_" {
		return pname == "_"
	}
	sub := &nfWalker{fset: w.fset, rel: rel, fn: w.fn + ">" + name, fields: map[string]nfField{}, tainted: map[string]nfField{pname: f},
		locals: w.locals, tops: w.tops, topFile: w.topFile, depth: w.depth + 1, out: w.out, via: name}
	sub.block(body.List, map[string]bool{})
	return true
}

func genNilFacts(repo, out string) error {
	fset := token.NewFileSet()
	mf, err := parser.ParseFile(fset, filepath.Join(repo, "pkg/msg/msg.go"), nil, 0)
	if err != nil {
		return err
	}
	var ptrFields, mapFields []nfField
	nstruct := 0
	for _, d := range mf.Decls {
		gd, ok := d.(*ast.GenDecl)
		if !ok {
			continue
		}
		for _, sp := range gd.Specs {
			ts, ok := sp.(*ast.TypeSpec)
			if !ok {
				continue
			}
			st, ok := ts.Type.(*ast.StructType)
			if !ok {
				continue
			}
			nstruct++
			for _, fld := range st.Fields.List {
				for _, n := range fld.Names {
					switch fld.Type.(type) {
					case *ast.StarExpr:
						ptrFields = append(ptrFields, nfField{ts.Name.Name, n.Name, agSrc(fset, fld.Type)})
					case *ast.MapType:
						mapFields = append(mapFields, nfField{ts.Name.Name, n.Name, agSrc(fset, fld.Type)})
					}
				}
			}
		}
	}
	if nstruct == 0 {
		return fail("pkg/msg/msg.go: no struct type found")
	}
	owners := map[string]bool{}
	fields := map[string]nfField{}
	for _, f := range ptrFields {
		owners[f.owner] = true
		if g, dup := fields[f.field]; dup && g.typ != f.typ {
			return fail("pointer field name %s is used with two types (%s, %s): extend the extractor", f.field, g.typ, f.typ)
		}
		fields[f.field] = f
	}

	var uses []nfUse
	// per package directory: parse all files, collect top-level funcs, walk the files that name an owner struct
	dirs := map[string][]string{}
	for _, top := range []string{"client", "pkg", "server"} {
		err := filepath.Walk(filepath.Join(repo, top), func(path string, fi os.FileInfo, err error) error {
			if err != nil {
				return err
			}
			n := fi.Name()
			if fi.IsDir() || !strings.HasSuffix(n, ".go") || strings.HasSuffix(n, "_test.go") || strings.HasPrefix(n, "verif_") ||
				strings.HasSuffix(n, "_verif.go") {
				return nil
			}
			rel, _ := filepath.Rel(repo, path)
			rel = filepath.ToSlash(rel)
			dirs[filepath.ToSlash(filepath.Dir(rel))] = append(dirs[filepath.ToSlash(filepath.Dir(rel))], rel)
			return nil
		})
		if err != nil {
			return err
		}
	}
	dnames := []string{}
	for d := range dirs {
		dnames = append(dnames, d)
	}
	sort.Strings(dnames)
	for _, d := range dnames {
		if d == "pkg/msg" {
			continue
		}
		rels := dirs[d]
		sort.Strings(rels)
		files := map[string]*ast.File{}
		tops := map[string]*ast.FuncDecl{}
		topFile := map[string]string{}
		inScope := map[string]bool{}
		for _, rel := range rels {
			f, err := parser.ParseFile(fset, filepath.Join(repo, rel), nil, 0)
			if err != nil {
				return err
			}
			files[rel] = f
			for _, decl := range f.Decls {
				if fd, ok := decl.(*ast.FuncDecl); ok && fd.Body != nil && fd.Recv == nil {
					tops[fd.Name.Name] = fd
					topFile[fd.Name.Name] = rel
				}
			}
			ast.Inspect(f, func(n ast.Node) bool {
				if s, ok := n.(*ast.SelectorExpr); ok {
					if id, ok := s.X.(*ast.Ident); ok && id.Name == "msg" && owners[s.Sel.Name] {
						inScope[rel] = true
					}
				}
				return true
			})
		}
		for _, rel := range rels {
			if !inScope[rel] {
				continue
			}
			for _, decl := range files[rel].Decls {
				fd, ok := decl.(*ast.FuncDecl)
				if !ok || fd.Body == nil {
					continue
				}
				_, rt := lfRecvType(fd)
				name := fd.Name.Name
				if rt != "" {
					name = rt + "." + name
				}
				locals := map[string]*ast.FuncLit{}
				ast.Inspect(fd.Body, func(n ast.Node) bool {
					if as, ok := n.(*ast.AssignStmt); ok && len(as.Lhs) == len(as.Rhs) {
						for i := range as.Lhs {
							if id, ok := as.Lhs[i].(*ast.Ident); ok {
								if fl, ok := as.Rhs[i].(*ast.FuncLit); ok {
									locals[id.Name] = fl
								}
							}
						}
					}
					return true
				})
				w := &nfWalker{fset: fset, rel: rel, fn: name, fields: fields, tainted: map[string]nfField{}, locals: locals,
					tops: tops, topFile: topFile, out: &uses}
				w.block(fd.Body.List, map[string]bool{})
			}
		}
	}
	for _, f := range ptrFields {
		n := 0
		for _, u := range uses {
			if u.field == f.owner+"."+f.field {
				n++
			}
		}
		if n == 0 {
			return fail("pointer field msg.%s.%s is never used (extractor blind?)", f.owner, f.field)
		}
	}
	for _, fn := range []string{"ForwardUserConn", "Forwarder"} {
		n := 0
		for _, u := range uses {
			if u.file == "pkg/proto/udp/udp.go" && (u.fn == fn || strings.HasPrefix(u.fn, fn+">")) {
				n++
			}
		}
		if n == 0 && len(ptrFields) > 0 {
			return fail("pkg/proto/udp/udp.go %s: no use of a pointer-typed message field found", fn)
		}
	}
	sort.SliceStable(uses, func(i, j int) bool {
		if uses[i].file != uses[j].file {
			return uses[i].file < uses[j].file
		}
		return uses[i].line < uses[j].line
	})

	var b strings.Builder
	b.WriteString("/- GENERATED by translate/gen_nilfacts.go from the frp source tree. Do not edit. -/\n")
	b.WriteString("import Frp.Model.LockDisc\n")
	b.WriteString("namespace Frp.Gen.NilFacts\nopen Frp.LockDisc\n\n")
	for _, t := range []struct {
		name, doc string
		fs        []nfField
	}{{"msgPtrFields", "pointer-typed fields of the structs of pkg/msg/msg.go: (struct, field, type)", ptrFields},
		{"msgMapFields", "map-typed fields of the structs of pkg/msg/msg.go", mapFields}} {
		fmt.Fprintf(&b, "/-- %s -/\ndef %s : List (String × String × String) :=\n  [", t.doc, t.name)
		for i, f := range t.fs {
			if i > 0 {
				b.WriteString(",\n   ")
			}
			fmt.Fprintf(&b, "(%s, %s, %s)", agLeanStr(f.owner), agLeanStr(f.field), agLeanStr(f.typ))
		}
		b.WriteString("]\n\n")
	}
	b.WriteString("def ptrUses : List PtrUse :=\n  [")
	for i, u := range uses {
		if i > 0 {
			b.WriteString(",\n   ")
		}
		fmt.Fprintf(&b, "⟨%s, %s, %d, %s, %s, %s, .%s, %v⟩", agLeanStr(u.file), agLeanStr(u.fn), u.line, agLeanStr(u.expr),
			agLeanStr(u.field), agLeanStr(u.typ), u.kind, u.guarded)
	}
	b.WriteString("]\n\n")
	b.WriteString("end Frp.Gen.NilFacts\n")
	return os.WriteFile(filepath.Join(out, "NilFacts.lean"), []byte(b.String()), 0o644)
}
