package main

// Generator KeyFacts (C12): which expression keys each table operation of a proxy registration on the server, how the
// name of the server's proxy object derives from the NewProxy message, and where the client stores / presents its run
// id.  Read with go/ast, written to lean/Frp/Gen/KeyFacts.lean.
//
//	tableSites         server/control.go, every function: calls ctl.pxyManager.Exist/Add/Del(<key>, …), index expressions
//	                   ctl.proxies[<key>] (read / assigned), delete(ctl.proxies, <key>), `range ctl.proxies` —
//	                   as ("<func>:<op>", <key source text>) in source order
//	nameAssigns        pkg/config/v1/proxy.go: every assignment whose left side is `<x>.Name`, as ("<recv>.<method>", stmt)
//	fromMsgCalls       pkg/config/load.go NewProxyConfigurerFromMsg: the method calls on `configurer`, in order
//	fromMsgAssignsName … and whether that function assigns to any `.Name`
//	baseProxyNameInit  server/proxy/proxy.go NewProxy: the value of field `name` in the BaseProxy literal
//	getNameBody        server/proxy/proxy.go (*BaseProxy).GetName: statements
//	nameFieldAssigns   server/proxy/*.go: assignments to a selector `.name`
//	loginRunIDExpr     client/service.go login(): the value of RunID in the msg.Login literal
//	runIDAssigns       client/*.go: assignments to `svr.runID`, as ("<func>", stmt)
//	runIDAssignAfterErrCheck  in login(): `svr.runID = loginRespMsg.RunID` is a top-level statement positioned after the
//	                   top-level `if loginRespMsg.Error != "" { … return }`
//	errCheckReturns    that if-body ends with a return statement
//	sessionRunIDExpr   client/service.go loopLoginUntilSuccess: RunID of the SessionContext literal
//	workConnRunIDExpr  client/control.go: RunID of the msg.NewWorkConn literal
//
// Fails ("BROKEN TIE") when an anchor function is missing.  Changed expressions are written as found; the Lean
// obligations `C12.table_keys_are_the_sent_name`, `C12.client_login_shape` decide.

import (
	"fmt"
	"go/ast"
	"go/parser"
	"go/token"
	"os"
	"path/filepath"
	"sort"
	"strings"
)

func init() { generators["KeyFacts"] = genKeyFacts }

type kfPair struct{ a, b string }

func kfFuncName(fd *ast.FuncDecl) string {
	if fd.Recv != nil && len(fd.Recv.List) == 1 {
		t := fd.Recv.List[0].Type
		if st, ok := t.(*ast.StarExpr); ok {
			t = st.X
		}
		if id, ok := t.(*ast.Ident); ok {
			return id.Name + "." + fd.Name.Name
		}
	}
	return fd.Name.Name
}

func kfParseDir(fset *token.FileSet, dir string) (map[string]*ast.File, error) {
	ents, err := os.ReadDir(dir)
	if err != nil {
		return nil, err
	}
	out := map[string]*ast.File{}
	for _, e := range ents {
		n := e.Name()
		if e.IsDir() || !strings.HasSuffix(n, ".go") || strings.HasSuffix(n, "_test.go") || strings.HasPrefix(n, "verif_") {
			continue
		}
		f, err := parser.ParseFile(fset, filepath.Join(dir, n), nil, 0)
		if err != nil {
			return nil, err
		}
		out[n] = f
	}
	return out, nil
}

func kfSortedNames(m map[string]*ast.File) []string {
	ns := []string{}
	for n := range m {
		ns = append(ns, n)
	}
	sort.Strings(ns)
	return ns
}

// value of `field:` in the first composite literal of type <typ> (source text of the type) inside n
func kfLitField(fset *token.FileSet, n ast.Node, typ, field string) (string, bool) {
	res, found := "", false
	ast.Inspect(n, func(x ast.Node) bool {
		if found {
			return false
		}
		cl, ok := x.(*ast.CompositeLit)
		if !ok || cl.Type == nil || agSrc(fset, cl.Type) != typ {
			return true
		}
		for _, el := range cl.Elts {
			if kv, ok := el.(*ast.KeyValueExpr); ok {
				if id, ok := kv.Key.(*ast.Ident); ok && id.Name == field {
					res, found = agSrc(fset, kv.Value), true
					return false
				}
			}
		}
		return true
	})
	return res, found
}

func genKeyFacts(repo, out string) error {
	fset := token.NewFileSet()

	// ---- server/control.go: table sites
	cf, err := parser.ParseFile(fset, filepath.Join(repo, "server", "control.go"), nil, 0)
	if err != nil {
		return err
	}
	for _, need := range []string{"RegisterProxy", "CloseProxy", "worker"} {
		if sfMethod(cf, "Control", need) == nil {
			return fail("server/control.go: method (*Control).%s not found", need)
		}
	}
	var sites []kfPair
	for _, d := range cf.Decls {
		fd, ok := d.(*ast.FuncDecl)
		if !ok || fd.Body == nil {
			continue
		}
		fn := fd.Name.Name
		assigned := map[ast.Expr]bool{}
		ast.Inspect(fd.Body, func(n ast.Node) bool {
			if as, ok := n.(*ast.AssignStmt); ok && as.Tok == token.ASSIGN {
				for _, l := range as.Lhs {
					assigned[l] = true
				}
			}
			return true
		})
		ast.Inspect(fd.Body, func(n ast.Node) bool {
			switch n := n.(type) {
			case *ast.CallExpr:
				src := agSrc(fset, n.Fun)
				for _, op := range []string{"Exist", "Add", "Del"} {
					if src == "ctl.pxyManager."+op && len(n.Args) >= 1 {
						sites = append(sites, kfPair{fn + ":pxyManager." + op, agSrc(fset, n.Args[0])})
					}
				}
				if src == "delete" && len(n.Args) == 2 && agSrc(fset, n.Args[0]) == "ctl.proxies" {
					sites = append(sites, kfPair{fn + ":proxies.delete", agSrc(fset, n.Args[1])})
				}
			case *ast.IndexExpr:
				if agSrc(fset, n.X) == "ctl.proxies" {
					op := "proxies.lookup"
					if assigned[n] {
						op = "proxies.insert"
					}
					sites = append(sites, kfPair{fn + ":" + op, agSrc(fset, n.Index)})
				}
			case *ast.RangeStmt:
				if agSrc(fset, n.X) == "ctl.proxies" {
					v := "_"
					if n.Value != nil {
						v = agSrc(fset, n.Value)
					}
					sites = append(sites, kfPair{fn + ":proxies.range", v})
				}
			}
			return true
		})
	}

	// ---- pkg/config/v1/proxy.go: who writes a Name; typed Complete methods call the base
	pf, err := parser.ParseFile(fset, filepath.Join(repo, "pkg", "config", "v1", "proxy.go"), nil, 0)
	if err != nil {
		return err
	}
	if sfMethod(pf, "ProxyBaseConfig", "Complete") == nil || sfMethod(pf, "ProxyBaseConfig", "UnmarshalFromMsg") == nil {
		return fail("pkg/config/v1/proxy.go: ProxyBaseConfig.Complete / UnmarshalFromMsg not found")
	}
	var nameAssigns []kfPair
	for _, d := range pf.Decls {
		fd, ok := d.(*ast.FuncDecl)
		if !ok || fd.Body == nil {
			continue
		}
		fname := kfFuncName(fd)
		ast.Inspect(fd.Body, func(n ast.Node) bool {
			switch n := n.(type) {
			case *ast.AssignStmt:
				for _, l := range n.Lhs {
					if sel, ok := l.(*ast.SelectorExpr); ok && sel.Sel.Name == "Name" {
						nameAssigns = append(nameAssigns, kfPair{fname, agSrc(fset, n)})
					}
				}
			case *ast.IncDecStmt:
				if sel, ok := n.X.(*ast.SelectorExpr); ok && sel.Sel.Name == "Name" {
					nameAssigns = append(nameAssigns, kfPair{fname, agSrc(fset, n)})
				}
			}
			return true
		})
	}

	// ---- pkg/config/load.go NewProxyConfigurerFromMsg
	lf, err := parser.ParseFile(fset, filepath.Join(repo, "pkg", "config", "load.go"), nil, 0)
	if err != nil {
		return err
	}
	fm := sfMethod(lf, "", "NewProxyConfigurerFromMsg")
	if fm == nil || fm.Body == nil {
		return fail("pkg/config/load.go: NewProxyConfigurerFromMsg not found")
	}
	var fromMsgCalls []string
	fromMsgAssignsName := false
	ast.Inspect(fm.Body, func(n ast.Node) bool {
		switch n := n.(type) {
		case *ast.CallExpr:
			if sel, ok := n.Fun.(*ast.SelectorExpr); ok {
				if id, ok := sel.X.(*ast.Ident); ok && id.Name == "configurer" {
					fromMsgCalls = append(fromMsgCalls, strings.TrimPrefix(agSrc(fset, n), "configurer."))
				}
			}
		case *ast.AssignStmt:
			for _, l := range n.Lhs {
				if sel, ok := l.(*ast.SelectorExpr); ok && sel.Sel.Name == "Name" {
					fromMsgAssignsName = true
				}
			}
		}
		return true
	})

	// ---- server/proxy: the object's name
	pdir, err := kfParseDir(fset, filepath.Join(repo, "server", "proxy"))
	if err != nil {
		return err
	}
	px := pdir["proxy.go"]
	if px == nil {
		return fail("server/proxy/proxy.go not found")
	}
	np := sfMethod(px, "", "NewProxy")
	gn := sfMethod(px, "BaseProxy", "GetName")
	if np == nil || gn == nil || gn.Body == nil {
		return fail("server/proxy/proxy.go: NewProxy / (*BaseProxy).GetName not found")
	}
	baseProxyNameInit, _ := kfLitField(fset, np, "BaseProxy", "name")
	var getNameBody []string
	for _, st := range gn.Body.List {
		getNameBody = append(getNameBody, agSrc(fset, st))
	}
	var nameFieldAssigns []kfPair
	for _, fn := range kfSortedNames(pdir) {
		for _, d := range pdir[fn].Decls {
			fd, ok := d.(*ast.FuncDecl)
			if !ok || fd.Body == nil {
				continue
			}
			ast.Inspect(fd.Body, func(n ast.Node) bool {
				if as, ok := n.(*ast.AssignStmt); ok {
					for _, l := range as.Lhs {
						if sel, ok := l.(*ast.SelectorExpr); ok && sel.Sel.Name == "name" {
							nameFieldAssigns = append(nameFieldAssigns, kfPair{fn + ":" + kfFuncName(fd), agSrc(fset, as)})
						}
					}
				}
				return true
			})
		}
	}

	// ---- client: run id kept and presented
	cdir, err := kfParseDir(fset, filepath.Join(repo, "client"))
	if err != nil {
		return err
	}
	sv := cdir["service.go"]
	if sv == nil {
		return fail("client/service.go not found")
	}
	login := sfMethod(sv, "Service", "login")
	loop := sfMethod(sv, "Service", "loopLoginUntilSuccess")
	if login == nil || login.Body == nil || loop == nil {
		return fail("client/service.go: (*Service).login / loopLoginUntilSuccess not found")
	}
	loginRunIDExpr, _ := kfLitField(fset, login, "msg.Login", "RunID")
	if loginRunIDExpr == "" {
		loginRunIDExpr, _ = kfLitField(fset, login, "&msg.Login", "RunID")
	}
	sessionRunIDExpr, _ := kfLitField(fset, loop, "SessionContext", "RunID")
	var runIDAssigns []kfPair
	for _, fn := range kfSortedNames(cdir) {
		for _, d := range cdir[fn].Decls {
			fd, ok := d.(*ast.FuncDecl)
			if !ok || fd.Body == nil {
				continue
			}
			ast.Inspect(fd.Body, func(n ast.Node) bool {
				if as, ok := n.(*ast.AssignStmt); ok {
					for _, l := range as.Lhs {
						if agSrc(fset, l) == "svr.runID" {
							runIDAssigns = append(runIDAssigns, kfPair{kfFuncName(fd), agSrc(fset, as)})
						}
					}
				}
				return true
			})
		}
	}
	errIdx, asgIdx, errReturns := -1, -1, false
	for i, st := range login.Body.List {
		switch st := st.(type) {
		case *ast.IfStmt:
			if agSrc(fset, st.Cond) == `loginRespMsg.Error != ""` && errIdx < 0 {
				errIdx = i
				if k := len(st.Body.List); k > 0 {
					_, errReturns = st.Body.List[k-1].(*ast.ReturnStmt)
				}
			}
		case *ast.AssignStmt:
			if len(st.Lhs) == 1 && agSrc(fset, st.Lhs[0]) == "svr.runID" && asgIdx < 0 {
				asgIdx = i
			}
		}
	}
	runIDAssignAfterErrCheck := errIdx >= 0 && asgIdx > errIdx
	workConnRunIDExpr := ""
	if cc := cdir["control.go"]; cc != nil {
		workConnRunIDExpr, _ = kfLitField(fset, cc, "msg.NewWorkConn", "RunID")
	}

	strList := func(xs []string) string {
		q := []string{}
		for _, x := range xs {
			q = append(q, agLeanStr(x))
		}
		return "[" + strings.Join(q, ", ") + "]"
	}
	pairList := func(xs []kfPair) string {
		q := []string{}
		for _, x := range xs {
			q = append(q, "("+agLeanStr(x.a)+", "+agLeanStr(x.b)+")")
		}
		return "[" + strings.Join(q, ",\n   ") + "]"
	}
	var b strings.Builder
	b.WriteString("/- GENERATED by translate/gen_keyfacts.go from server/control.go, pkg/config/load.go, pkg/config/v1/proxy.go,\n   server/proxy/*.go, client/*.go. Do not edit. -/\n")
	b.WriteString("namespace Frp.Gen.KeyFacts\n\n")
	fmt.Fprintf(&b, "def tableSites : List (String × String) :=\n  %s\n", pairList(sites))
	fmt.Fprintf(&b, "def nameAssigns : List (String × String) :=\n  %s\n", pairList(nameAssigns))
	fmt.Fprintf(&b, "def fromMsgCalls : List String := %s\n", strList(fromMsgCalls))
	fmt.Fprintf(&b, "def fromMsgAssignsName : Bool := %v\n", fromMsgAssignsName)
	fmt.Fprintf(&b, "def baseProxyNameInit : String := %s\n", agLeanStr(baseProxyNameInit))
	fmt.Fprintf(&b, "def getNameBody : List String := %s\n", strList(getNameBody))
	fmt.Fprintf(&b, "def nameFieldAssigns : List (String × String) :=\n  %s\n", pairList(nameFieldAssigns))
	fmt.Fprintf(&b, "def loginRunIDExpr : String := %s\n", agLeanStr(loginRunIDExpr))
	fmt.Fprintf(&b, "def runIDAssigns : List (String × String) :=\n  %s\n", pairList(runIDAssigns))
	fmt.Fprintf(&b, "def runIDAssignAfterErrCheck : Bool := %v\n", runIDAssignAfterErrCheck)
	fmt.Fprintf(&b, "def errCheckReturns : Bool := %v\n", errReturns)
	fmt.Fprintf(&b, "def sessionRunIDExpr : String := %s\n", agLeanStr(sessionRunIDExpr))
	fmt.Fprintf(&b, "def workConnRunIDExpr : String := %s\n", agLeanStr(workConnRunIDExpr))
	b.WriteString("\nend Frp.Gen.KeyFacts\n")
	return os.WriteFile(filepath.Join(out, "KeyFacts.lean"), []byte(b.String()), 0o644)
}
