package main

// Generator IndexFacts (C16): every indexing / slicing expression of the packages that parse what a USER sends to a
// user-facing listener — pkg/util/http, pkg/util/vhost, pkg/util/tcpmux — with the guards that dominate it.
//
// vhost.(*Muxer).handle runs the host extraction of the tcpmux and https listeners in a bare goroutine: an
// `index out of range` / `slice bounds out of range` there ends frps.  For every `x[i]` and `x[a:b]` in a non-test
// file of these packages the generator emits
//
//	opKind   map      x is a map (a lookup never panics)          — resolved syntactically from declarations
//	         seq      x is a string / slice / array
//	         unknown  not resolved (the Lean judgement REJECTS it)
//	shape    index b | slice lo? hi?   with bounds  const n | lenOf v | var i | varPlus i k | lenMinus v k | other text
//	facts    what holds on every path to the site and was not invalidated since:
//	           lenGe v n     from  len(v) >= n, len(v) > n-1, v != "", !(len(v) < n) …   also from c := strings.Count(v, "lit")
//	                               with c != 0 established (a non-empty literal occurs in v, so v is not empty)
//	           lenGeLen v p  from  len(v) >= len(p) …
//	           idxIn i v     from  i := strings.Index*(v, …) with i >= 0 established (such an index is < len(v))
//	           varLeLen i v  from  len(v) >= i, !(len(v) < i) … where both sides may stand inside a conversion that keeps the
//	                               value on a 64-bit platform: uint64(len(v)) / int(len(v)), int(i) / uint64(i) for i of an
//	                               unsigned type of at most 32 bits
//	           defPlus i k T from  i := k + E or E + k with k a constant and E = binary.BigEndian.Uint32 / Uint16(…), possibly
//	                               converted: T is the TYPE THE SUM IS COMPUTED IN — u32 (uint32: the sum wraps modulo 2^32)
//	                               or wide (int, int64, uint64: no wrap for k, E < 2^32).  Listed at a site whose bound is i.
//	         Facts come from: the condition of an enclosing `if` / `for`, the negation of the condition of an earlier `if`
//	         whose body leaves (return / break / continue / goto / panic), the left operand of `&&` (as is) and of `||`
//	         (negated).  An assignment to a variable (=, :=, op=, ++, --, range / for variables, a variable assigned
//	         anywhere inside a loop: at the loop head) DROPS every fact about it; branches are merged by intersection;
//	         function literals start with nothing.
//
// Which facts suffice for which shape is decided in Lean (Frp/Model/UserInput.lean IdxSite.ok, soundness
// Lemmas/UserInput.lean IdxSite.ok_safe).  Syntactic, no type checker: types are resolved from the declarations of the
// package (struct fields, named types, parameters, := from make / literals / a few strings.* functions).
// Fails ("BROKEN TIE") when a package has no site at all or hasPort's `host[0]` is not found (extractor blind).
//
// pkg/ssh (the ssh tunnel gateway: whoever reaches its port and passes — or needs no — public-key authentication chooses
// the bytes of every global and channel request) is extracted the same way into a list of its own, `sshSites`, together with
// `sshExecEnd` (the defPlus fact of handleNewChannel's `end`), the ssh.Unmarshal calls with the field types of their target
// and whether the error is tested, the `go` statements of the package and its number of recover() calls.

import (
	"fmt"
	"go/ast"
	"go/parser"
	"go/token"
	"os"
	"path/filepath"
	"sort"
	"strconv"
	"strings"
)

func init() { generators["IndexFacts"] = genIndexFacts }

var ixPackages = []string{"pkg/util/http", "pkg/util/vhost", "pkg/util/tcpmux"}

type ixFact struct {
	kind string // lenGe | lenGeLen | idxIn | varLeLen | defPlus
	a, b string
	n    int
	t    string // defPlus: the type the sum is computed in (u32 | wide)
}

func (f ixFact) lean() string {
	switch f.kind {
	case "lenGe":
		return fmt.Sprintf(".lenGe %s %d", agLeanStr(f.a), f.n)
	case "lenGeLen":
		return fmt.Sprintf(".lenGeLen %s %s", agLeanStr(f.a), agLeanStr(f.b))
	case "varLeLen":
		return fmt.Sprintf(".varLeLen %s %s", agLeanStr(f.a), agLeanStr(f.b))
	case "defPlus":
		return fmt.Sprintf(".defPlus %s %d .%s", agLeanStr(f.a), f.n, f.t)
	}
	return fmt.Sprintf(".idxIn %s %s", agLeanStr(f.a), agLeanStr(f.b))
}

type ixState struct {
	facts map[ixFact]bool
	idxOf map[string]string // i -> v: i is the result of strings.Index*(v, …)
	cntOf map[string]string // c -> v: c is the result of strings.Count(v, non-empty literal)
}

func ixNew() *ixState {
	return &ixState{facts: map[ixFact]bool{}, idxOf: map[string]string{}, cntOf: map[string]string{}}
}

func (s *ixState) clone() *ixState {
	o := ixNew()
	for k := range s.facts {
		o.facts[k] = true
	}
	for k, v := range s.idxOf {
		o.idxOf[k] = v
	}
	for k, v := range s.cntOf {
		o.cntOf[k] = v
	}
	return o
}

func (s *ixState) with(fs []ixFact) *ixState {
	o := s.clone()
	for _, f := range fs {
		o.facts[f] = true
	}
	return o
}

func ixMeet(a, b *ixState) *ixState {
	o := ixNew()
	for k := range a.facts {
		if b.facts[k] {
			o.facts[k] = true
		}
	}
	for k, v := range a.idxOf {
		if b.idxOf[k] == v {
			o.idxOf[k] = v
		}
	}
	for k, v := range a.cntOf {
		if b.cntOf[k] == v {
			o.cntOf[k] = v
		}
	}
	return o
}

func ixMentions(key, name string) bool {
	return key == name || strings.HasPrefix(key, name+".") || strings.HasPrefix(key, name+"[")
}

func (s *ixState) kill(name string) {
	for f := range s.facts {
		if ixMentions(f.a, name) || ixMentions(f.b, name) {
			delete(s.facts, f)
		}
	}
	for k, v := range s.idxOf {
		if ixMentions(k, name) || ixMentions(v, name) {
			delete(s.idxOf, k)
		}
	}
	for k, v := range s.cntOf {
		if ixMentions(k, name) || ixMentions(v, name) {
			delete(s.cntOf, k)
		}
	}
}

type ixSite struct {
	file, fn string
	line     int
	expr     string
	operand  string
	opKind   string
	shape    string
	facts    []ixFact
}

type ixPkg struct {
	structs map[string]*ast.StructType
	named   map[string]ast.Expr // named non-struct types
	funcs   map[string]*ast.FuncDecl
	vars    map[string]ast.Expr
	imports map[string]bool
}

type ixWalker struct {
	fset *token.FileSet
	rel  string
	fn   string
	pkg  *ixPkg
	env  map[string]ast.Expr
	out  *[]ixSite
}

func ixIdent(name string) ast.Expr { return &ast.Ident{Name: name} }

var ixStringsString = map[string]bool{"ToLower": true, "ToUpper": true, "TrimSuffix": true, "TrimPrefix": true, "TrimSpace": true, "Trim": true,
	"TrimLeft": true, "TrimRight": true, "Join": true, "Replace": true, "ReplaceAll": true, "Repeat": true, "Title": true, "TrimFunc": true}
var ixStringsSlice = map[string]bool{"Split": true, "SplitN": true, "SplitAfter": true, "Fields": true, "SplitAfterN": true}
var ixStringsIndex = map[string]bool{"Index": true, "IndexByte": true, "IndexRune": true, "IndexAny": true, "LastIndex": true, "LastIndexByte": true,
	"LastIndexAny": true}

// fields of a few standard-library types the three packages reach through
var ixExtFields = map[string]string{
	"httputil.ProxyRequest.Out": "*http.Request", "httputil.ProxyRequest.In": "*http.Request",
	"http.Request.Header": "http.Header", "http.Request.Host": "string", "http.Request.Method": "string", "http.Request.RequestURI": "string",
	"http.Response.Header": "http.Header", "tls.ClientHelloInfo.ServerName": "string",
}
var ixExtMaps = map[string]bool{"http.Header": true, "url.Values": true, "textproto.MIMEHeader": true}

// golang.org/x/crypto/ssh as pkg/ssh uses it (read from the module source): results of functions / methods, fields
var ixExtResults = map[string][]string{
	"ssh.NewServerConn":     {"*ssh.ServerConn", "<-chan ssh.NewChannel", "<-chan *ssh.Request", "error"},
	"ssh.NewChannel.Accept": {"ssh.Channel", "<-chan *ssh.Request", "error"},
	"binary.BigEndian.Uint16": {"uint16"}, "binary.BigEndian.Uint32": {"uint32"}, "binary.BigEndian.Uint64": {"uint64"},
	"binary.LittleEndian.Uint16": {"uint16"}, "binary.LittleEndian.Uint32": {"uint32"}, "binary.LittleEndian.Uint64": {"uint64"},
}

func init() {
	for k, v := range map[string]string{
		"ssh.ServerConn.Permissions": "*ssh.Permissions", "ssh.Permissions.Extensions": "map[string]string",
		"ssh.Permissions.CriticalOptions": "map[string]string",
		"ssh.Request.Payload": "[]byte", "ssh.Request.Type": "string", "ssh.Request.WantReply": "bool",
	} {
		ixExtFields[k] = v
	}
}

var ixNumConv = map[string]bool{"int": true, "int8": true, "int16": true, "int32": true, "int64": true, "uint": true, "uint8": true, "uint16": true,
	"uint32": true, "uint64": true, "byte": true, "uintptr": true}

func ixParseType(s string) ast.Expr {
	e, err := parser.ParseExpr(s)
	if err != nil {
		return nil
	}
	return e
}

func (w *ixWalker) src(n ast.Node) string { return agSrc(w.fset, n) }

func (w *ixWalker) underlying(t ast.Expr, depth int) ast.Expr {
	if t == nil || depth > 6 {
		return nil
	}
	switch x := t.(type) {
	case *ast.ParenExpr:
		return w.underlying(x.X, depth+1)
	case *ast.Ident:
		if d, ok := w.pkg.named[x.Name]; ok {
			return w.underlying(d, depth+1)
		}
		return x
	}
	return t
}

func (w *ixWalker) deref(t ast.Expr) ast.Expr {
	if s, ok := t.(*ast.StarExpr); ok {
		return s.X
	}
	return t
}

func (w *ixWalker) resultType(call *ast.CallExpr, idx int) ast.Expr {
	switch f := call.Fun.(type) {
	case *ast.ArrayType:
		return f
	case *ast.MapType:
		return f
	case *ast.Ident:
		switch f.Name {
		case "make", "new":
			if len(call.Args) > 0 {
				if f.Name == "new" {
					return &ast.StarExpr{X: call.Args[0]}
				}
				return call.Args[0]
			}
		case "string":
			return ixIdent("string")
		case "len", "cap", "int", "copy":
			return ixIdent("int")
		case "int8", "int16", "int32", "int64", "uint", "uint8", "uint16", "uint32", "uint64", "byte", "uintptr":
			if _, shadow := w.env[f.Name]; !shadow && len(call.Args) == 1 {
				return ixIdent(f.Name)
			}
		case "append":
			if len(call.Args) > 0 {
				return w.typeOf(call.Args[0])
			}
		}
		if fd, ok := w.pkg.funcs[f.Name]; ok && fd.Type.Results != nil {
			k := 0
			for _, r := range fd.Type.Results.List {
				n := len(r.Names)
				if n == 0 {
					n = 1
				}
				if idx < k+n {
					return r.Type
				}
				k += n
			}
		}
		if _, ok := w.pkg.named[f.Name]; ok { // conversion to a named type
			return f
		}
	case *ast.SelectorExpr:
		if p, ok := f.X.(*ast.Ident); ok && w.pkg.imports[p.Name] {
			switch {
			case p.Name == "strings" && ixStringsString[f.Sel.Name]:
				return ixIdent("string")
			case p.Name == "strings" && ixStringsSlice[f.Sel.Name]:
				return ixParseType("[]string")
			case p.Name == "strings" && (ixStringsIndex[f.Sel.Name] || f.Sel.Name == "Count"):
				return ixIdent("int")
			case p.Name == "net" && f.Sel.Name == "SplitHostPort" && idx < 2:
				return ixIdent("string")
			}
		}
		// a function / method of a package outside the tree whose results were read from its source
		if rs, ok := ixExtResults[w.src(f)]; ok && idx < len(rs) {
			return ixParseType(rs[idx])
		}
		if rt := w.deref(w.typeOf(f.X)); rt != nil {
			if rs, ok := ixExtResults[w.src(rt)+"."+f.Sel.Name]; ok && idx < len(rs) {
				return ixParseType(rs[idx])
			}
		}
		if f.Sel.Name == "DecodeString" && idx == 0 { // base64.*Encoding.DecodeString
			return ixParseType("[]byte")
		}
		if f.Sel.Name == "Get" && len(call.Args) == 1 { // Header.Get, url.Values.Get
			return ixIdent("string")
		}
	}
	// a call through a value of function type (a field, a variable)
	if _, isType := call.Fun.(*ast.ArrayType); !isType {
		if ft, ok := w.underlying(w.typeOf(call.Fun), 0).(*ast.FuncType); ok && ft.Results != nil {
			k := 0
			for _, r := range ft.Results.List {
				n := len(r.Names)
				if n == 0 {
					n = 1
				}
				if idx < k+n {
					return r.Type
				}
				k += n
			}
		}
	}
	return nil
}

func (w *ixWalker) typeOf(e ast.Expr) ast.Expr {
	switch x := e.(type) {
	case *ast.ParenExpr:
		return w.typeOf(x.X)
	case *ast.Ident:
		if t, ok := w.env[x.Name]; ok {
			return t
		}
		if t, ok := w.pkg.vars[x.Name]; ok {
			return t
		}
	case *ast.BasicLit:
		switch x.Kind {
		case token.STRING:
			return ixIdent("string")
		case token.INT:
			return ixIdent("int")
		}
	case *ast.StarExpr:
		return w.deref(w.typeOf(x.X))
	case *ast.UnaryExpr:
		if x.Op == token.AND {
			if t := w.typeOf(x.X); t != nil {
				return &ast.StarExpr{X: t}
			}
		}
	case *ast.CompositeLit:
		return x.Type
	case *ast.CallExpr:
		return w.resultType(x, 0)
	case *ast.SliceExpr:
		return w.typeOf(x.X)
	case *ast.BinaryExpr:
		if x.Op == token.ADD {
			if _, untyped := ixIntLit(x.X); untyped { // k + e: an untyped constant takes the type of the other operand
				if t := w.typeOf(x.Y); t != nil {
					return t
				}
			}
			return w.typeOf(x.X)
		}
	case *ast.IndexExpr:
		switch t := w.underlying(w.typeOf(x.X), 0).(type) {
		case *ast.MapType:
			return t.Value
		case *ast.ArrayType:
			return t.Elt
		case *ast.Ident:
			if t.Name == "string" {
				return ixIdent("byte")
			}
		case *ast.SelectorExpr:
			if ixExtMaps[w.src(t)] {
				return ixParseType("[]string")
			}
		}
	case *ast.SelectorExpr:
		if p, ok := x.X.(*ast.Ident); ok && w.pkg.imports[p.Name] {
			if _, shadow := w.env[p.Name]; !shadow {
				return nil
			}
		}
		t := w.deref(w.typeOf(x.X))
		if t == nil {
			return nil
		}
		switch tt := t.(type) {
		case *ast.Ident:
			if st, ok := w.pkg.structs[tt.Name]; ok {
				for _, f := range st.Fields.List {
					for _, n := range f.Names {
						if n.Name == x.Sel.Name {
							return f.Type
						}
					}
					if len(f.Names) == 0 { // embedded: one level
						et := w.deref(f.Type)
						if id, ok := et.(*ast.Ident); ok {
							if est, ok := w.pkg.structs[id.Name]; ok {
								for _, ef := range est.Fields.List {
									for _, n := range ef.Names {
										if n.Name == x.Sel.Name {
											return ef.Type
										}
									}
								}
							}
						}
					}
				}
			}
		case *ast.SelectorExpr:
			if s, ok := ixExtFields[w.src(tt)+"."+x.Sel.Name]; ok {
				return ixParseType(s)
			}
		}
	}
	return nil
}

func (w *ixWalker) opKind(x ast.Expr) string {
	t := w.underlying(w.typeOf(x), 0)
	switch tt := t.(type) {
	case *ast.MapType:
		return "map"
	case *ast.ArrayType:
		return "seq"
	case *ast.Ident:
		if tt.Name == "string" {
			return "seq"
		}
	case *ast.SelectorExpr:
		if ixExtMaps[w.src(tt)] {
			return "map"
		}
	}
	return "unknown"
}

func ixIntLit(e ast.Expr) (int, bool) {
	switch x := e.(type) {
	case *ast.ParenExpr:
		return ixIntLit(x.X)
	case *ast.BasicLit:
		if x.Kind == token.INT {
			if n, err := strconv.Atoi(x.Value); err == nil {
				return n, true
			}
		}
	case *ast.UnaryExpr:
		if x.Op == token.SUB {
			if n, ok := ixIntLit(x.X); ok {
				return -n, true
			}
		}
	}
	return 0, false
}

func (w *ixWalker) lenArg(e ast.Expr) (string, bool) {
	if c, ok := e.(*ast.CallExpr); ok && len(c.Args) == 1 {
		if id, ok := c.Fun.(*ast.Ident); ok && id.Name == "len" {
			return w.src(c.Args[0]), true
		}
	}
	return "", false
}

func ixStripParen(e ast.Expr) ast.Expr {
	for {
		p, ok := e.(*ast.ParenExpr)
		if !ok {
			return e
		}
		e = p.X
	}
}

// T(x) for a predeclared numeric type T that is not shadowed: (T, x)
func (w *ixWalker) numConv(e ast.Expr) (string, ast.Expr, bool) {
	if c, ok := ixStripParen(e).(*ast.CallExpr); ok && len(c.Args) == 1 {
		if id, ok := c.Fun.(*ast.Ident); ok && ixNumConv[id.Name] {
			if _, shadow := w.env[id.Name]; !shadow {
				return id.Name, c.Args[0], true
			}
		}
	}
	return "", nil, false
}

var ixWide = map[string]bool{"int": true, "int64": true, "uint64": true} // 64 bits on the platforms the harness runs on

// len(v), also inside a conversion that keeps the value (a length is >= 0 and below 2^63)
func (w *ixWalker) lenArgConv(e ast.Expr) (string, bool) {
	e = ixStripParen(e)
	if v, ok := w.lenArg(e); ok {
		return v, true
	}
	if t, in, ok := w.numConv(e); ok && (ixWide[t] || t == "uint") {
		return w.lenArg(ixStripParen(in))
	}
	return "", false
}

func ixTypeName(t ast.Expr) string {
	if id, ok := t.(*ast.Ident); ok {
		return id.Name
	}
	return ""
}

// a variable compared in its own type, or inside a conversion that keeps its value: T(i) with T of 64 bits and i of an
// unsigned type of at most 32 bits
func (w *ixWalker) varConv(e ast.Expr) (string, bool) {
	e = ixStripParen(e)
	if id, ok := e.(*ast.Ident); ok && id.Name != "_" && id.Name != "nil" && id.Name != "true" && id.Name != "false" {
		return id.Name, true
	}
	if t, in, ok := w.numConv(e); ok && ixWide[t] {
		if id, ok := ixStripParen(in).(*ast.Ident); ok {
			switch ixTypeName(w.typeOf(id)) {
			case "uint32", "uint16", "uint8", "byte":
				return id.Name, true
			}
		}
	}
	return "", false
}

// E of `k + E`: binary.BigEndian.Uint32 / Uint16(…), possibly converted; the class of the type the sum is computed in
func (w *ixWalker) sumType(e ast.Expr) (string, bool) {
	e = ixStripParen(e)
	src := func(x ast.Expr) string {
		if c, ok := ixStripParen(x).(*ast.CallExpr); ok {
			if rs, ok := ixExtResults[w.src(c.Fun)]; ok && len(rs) == 1 && (rs[0] == "uint32" || rs[0] == "uint16") {
				return rs[0]
			}
		}
		return ""
	}
	if t := src(e); t != "" {
		if t == "uint32" {
			return "u32", true
		}
		return "", false // uint16 arithmetic wraps at 2^16: nothing is concluded
	}
	if t, in, ok := w.numConv(e); ok && src(in) != "" {
		switch {
		case ixWide[t]:
			return "wide", true
		case t == "uint32":
			return "u32", true
		}
	}
	return "", false
}

func (w *ixWalker) bound(e ast.Expr) string {
	if p, ok := e.(*ast.ParenExpr); ok {
		return w.bound(p.X)
	}
	if n, ok := ixIntLit(e); ok && n >= 0 {
		return fmt.Sprintf(".const %d", n)
	}
	if v, ok := w.lenArg(e); ok {
		return ".lenOf " + agLeanStr(v)
	}
	if id, ok := e.(*ast.Ident); ok {
		return ".var " + agLeanStr(id.Name)
	}
	if b, ok := e.(*ast.BinaryExpr); ok {
		if n, ok := ixIntLit(b.Y); ok && n >= 0 {
			if b.Op == token.ADD {
				if id, ok := b.X.(*ast.Ident); ok {
					return fmt.Sprintf(".varPlus %s %d", agLeanStr(id.Name), n)
				}
			}
			if b.Op == token.SUB {
				if v, ok := w.lenArg(b.X); ok {
					return fmt.Sprintf(".lenMinus %s %d", agLeanStr(v), n)
				}
			}
		}
	}
	return ".other " + agLeanStr(w.src(e))
}

func ixMirror(op token.Token) token.Token {
	switch op {
	case token.LSS:
		return token.GTR
	case token.GTR:
		return token.LSS
	case token.LEQ:
		return token.GEQ
	case token.GEQ:
		return token.LEQ
	}
	return op
}

func ixNegate(op token.Token) token.Token {
	switch op {
	case token.LSS:
		return token.GEQ
	case token.GEQ:
		return token.LSS
	case token.GTR:
		return token.LEQ
	case token.LEQ:
		return token.GTR
	case token.EQL:
		return token.NEQ
	case token.NEQ:
		return token.EQL
	}
	return op
}

// the facts a condition establishes when it evaluates to `truth`
func (w *ixWalker) factsOf(cond ast.Expr, truth bool, st *ixState) []ixFact {
	switch x := cond.(type) {
	case *ast.ParenExpr:
		return w.factsOf(x.X, truth, st)
	case *ast.UnaryExpr:
		if x.Op == token.NOT {
			return w.factsOf(x.X, !truth, st)
		}
	case *ast.BinaryExpr:
		switch x.Op {
		case token.LAND:
			if truth {
				return append(w.factsOf(x.X, true, st), w.factsOf(x.Y, true, st)...)
			}
			return nil
		case token.LOR:
			if !truth {
				return append(w.factsOf(x.X, false, st), w.factsOf(x.Y, false, st)...)
			}
			return nil
		case token.LSS, token.GTR, token.LEQ, token.GEQ, token.EQL, token.NEQ:
			op := x.Op
			if !truth {
				op = ixNegate(op)
			}
			l, r := x.X, x.Y
			// the interesting term to the left
			_, lLit := ixIntLit(l)
			if bl, ok := l.(*ast.BasicLit); lLit || (ok && bl.Kind == token.STRING) {
				l, r = r, l
				op = ixMirror(op)
			}
			if _, ok := w.lenArgConv(l); !ok {
				if _, ok := w.lenArgConv(r); ok { // i <= len(v): the length to the left
					l, r = r, l
					op = ixMirror(op)
				}
			}
			var out []ixFact
			varCmp := func(v string) []ixFact {
				if i, ok := w.varConv(r); ok && !ixMentions(v, i) {
					switch op {
					case token.GEQ, token.GTR, token.EQL:
						return []ixFact{{kind: "varLeLen", a: i, b: v}}
					}
				}
				return nil
			}
			if v, ok := w.lenArg(l); ok {
				if _, isLit := ixIntLit(r); !isLit {
					if _, isLen := w.lenArg(r); !isLen {
						return varCmp(v)
					}
				}
				if n, ok := ixIntLit(r); ok {
					switch {
					case op == token.GEQ && n >= 0, op == token.EQL && n >= 0:
						out = append(out, ixFact{kind: "lenGe", a: v, n: n})
					case op == token.GTR && n >= -1:
						out = append(out, ixFact{kind: "lenGe", a: v, n: n + 1})
					case op == token.NEQ && n == 0:
						out = append(out, ixFact{kind: "lenGe", a: v, n: 1})
					}
				} else if p, ok := w.lenArg(r); ok {
					switch op {
					case token.GEQ, token.GTR:
						out = append(out, ixFact{kind: "lenGeLen", a: v, b: p})
					case token.LEQ, token.LSS:
						out = append(out, ixFact{kind: "lenGeLen", a: p, b: v})
					case token.EQL:
						out = append(out, ixFact{kind: "lenGeLen", a: v, b: p}, ixFact{kind: "lenGeLen", a: p, b: v})
					}
				}
				return out
			}
			if v, ok := w.lenArgConv(l); ok {
				return varCmp(v)
			}
			if bl, ok := r.(*ast.BasicLit); ok && bl.Kind == token.STRING {
				if s, err := strconv.Unquote(bl.Value); err == nil {
					if op == token.NEQ && s == "" {
						return []ixFact{{kind: "lenGe", a: w.src(l), n: 1}}
					}
					if op == token.EQL {
						return []ixFact{{kind: "lenGe", a: w.src(l), n: len(s)}}
					}
				}
				return nil
			}
			if id, ok := l.(*ast.Ident); ok {
				if n, ok := ixIntLit(r); ok {
					if v, ok := st.idxOf[id.Name]; ok {
						if (op == token.GEQ && n >= 0) || (op == token.GTR && n >= -1) || (op == token.NEQ && n == -1) || (op == token.EQL && n >= 0) {
							return []ixFact{{kind: "idxIn", a: id.Name, b: v}}
						}
					}
					if v, ok := st.cntOf[id.Name]; ok {
						if (op == token.GEQ && n >= 1) || (op == token.GTR && n >= 0) || (op == token.NEQ && n == 0) || (op == token.EQL && n >= 1) {
							return []ixFact{{kind: "lenGe", a: v, n: 1}}
						}
					}
				}
			}
		}
	}
	return nil
}

func (w *ixWalker) site(e ast.Expr, x ast.Expr, shape string, st *ixState, bounds ...ast.Expr) {
	// not an index: a generic instantiation / a type expression
	if id, ok := x.(*ast.Ident); ok {
		if _, isFn := w.pkg.funcs[id.Name]; isFn {
			if _, local := w.env[id.Name]; !local {
				return
			}
		}
	}
	operand := w.src(x)
	var fs []ixFact
	for f := range st.facts {
		if f.a == operand || f.b == operand {
			fs = append(fs, f)
			continue
		}
		if f.kind == "defPlus" { // how a bound of this site was computed
			for _, b := range bounds {
				if b != nil {
					if id, ok := ixStripParen(b).(*ast.Ident); ok && id.Name == f.a {
						fs = append(fs, f)
						break
					}
				}
			}
		}
	}
	sort.Slice(fs, func(i, j int) bool { return fs[i].lean() < fs[j].lean() })
	*w.out = append(*w.out, ixSite{file: w.rel, fn: w.fn, line: w.fset.Position(e.Pos()).Line, expr: w.src(e), operand: operand,
		opKind: w.opKind(x), shape: shape, facts: fs})
}

// walk an expression in evaluation order, short-circuit operators refine the state
func (w *ixWalker) expr(e ast.Node, st *ixState) {
	if e == nil {
		return
	}
	switch x := e.(type) {
	case *ast.BinaryExpr:
		w.expr(x.X, st)
		switch x.Op {
		case token.LAND:
			w.expr(x.Y, st.with(w.factsOf(x.X, true, st)))
		case token.LOR:
			w.expr(x.Y, st.with(w.factsOf(x.X, false, st)))
		default:
			w.expr(x.Y, st)
		}
	case *ast.IndexExpr:
		w.expr(x.X, st)
		w.expr(x.Index, st)
		w.site(x, x.X, ".index ("+w.bound(x.Index)+")", st, x.Index)
	case *ast.SliceExpr:
		w.expr(x.X, st)
		opt := func(b ast.Expr) string {
			if b == nil {
				return "none"
			}
			w.expr(b, st)
			return "(some (" + w.bound(b) + "))"
		}
		lo, hi := opt(x.Low), opt(x.High)
		if x.Max != nil {
			hi = "(some (.other " + agLeanStr("3-index slice") + "))"
		}
		w.site(x, x.X, ".slice "+lo+" "+hi, st, x.Low, x.High)
	case *ast.FuncLit:
		sub := &ixWalker{fset: w.fset, rel: w.rel, fn: w.fn + ">func", pkg: w.pkg, env: map[string]ast.Expr{}, out: w.out}
		for k, v := range w.env {
			sub.env[k] = v
		}
		sub.params(x.Type)
		sub.block(x.Body.List, ixNew())
	case *ast.ParenExpr:
		w.expr(x.X, st)
	case *ast.UnaryExpr:
		w.expr(x.X, st)
	case *ast.StarExpr:
		w.expr(x.X, st)
	case *ast.SelectorExpr:
		w.expr(x.X, st)
	case *ast.CallExpr:
		w.expr(x.Fun, st)
		for _, a := range x.Args {
			w.expr(a, st)
		}
	case *ast.CompositeLit:
		for _, el := range x.Elts {
			w.expr(el, st)
		}
	case *ast.KeyValueExpr:
		w.expr(x.Key, st)
		w.expr(x.Value, st)
	case *ast.TypeAssertExpr:
		w.expr(x.X, st)
	case *ast.Ident, *ast.BasicLit, *ast.ArrayType, *ast.MapType, *ast.StructType, *ast.FuncType, *ast.InterfaceType, *ast.ChanType, *ast.Ellipsis:
	default:
		// anything unexpected: look inside without refinement (never skip a site)
		ast.Inspect(e, func(n ast.Node) bool {
			if n == e {
				return true
			}
			if ex, ok := n.(ast.Expr); ok {
				w.expr(ex, st)
				return false
			}
			return true
		})
	}
}

func ixAssigned(n ast.Node) map[string]bool {
	out := map[string]bool{}
	if n == nil {
		return out
	}
	lhs := func(e ast.Expr) {
		for {
			switch x := e.(type) {
			case *ast.ParenExpr:
				e = x.X
				continue
			case *ast.Ident:
				out[x.Name] = true
			case *ast.SelectorExpr:
				out[exprKey(x)] = true
			}
			return
		}
	}
	ast.Inspect(n, func(n ast.Node) bool {
		switch x := n.(type) {
		case *ast.AssignStmt:
			for _, l := range x.Lhs {
				lhs(l)
			}
		case *ast.IncDecStmt:
			lhs(x.X)
		case *ast.RangeStmt:
			if x.Key != nil {
				lhs(x.Key)
			}
			if x.Value != nil {
				lhs(x.Value)
			}
		case *ast.ValueSpec:
			for _, nm := range x.Names {
				out[nm.Name] = true
			}
		case *ast.UnaryExpr:
			if x.Op == token.AND { // &v handed out: anything may write it
				lhs(x.X)
			}
		}
		return true
	})
	return out
}

func exprKey(e ast.Expr) string {
	switch x := e.(type) {
	case *ast.Ident:
		return x.Name
	case *ast.SelectorExpr:
		return exprKey(x.X) + "." + x.Sel.Name
	case *ast.ParenExpr:
		return exprKey(x.X)
	}
	return "?"
}

func ixTerminates(list []ast.Stmt) bool {
	if len(list) == 0 {
		return false
	}
	switch x := list[len(list)-1].(type) {
	case *ast.ReturnStmt:
		return true
	case *ast.BranchStmt:
		return x.Tok == token.BREAK || x.Tok == token.CONTINUE || x.Tok == token.GOTO
	case *ast.ExprStmt:
		if c, ok := x.X.(*ast.CallExpr); ok {
			if id, ok := c.Fun.(*ast.Ident); ok && id.Name == "panic" {
				return true
			}
		}
	case *ast.BlockStmt:
		return ixTerminates(x.List)
	}
	return false
}

func (w *ixWalker) params(ft *ast.FuncType) {
	for _, fl := range []*ast.FieldList{ft.Params, ft.Results} {
		if fl == nil {
			continue
		}
		for _, f := range fl.List {
			for _, n := range f.Names {
				w.env[n.Name] = f.Type
			}
		}
	}
}

func (w *ixWalker) block(list []ast.Stmt, st *ixState) *ixState {
	for _, s := range list {
		st = w.stmt(s, st)
	}
	return st
}

func (w *ixWalker) assign(x *ast.AssignStmt, st *ixState) *ixState {
	for _, r := range x.Rhs {
		w.expr(r, st)
	}
	for _, l := range x.Lhs {
		if _, ok := l.(*ast.Ident); !ok {
			w.expr(l, st) // x[i] = …, x.f[i] = …: a site too
		}
	}
	st = st.clone()
	for _, l := range x.Lhs {
		switch t := l.(type) {
		case *ast.Ident:
			st.kill(t.Name)
		case *ast.SelectorExpr:
			st.kill(exprKey(t))
		case *ast.StarExpr:
			st.kill(exprKey(t.X))
		}
	}
	// types and relations of what was just assigned
	for i, l := range x.Lhs {
		id, ok := l.(*ast.Ident)
		if !ok || id.Name == "_" {
			continue
		}
		var t ast.Expr
		if len(x.Rhs) == len(x.Lhs) {
			t = w.typeOf(x.Rhs[i])
		} else if len(x.Rhs) == 1 {
			switch r := x.Rhs[0].(type) {
			case *ast.CallExpr:
				t = w.resultType(r, i)
			case *ast.IndexExpr: // v, ok := m[k]
				if i == 0 {
					t = w.typeOf(r)
				} else {
					t = ixIdent("bool")
				}
			case *ast.TypeAssertExpr:
				if i == 0 {
					t = r.Type
				}
			}
		}
		if x.Tok == token.DEFINE {
			if t != nil {
				w.env[id.Name] = t
			} else {
				delete(w.env, id.Name)
			}
		}
		if len(x.Rhs) == len(x.Lhs) && (x.Tok == token.DEFINE || x.Tok == token.ASSIGN) {
			if be, ok := ixStripParen(x.Rhs[i]).(*ast.BinaryExpr); ok && be.Op == token.ADD {
				kx, ex := be.X, be.Y
				if _, ok := ixIntLit(kx); !ok {
					kx, ex = be.Y, be.X
				}
				if k, ok := ixIntLit(kx); ok && k >= 0 {
					mentions := false
					ast.Inspect(ex, func(n ast.Node) bool {
						if idn, ok := n.(*ast.Ident); ok && idn.Name == id.Name {
							mentions = true
						}
						return true
					})
					if t, ok := w.sumType(ex); ok && !mentions {
						st.facts[ixFact{kind: "defPlus", a: id.Name, n: k, t: t}] = true
					}
				}
			}
		}
		if len(x.Rhs) == len(x.Lhs) && x.Tok != token.ADD_ASSIGN {
			if c, ok := x.Rhs[i].(*ast.CallExpr); ok {
				if sel, ok := c.Fun.(*ast.SelectorExpr); ok {
					if p, ok := sel.X.(*ast.Ident); ok && p.Name == "strings" && w.pkg.imports["strings"] && len(c.Args) == 2 {
						v := w.src(c.Args[0])
						if ixStringsIndex[sel.Sel.Name] && !ixMentions(v, id.Name) {
							st.idxOf[id.Name] = v
						}
						if sel.Sel.Name == "Count" && !ixMentions(v, id.Name) {
							if bl, ok := c.Args[1].(*ast.BasicLit); ok && bl.Kind == token.STRING {
								if s, err := strconv.Unquote(bl.Value); err == nil && s != "" {
									st.cntOf[id.Name] = v
								}
							}
						}
					}
				}
			}
		}
	}
	return st
}

func (w *ixWalker) stmt(s ast.Stmt, st *ixState) *ixState {
	switch x := s.(type) {
	case nil:
		return st
	case *ast.BlockStmt:
		return w.block(x.List, st)
	case *ast.LabeledStmt:
		return w.stmt(x.Stmt, st)
	case *ast.ExprStmt:
		w.expr(x.X, st)
		return st
	case *ast.SendStmt:
		w.expr(x.Chan, st)
		w.expr(x.Value, st)
		return st
	case *ast.IncDecStmt:
		w.expr(x.X, st)
		st = st.clone()
		st.kill(exprKey(x.X))
		return st
	case *ast.AssignStmt:
		return w.assign(x, st)
	case *ast.DeclStmt:
		st = st.clone()
		if gd, ok := x.Decl.(*ast.GenDecl); ok {
			for _, sp := range gd.Specs {
				if vs, ok := sp.(*ast.ValueSpec); ok {
					for _, v := range vs.Values {
						w.expr(v, st)
					}
					for i, n := range vs.Names {
						st.kill(n.Name)
						switch {
						case vs.Type != nil:
							w.env[n.Name] = vs.Type
						case i < len(vs.Values):
							if t := w.typeOf(vs.Values[i]); t != nil {
								w.env[n.Name] = t
							} else {
								delete(w.env, n.Name)
							}
						}
					}
				}
			}
		}
		return st
	case *ast.ReturnStmt:
		for _, r := range x.Results {
			w.expr(r, st)
		}
		return st
	case *ast.GoStmt:
		w.expr(x.Call, st)
		return st
	case *ast.DeferStmt:
		w.expr(x.Call, st)
		return st
	case *ast.IfStmt:
		st = w.stmt(x.Init, st)
		w.expr(x.Cond, st)
		stThen := w.block(x.Body.List, st.with(w.factsOf(x.Cond, true, st)))
		tThen := ixTerminates(x.Body.List)
		stElse := st.with(w.factsOf(x.Cond, false, st))
		tElse := false
		switch e := x.Else.(type) {
		case *ast.BlockStmt:
			stElse = w.block(e.List, stElse)
			tElse = ixTerminates(e.List)
		case *ast.IfStmt:
			stElse = w.stmt(e, stElse)
		}
		switch {
		case tThen && tElse:
			return stElse // unreachable
		case tThen:
			return stElse
		case tElse:
			return stThen
		}
		return ixMeet(stThen, stElse)
	case *ast.ForStmt:
		st = w.stmt(x.Init, st).clone()
		for v := range ixAssigned(x.Body) {
			st.kill(v)
		}
		for v := range ixAssigned(x.Post) {
			st.kill(v)
		}
		w.expr(x.Cond, st)
		in := st
		if x.Cond != nil {
			in = st.with(w.factsOf(x.Cond, true, st))
		}
		after := w.block(x.Body.List, in)
		w.stmt(x.Post, after)
		return st
	case *ast.RangeStmt:
		w.expr(x.X, st)
		st = st.clone()
		for v := range ixAssigned(x.Body) {
			st.kill(v)
		}
		for _, kv := range []ast.Expr{x.Key, x.Value} {
			if id, ok := kv.(*ast.Ident); ok {
				st.kill(id.Name)
				delete(w.env, id.Name)
			}
		}
		if id, ok := x.Value.(*ast.Ident); ok && x.Tok == token.DEFINE {
			switch t := w.underlying(w.typeOf(x.X), 0).(type) {
			case *ast.ArrayType:
				w.env[id.Name] = t.Elt
			case *ast.MapType:
				w.env[id.Name] = t.Value
			}
		}
		if id, ok := x.Key.(*ast.Ident); ok && x.Tok == token.DEFINE {
			switch t := w.underlying(w.typeOf(x.X), 0).(type) {
			case *ast.MapType:
				w.env[id.Name] = t.Key
			case *ast.ChanType: // for v := range ch: the ELEMENT
				w.env[id.Name] = t.Value
			default:
				w.env[id.Name] = ixIdent("int")
			}
		}
		w.block(x.Body.List, st)
		return st
	case *ast.SwitchStmt:
		st = w.stmt(x.Init, st)
		w.expr(x.Tag, st)
		st = st.clone()
		for v := range ixAssigned(x.Body) {
			st.kill(v)
		}
		for _, c := range x.Body.List {
			cc := c.(*ast.CaseClause)
			in := st
			for _, e := range cc.List {
				w.expr(e, st)
			}
			if x.Tag == nil && len(cc.List) == 1 {
				in = st.with(w.factsOf(cc.List[0], true, st))
			}
			w.block(cc.Body, in)
		}
		return st
	case *ast.TypeSwitchStmt:
		st = w.stmt(x.Init, st)
		w.stmt(x.Assign, st)
		st = st.clone()
		for v := range ixAssigned(x.Body) {
			st.kill(v)
		}
		for _, c := range x.Body.List {
			w.block(c.(*ast.CaseClause).Body, st)
		}
		return st
	case *ast.SelectStmt:
		st = st.clone()
		for v := range ixAssigned(x.Body) {
			st.kill(v)
		}
		for _, c := range x.Body.List {
			cc := c.(*ast.CommClause)
			w.stmt(cc.Comm, st)
			w.block(cc.Body, st)
		}
		return st
	case *ast.BranchStmt, *ast.EmptyStmt:
		return st
	}
	// unknown statement: visit its expressions with nothing known, keep nothing
	ast.Inspect(s, func(n ast.Node) bool {
		if n == s {
			return true
		}
		if ex, ok := n.(ast.Expr); ok {
			w.expr(ex, ixNew())
			return false
		}
		return true
	})
	return ixNew()
}

// every site of the non-test files of the given package directories; with the parsed files of each
func ixCollect(repo string, fset *token.FileSet, dirs []string) ([]ixSite, map[string]*ast.File, error) {
	var sites []ixSite
	all := map[string]*ast.File{}
	for _, dir := range dirs {
		ents, err := os.ReadDir(filepath.Join(repo, dir))
		if err != nil {
			return nil, nil, err
		}
		pkg := &ixPkg{structs: map[string]*ast.StructType{}, named: map[string]ast.Expr{}, funcs: map[string]*ast.FuncDecl{}, vars: map[string]ast.Expr{},
			imports: map[string]bool{}}
		files := map[string]*ast.File{}
		var rels []string
		for _, e := range ents {
			n := e.Name()
			if e.IsDir() || !strings.HasSuffix(n, ".go") || strings.HasSuffix(n, "_test.go") || strings.HasPrefix(n, "verif_") || strings.HasSuffix(n, "_verif.go") {
				continue
			}
			rel := dir + "/" + n
			f, err := parser.ParseFile(fset, filepath.Join(repo, rel), nil, 0)
			if err != nil {
				return nil, nil, err
			}
			files[rel] = f
			all[rel] = f
			rels = append(rels, rel)
			for _, im := range f.Imports {
				p, _ := strconv.Unquote(im.Path.Value)
				name := p[strings.LastIndex(p, "/")+1:]
				if im.Name != nil {
					name = im.Name.Name
				}
				pkg.imports[name] = true
			}
			for _, d := range f.Decls {
				switch x := d.(type) {
				case *ast.FuncDecl:
					if x.Recv == nil {
						pkg.funcs[x.Name.Name] = x
					}
				case *ast.GenDecl:
					for _, sp := range x.Specs {
						switch ts := sp.(type) {
						case *ast.TypeSpec:
							if st, ok := ts.Type.(*ast.StructType); ok {
								pkg.structs[ts.Name.Name] = st
							} else {
								pkg.named[ts.Name.Name] = ts.Type
							}
						case *ast.ValueSpec:
							for i, n := range ts.Names {
								if ts.Type != nil {
									pkg.vars[n.Name] = ts.Type
								} else if i < len(ts.Values) {
									if bl, ok := ts.Values[i].(*ast.BasicLit); ok && bl.Kind == token.STRING {
										pkg.vars[n.Name] = ixIdent("string")
									}
								}
							}
						}
					}
				}
			}
		}
		sort.Strings(rels)
		before := len(sites)
		for _, rel := range rels {
			for _, d := range files[rel].Decls {
				fd, ok := d.(*ast.FuncDecl)
				if !ok || fd.Body == nil {
					continue
				}
				rn, rt := lfRecvType(fd)
				name := fd.Name.Name
				w := &ixWalker{fset: fset, rel: rel, pkg: pkg, env: map[string]ast.Expr{}, out: &sites}
				if rt != "" {
					name = rt + "." + name
					if rn != "" {
						w.env[rn] = fd.Recv.List[0].Type
					}
				}
				w.fn = name
				w.params(fd.Type)
				w.block(fd.Body.List, ixNew())
			}
		}
		if len(sites) == before {
			return nil, nil, fail("%s: no index / slice expression found (extractor blind?)", dir)
		}
	}
	sort.SliceStable(sites, func(i, j int) bool {
		if sites[i].file != sites[j].file {
			return sites[i].file < sites[j].file
		}
		return sites[i].line < sites[j].line
	})
	return sites, all, nil
}

func ixWriteSites(b *strings.Builder, sites []ixSite) {
	b.WriteString("  [")
	for i, s := range sites {
		if i > 0 {
			b.WriteString(",\n   ")
		}
		fs := make([]string, len(s.facts))
		for k, f := range s.facts {
			fs[k] = f.lean()
		}
		fmt.Fprintf(b, "⟨%s, %s, %d, %s, %s, .%s, %s, [%s]⟩", agLeanStr(s.file), agLeanStr(s.fn), s.line, agLeanStr(s.expr), agLeanStr(s.operand),
			s.opKind, s.shape, strings.Join(fs, ", "))
	}
	b.WriteString("]\n")
}

var ixSSHPackages = []string{"pkg/ssh"}

func genIndexFacts(repo, out string) error {
	fset := token.NewFileSet()
	sites, _, err := ixCollect(repo, fset, ixPackages)
	if err != nil {
		return err
	}
	found := false
	for _, s := range sites {
		if s.file == "pkg/util/http/http.go" && s.fn == "hasPort" && s.expr == "host[0]" {
			found = true
		}
	}
	if !found {
		return fail("pkg/util/http/http.go hasPort: `host[0]` not found")
	}
	// the ssh tunnel gateway
	sshSites, sshFiles, err := ixCollect(repo, fset, ixSSHPackages)
	if err != nil {
		return err
	}
	var execEnd []ixFact // how the upper bound of handleNewChannel's payload slice was computed
	nExec := 0
	for _, s := range sshSites {
		if s.file == "pkg/ssh/server.go" && s.fn == "TunnelServer.handleNewChannel" && s.operand == "req.Payload" && strings.HasPrefix(s.shape, ".slice (some") {
			nExec++
			for _, f := range s.facts {
				if f.kind == "defPlus" {
					execEnd = append(execEnd, f)
				}
			}
		}
	}
	if nExec != 1 {
		return fail("pkg/ssh/server.go handleNewChannel: expected exactly one req.Payload[lo:hi], found %d", nExec)
	}
	// ssh.Unmarshal calls: the target's struct type with its field types, whether the error is tested and leaves
	type unm struct {
		fn, target string
		fields     []string
		checked    bool
	}
	var unms []unm
	var gos [][2]string
	recovers := 0
	var rels []string
	for rel := range sshFiles {
		rels = append(rels, rel)
	}
	sort.Strings(rels)
	structs := map[string]*ast.StructType{}
	for _, rel := range rels {
		for _, d := range sshFiles[rel].Decls {
			if gd, ok := d.(*ast.GenDecl); ok {
				for _, sp := range gd.Specs {
					if ts, ok := sp.(*ast.TypeSpec); ok {
						if st, ok := ts.Type.(*ast.StructType); ok {
							structs[ts.Name.Name] = st
						}
					}
				}
			}
		}
	}
	for _, rel := range rels {
		for _, d := range sshFiles[rel].Decls {
			fd, ok := d.(*ast.FuncDecl)
			if !ok || fd.Body == nil {
				continue
			}
			_, rt := lfRecvType(fd)
			name := fd.Name.Name
			if rt != "" {
				name = rt + "." + name
			}
			// local variable declarations `x := T{}` / `var x T`
			locals := map[string]string{}
			checkedCalls := map[*ast.CallExpr]bool{}
			isUnmarshal := func(c *ast.CallExpr) bool { return agSrc(fset, c.Fun) == "ssh.Unmarshal" && len(c.Args) == 2 }
			ast.Inspect(fd.Body, func(n ast.Node) bool {
				switch x := n.(type) {
				case *ast.AssignStmt:
					if x.Tok == token.DEFINE && len(x.Lhs) == 1 && len(x.Rhs) == 1 {
						if id, ok := x.Lhs[0].(*ast.Ident); ok {
							if cl, ok := x.Rhs[0].(*ast.CompositeLit); ok && cl.Type != nil {
								locals[id.Name] = agSrc(fset, cl.Type)
							}
						}
					}
				case *ast.ValueSpec:
					if x.Type != nil {
						for _, nm := range x.Names {
							locals[nm.Name] = agSrc(fset, x.Type)
						}
					}
				case *ast.IfStmt:
					if as, ok := x.Init.(*ast.AssignStmt); ok && len(as.Rhs) == 1 && len(as.Lhs) == 1 {
						if c, ok := as.Rhs[0].(*ast.CallExpr); ok && isUnmarshal(c) {
							if agSrc(fset, x.Cond) == agSrc(fset, as.Lhs[0])+" != nil" && ixTerminates(x.Body.List) {
								checkedCalls[c] = true
							}
						}
					}
				case *ast.GoStmt:
					callee := agSrc(fset, x.Call.Fun)
					if _, lit := x.Call.Fun.(*ast.FuncLit); lit {
						callee = "func"
					}
					gos = append(gos, [2]string{name, callee})
				case *ast.CallExpr:
					if id, ok := x.Fun.(*ast.Ident); ok && id.Name == "recover" {
						recovers++
					}
				}
				return true
			})
			ast.Inspect(fd.Body, func(n ast.Node) bool {
				c, ok := n.(*ast.CallExpr)
				if !ok || !isUnmarshal(c) {
					return true
				}
				u := unm{fn: name, target: "?", checked: checkedCalls[c]}
				if ue, ok := c.Args[1].(*ast.UnaryExpr); ok && ue.Op == token.AND {
					if id, ok := ue.X.(*ast.Ident); ok {
						u.target = locals[id.Name]
					}
				}
				if st, ok := structs[u.target]; ok {
					for _, f := range st.Fields.List {
						k := len(f.Names)
						if k == 0 {
							k = 1
						}
						for j := 0; j < k; j++ {
							u.fields = append(u.fields, agSrc(fset, f.Type))
						}
					}
				}
				unms = append(unms, u)
				return true
			})
		}
	}
	if len(unms) == 0 {
		return fail("pkg/ssh: no ssh.Unmarshal call found (extractor blind?)")
	}
	var b strings.Builder
	b.WriteString("/- GENERATED by translate/gen_indexfacts.go from the frp source tree. Do not edit. -/\n")
	b.WriteString("import Frp.Model.UserInput\n")
	b.WriteString("namespace Frp.Gen.IndexFacts\nopen Frp.UserIn\n\n")
	b.WriteString("/-- every `x[i]` / `x[a:b]` of pkg/util/http, pkg/util/vhost, pkg/util/tcpmux with the guards that dominate it -/\n")
	b.WriteString("def sites : List IdxSite :=\n")
	ixWriteSites(&b, sites)
	b.WriteString("\n/-- the same for pkg/ssh (the ssh tunnel gateway): request payloads are chosen by the ssh client -/\n")
	b.WriteString("def sshSites : List IdxSite :=\n")
	ixWriteSites(&b, sshSites)
	b.WriteString("\n/-- how the upper bound of `req.Payload[4:end]` in TunnelServer.handleNewChannel is computed: `end := k + E` with E a\n")
	b.WriteString("    big-endian uint32 read from the payload, and the TYPE the sum is computed in (`.u32`: it wraps modulo 2^32) -/\n")
	b.WriteString("def sshExecEnd : List GFact :=\n  [")
	for i, f := range execEnd {
		if i > 0 {
			b.WriteString(", ")
		}
		b.WriteString(f.lean())
	}
	b.WriteString("]\n\n/-- every ssh.Unmarshal call of pkg/ssh: function, target struct, its field types, error tested and left on -/\n")
	b.WriteString("def sshUnmarshals : List (String × String × List String × Bool) :=\n  [")
	for i, u := range unms {
		if i > 0 {
			b.WriteString(", ")
		}
		fs := make([]string, len(u.fields))
		for k, f := range u.fields {
			fs[k] = agLeanStr(f)
		}
		fmt.Fprintf(&b, "(%s, %s, [%s], %v)", agLeanStr(u.fn), agLeanStr(u.target), strings.Join(fs, ", "), u.checked)
	}
	b.WriteString("]\n\n/-- every `go` statement of pkg/ssh (function, callee) and the number of recover() calls in the package -/\n")
	b.WriteString("def sshGoStmts : List (String × String) :=\n  [")
	for i, g := range gos {
		if i > 0 {
			b.WriteString(", ")
		}
		fmt.Fprintf(&b, "(%s, %s)", agLeanStr(g[0]), agLeanStr(g[1]))
	}
	fmt.Fprintf(&b, "]\n\ndef sshRecoverCalls : Nat := %d\n", recovers)
	b.WriteString("\nend Frp.Gen.IndexFacts\n")
	return os.WriteFile(filepath.Join(out, "IndexFacts.lean"), []byte(b.String()), 0o644)
}
