package main

// Generator LockFacts (C16): lock discipline of the shared tables and channel close/send discipline,
// read from the source with go/ast and written to lean/Frp/Gen/LockFacts.lean.
//
//	accesses   every syntactic access (read / write / delete / range / len / assign / use) to a designated
//	           map (or member-list) field, with the lock state the enclosing function holds AT THAT POINT
//	           (statement-order tracking of X.mu.Lock/RLock/Unlock/RUnlock; `defer X.mu.Unlock()` keeps the
//	           lock to the end; branches that end in return/continue/break/panic do not flow out; after an
//	           if/for/switch/select the held set is the intersection of the surviving paths; a func literal
//	           starts with NOTHING held unless it is called on the spot (`func(){…}()`), which inherits).
//	           Helper functions documented as "caller holds the lock" are analysed with the lock held on
//	           entry and every call of them is recorded as an access of kind `call` (table lockHelpers
//	           below, emitted as `helpers` and pinned by a Lean theorem).  Constructors (object not yet
//	           shared) are emitted with ctx = ctor.
//	closes     every `close(ch)` with a syntactic guard class (once / flag / selectDefault / localChan / none)
//	sends      every send statement on a channel that has a close site in the same file — or on a channel PARAMETER of a
//	           top-level function that some caller binds to a channel its own file closes —, with its
//	           guard class (panicToError / deferRecover / none)
//
// The judgement (which lock mode an access kind needs, whether `held` covers it) is made in Lean
// (Frp/Model/LockDisc.lean), not here.  Fails ("BROKEN TIE") when a designated field or its struct is
// not found, or when a designated field is never accessed.

import (
	"fmt"
	"go/ast"
	"go/parser"
	"go/token"
	"os"
	"path/filepath"
	"sort"
	"strings"
)

func init() { generators["LockFacts"] = genLockFacts }

type lfTarget struct {
	dir    string // package directory relative to the repo
	strct  string
	fields []string
	mu     string // name of the mutex field of the same struct
}

var lfTargets = []lfTarget{
	{"server", "ControlManager", []string{"ctlsByRunID"}, "mu"},
	{"server", "Control", []string{"proxies"}, "mu"},
	{"server/proxy", "Manager", []string{"pxys"}, "mu"},
	{"pkg/util/vhost", "Routers", []string{"indexByDomain"}, "mutex"},
	{"server/visitor", "Manager", []string{"listeners"}, "mu"},
	{"pkg/nathole", "Controller", []string{"clientCfgs", "sessions"}, "mu"},
	{"pkg/nathole", "Analyzer", []string{"records"}, "mu"},
	{"pkg/transport", "transporterImpl", []string{"registry"}, "mu"},
	{"server/group", "TCPGroupCtl", []string{"groups"}, "mu"},
	{"server/group", "TCPGroup", []string{"lns"}, "mu"},
	{"server/group", "HTTPGroupController", []string{"groups"}, "mu"},
	{"server/group", "HTTPGroup", []string{"createFuncs", "pxyNames"}, "mu"},
	{"server/group", "TCPMuxGroupCtl", []string{"groups"}, "mu"},
	{"server/group", "TCPMuxGroup", []string{"lns"}, "mu"},
	{"server/ports", "Manager", []string{"reservedPorts", "usedPorts", "freePorts"}, "mu"},
	{"client/proxy", "Manager", []string{"proxies"}, "mu"},
	{"client/visitor", "Manager", []string{"cfgs", "visitors"}, "mu"},
}

// helper functions whose contract is "the caller holds <recv>.<mu>" (mode W), read from their doc
// comments / their only call sites; their call sites are checked instead of their bodies.
type lfHelper struct{ dir, recv, fn, mode string }

var lfHelpers = []lfHelper{
	{"pkg/util/vhost", "Routers", "exist", "R"},        // unexported, takes no lock itself; only caller: Routers.Add under the write lock
	{"client/visitor", "Manager", "startVisitor", "W"}, // doc comment: "Hold lock before calling this function."
}

type lfAccess struct {
	file, fn      string
	line          int
	obj, kind     string
	held, ctx     string
	base, lockKey string
}

type lfClose struct {
	file, fn string
	line     int
	ch       string
	guard    string
}

type lfSend struct {
	file, fn string
	line     int
	ch       string
	guard    string
}

type lfChanParam struct {
	file, fn, param string
	idx             int
}

type lfChanCall struct {
	file, callee string
	args         []string
}

type lfHeld map[string]string // lock expression text -> "R" | "W"

func (h lfHeld) clone() lfHeld {
	o := lfHeld{}
	for k, v := range h {
		o[k] = v
	}
	return o
}

func lfMeet(a, b lfHeld) lfHeld {
	o := lfHeld{}
	for k, v := range a {
		if w, ok := b[k]; ok {
			if v == w {
				o[k] = v
			} else {
				o[k] = "R"
			}
		}
	}
	return o
}

type lfPkg struct {
	dir     string
	targets []lfTarget
	fieldOf map[string][]lfTarget // field name -> candidate structs
	helpers map[string]lfHelper   // recv+"."+fn
}

type lfWalker struct {
	fset     *token.FileSet
	pkg      *lfPkg
	rel      string
	fn       string
	recvName string
	recvType string
	ctx      string
	out      *[]lfAccess
	noted    map[ast.Node]bool
}

func lfRecvType(fd *ast.FuncDecl) (name, typ string) {
	if fd.Recv == nil || len(fd.Recv.List) == 0 {
		return "", ""
	}
	f := fd.Recv.List[0]
	if len(f.Names) > 0 {
		name = f.Names[0].Name
	}
	t := f.Type
	if s, ok := t.(*ast.StarExpr); ok {
		t = s.X
	}
	if ix, ok := t.(*ast.IndexExpr); ok {
		t = ix.X
	}
	if id, ok := t.(*ast.Ident); ok {
		typ = id.Name
	}
	return
}

// terminates: the statement list never falls through its end
func lfTerminates(list []ast.Stmt) bool {
	if len(list) == 0 {
		return false
	}
	switch s := list[len(list)-1].(type) {
	case *ast.ReturnStmt:
		return true
	case *ast.BranchStmt:
		return s.Tok == token.BREAK || s.Tok == token.CONTINUE || s.Tok == token.GOTO
	case *ast.ExprStmt:
		if c, ok := s.X.(*ast.CallExpr); ok {
			if id, ok := c.Fun.(*ast.Ident); ok && id.Name == "panic" {
				return true
			}
		}
	case *ast.BlockStmt:
		return lfTerminates(s.List)
	}
	return false
}

// lock call: returns (lockExprText, op) for X.Lock() / X.RLock() / X.Unlock() / X.RUnlock()
func (w *lfWalker) lockCall(e ast.Expr) (string, string) {
	c, ok := e.(*ast.CallExpr)
	if !ok || len(c.Args) != 0 {
		return "", ""
	}
	sel, ok := c.Fun.(*ast.SelectorExpr)
	if !ok {
		return "", ""
	}
	switch sel.Sel.Name {
	case "Lock", "RLock", "Unlock", "RUnlock":
		return agSrc(w.fset, sel.X), sel.Sel.Name
	}
	return "", ""
}

func (w *lfWalker) target(sel *ast.SelectorExpr) (lfTarget, bool) {
	cands := w.pkg.fieldOf[sel.Sel.Name]
	if len(cands) == 0 {
		return lfTarget{}, false
	}
	if id, ok := sel.X.(*ast.Ident); ok && id.Name == w.recvName && w.recvName != "" {
		for _, c := range cands {
			if c.strct == w.recvType {
				return c, true
			}
		}
		return lfTarget{}, false // a field of the same name on a non-designated receiver type
	}
	if len(cands) == 1 {
		return cands[0], true
	}
	// ambiguous by name (server/group: groups, lns): all candidates use the same mutex field name
	t := cands[0]
	t.strct = "?"
	return t, true
}

func (w *lfWalker) note(sel *ast.SelectorExpr, kind string, held lfHeld) {
	if w.noted[sel] {
		return
	}
	t, ok := w.target(sel)
	if !ok {
		return
	}
	w.noted[sel] = true
	base := agSrc(w.fset, sel.X)
	key := base + "." + t.mu
	h := held[key]
	if h == "" {
		h = "none"
	}
	*w.out = append(*w.out, lfAccess{
		file: w.rel, fn: w.fn, line: w.fset.Position(sel.Pos()).Line,
		obj: w.pkg.dir + "." + t.strct + "." + sel.Sel.Name, kind: kind, held: h, ctx: w.ctx,
		base: base, lockKey: key,
	})
}

// stripIndex: X.f[k][j] -> X.f
func lfStripIndex(e ast.Expr) (ast.Expr, bool) {
	idx := false
	for {
		switch x := e.(type) {
		case *ast.IndexExpr:
			e, idx = x.X, true
		case *ast.ParenExpr:
			e = x.X
		default:
			return e, idx
		}
	}
}

func (w *lfWalker) expr(e ast.Node, held lfHeld) {
	if e == nil {
		return
	}
	ast.Inspect(e, func(n ast.Node) bool {
		switch x := n.(type) {
		case *ast.FuncLit:
			// a closure that is not called on the spot runs later: nothing is known to be held
			w.block(x.Body.List, lfHeld{})
			return false
		case *ast.CallExpr:
			if fl, ok := x.Fun.(*ast.FuncLit); ok {
				w.block(fl.Body.List, held.clone()) // func(){…}() inherits
				for _, a := range x.Args {
					w.expr(a, held)
				}
				return false
			}
			if id, ok := x.Fun.(*ast.Ident); ok && len(x.Args) >= 1 {
				if s, _ := lfStripIndex(x.Args[0]); s != nil {
					if sel, ok := s.(*ast.SelectorExpr); ok {
						switch id.Name {
						case "delete":
							if _, isIdx := lfStripIndex(x.Args[0]); !isIdx {
								w.note(sel, "delete", held)
							}
						case "len":
							if _, isIdx := lfStripIndex(x.Args[0]); !isIdx {
								w.note(sel, "len", held)
							}
						}
					}
				}
			}
			if sel, ok := x.Fun.(*ast.SelectorExpr); ok {
				if id, ok := sel.X.(*ast.Ident); ok && id.Name == w.recvName {
					if h, ok := w.pkg.helpers[w.recvType+"."+sel.Sel.Name]; ok {
						var t lfTarget
						for _, c := range w.pkg.targets {
							if c.strct == h.recv {
								t = c
							}
						}
						key := id.Name + "." + t.mu
						hh := held[key]
						if hh == "" {
							hh = "none"
						}
						kind := "callR"
						if h.mode == "W" {
							kind = "callW"
						}
						*w.out = append(*w.out, lfAccess{file: w.rel, fn: w.fn, line: w.fset.Position(x.Pos()).Line,
							obj: w.pkg.dir + "." + h.recv + "." + h.fn + "()", kind: kind, held: hh, ctx: w.ctx, base: id.Name, lockKey: key})
					}
				}
			}
		case *ast.IndexExpr:
			if s, _ := lfStripIndex(x); s != nil {
				if sel, ok := s.(*ast.SelectorExpr); ok {
					w.note(sel, "read", held)
				}
			}
		case *ast.SelectorExpr:
			w.note(x, "use", held) // bare mention (passed on, compared with nil, ranged via a helper …)
		}
		return true
	})
}

func (w *lfWalker) assignLhs(l ast.Expr, held lfHeld) {
	s, idx := lfStripIndex(l)
	if sel, ok := s.(*ast.SelectorExpr); ok {
		if idx {
			w.note(sel, "write", held)
		} else {
			w.note(sel, "assign", held)
		}
	}
	// index expressions inside the lhs (keys) are reads
	if ix, ok := l.(*ast.IndexExpr); ok {
		w.expr(ix.Index, held)
		if inner, ok := ix.X.(*ast.IndexExpr); ok {
			w.expr(inner.Index, held)
		}
	}
}

// block analyses a statement list; returns the held set at its end and whether it terminates
func (w *lfWalker) block(list []ast.Stmt, held lfHeld) (lfHeld, bool) {
	for _, st := range list {
		held = w.stmt(st, held)
	}
	return held, lfTerminates(list)
}

func (w *lfWalker) stmt(st ast.Stmt, held lfHeld) lfHeld {
	switch s := st.(type) {
	case *ast.ExprStmt:
		if k, op := w.lockCall(s.X); k != "" {
			switch op {
			case "Lock":
				held[k] = "W"
			case "RLock":
				held[k] = "R"
			default:
				delete(held, k)
			}
			return held
		}
		w.expr(s.X, held)
	case *ast.DeferStmt:
		if k, _ := w.lockCall(s.Call); k != "" {
			return held // deferred unlock: held to the end
		}
		if fl, ok := s.Call.Fun.(*ast.FuncLit); ok {
			// runs at function exit: only locks released by a *deferred* unlock are still held there; be
			// conservative and assume nothing
			w.block(fl.Body.List, lfHeld{})
			for _, a := range s.Call.Args {
				w.expr(a, held)
			}
			return held
		}
		w.expr(s.Call, held)
	case *ast.GoStmt:
		if fl, ok := s.Call.Fun.(*ast.FuncLit); ok {
			w.block(fl.Body.List, lfHeld{})
			for _, a := range s.Call.Args {
				w.expr(a, held)
			}
			return held
		}
		w.expr(s.Call, held)
	case *ast.AssignStmt:
		for _, r := range s.Rhs {
			w.expr(r, held)
		}
		for _, l := range s.Lhs {
			w.assignLhs(l, held)
		}
	case *ast.IncDecStmt:
		w.assignLhs(s.X, held)
	case *ast.ReturnStmt:
		for _, r := range s.Results {
			w.expr(r, held)
		}
	case *ast.SendStmt:
		w.expr(s.Chan, held)
		w.expr(s.Value, held)
	case *ast.DeclStmt:
		w.expr(s.Decl, held)
	case *ast.BlockStmt:
		h, _ := w.block(s.List, held)
		return h
	case *ast.LabeledStmt:
		return w.stmt(s.Stmt, held)
	case *ast.IfStmt:
		if s.Init != nil {
			held = w.stmt(s.Init, held)
		}
		w.expr(s.Cond, held)
		outs := []lfHeld{}
		h1, t1 := w.block(s.Body.List, held.clone())
		if !t1 {
			outs = append(outs, h1)
		}
		if s.Else != nil {
			h2 := w.stmt(s.Else, held.clone())
			term := false
			switch e := s.Else.(type) {
			case *ast.BlockStmt:
				term = lfTerminates(e.List)
			case *ast.IfStmt:
				term = false
			}
			if !term {
				outs = append(outs, h2)
			}
		} else {
			outs = append(outs, held)
		}
		if len(outs) == 0 {
			return held
		}
		r := outs[0]
		for _, o := range outs[1:] {
			r = lfMeet(r, o)
		}
		return r
	case *ast.ForStmt:
		if s.Init != nil {
			held = w.stmt(s.Init, held)
		}
		w.expr(s.Cond, held)
		h, _ := w.block(s.Body.List, held.clone())
		if s.Post != nil {
			w.stmt(s.Post, h.clone())
		}
		return lfMeet(held, h)
	case *ast.RangeStmt:
		if s0, idx := lfStripIndex(s.X); !idx {
			if sel, ok := s0.(*ast.SelectorExpr); ok {
				w.note(sel, "range", held)
			}
		}
		w.expr(s.X, held)
		h, _ := w.block(s.Body.List, held.clone())
		return lfMeet(held, h)
	case *ast.SwitchStmt:
		if s.Init != nil {
			held = w.stmt(s.Init, held)
		}
		w.expr(s.Tag, held)
		return w.clauses(s.Body.List, held)
	case *ast.TypeSwitchStmt:
		if s.Init != nil {
			held = w.stmt(s.Init, held)
		}
		w.stmt(s.Assign, held)
		return w.clauses(s.Body.List, held)
	case *ast.SelectStmt:
		return w.clauses(s.Body.List, held)
	}
	return held
}

func (w *lfWalker) clauses(list []ast.Stmt, held lfHeld) lfHeld {
	r := held
	for _, c := range list {
		var body []ast.Stmt
		switch cc := c.(type) {
		case *ast.CaseClause:
			for _, e := range cc.List {
				w.expr(e, held)
			}
			body = cc.Body
		case *ast.CommClause:
			if cc.Comm != nil {
				w.stmt(cc.Comm, held.clone())
			}
			body = cc.Body
		}
		h, term := w.block(body, held.clone())
		if !term {
			r = lfMeet(r, h)
		}
	}
	return r
}

// ---------------------------------------------------------------- channels

type lfChanWalker struct {
	fset   *token.FileSet
	rel    string
	closes *[]lfClose
	sends  *[]lfSend
}

func lfHasDeferRecover(body *ast.BlockStmt) bool {
	found := false
	for _, st := range body.List {
		d, ok := st.(*ast.DeferStmt)
		if !ok {
			continue
		}
		if fl, ok := d.Call.Fun.(*ast.FuncLit); ok {
			ast.Inspect(fl.Body, func(n ast.Node) bool {
				if c, ok := n.(*ast.CallExpr); ok {
					if id, ok := c.Fun.(*ast.Ident); ok && id.Name == "recover" {
						found = true
					}
				}
				return true
			})
		}
	}
	return found
}

var lfFlagWords = []string{"closed", "Closed", "isClose", "closeFlag", "started", "running"}

func lfMentionsFlag(s string) bool {
	for _, w := range lfFlagWords {
		if strings.Contains(s, w) {
			return true
		}
	}
	return false
}

// walk one function body, tracking the guard context
func (cw *lfChanWalker) fn(name string, body *ast.BlockStmt) {
	if body == nil {
		return
	}
	deferRec := lfHasDeferRecover(body)
	locals := map[string]bool{}
	ast.Inspect(body, func(n ast.Node) bool {
		if as, ok := n.(*ast.AssignStmt); ok && as.Tok == token.DEFINE {
			for i, l := range as.Lhs {
				if id, ok := l.(*ast.Ident); ok && i < len(as.Rhs) {
					if c, ok := as.Rhs[i].(*ast.CallExpr); ok {
						if f, ok := c.Fun.(*ast.Ident); ok && f.Name == "make" && len(c.Args) > 0 {
							if _, ok := c.Args[0].(*ast.ChanType); ok {
								locals[id.Name] = true
							}
						}
					}
				}
			}
		}
		return true
	})
	// guard stack computed by a recursive descent that carries the context
	var walk func(n ast.Node, ctx []string)
	walk = func(n ast.Node, ctx []string) {
		if n == nil {
			return
		}
		switch x := n.(type) {
		case *ast.CallExpr:
			if sel, ok := x.Fun.(*ast.SelectorExpr); ok {
				switch sel.Sel.Name {
				case "Do":
					for _, a := range x.Args {
						if fl, ok := a.(*ast.FuncLit); ok {
							walk(fl.Body, append(append([]string{}, ctx...), "once"))
						} else {
							walk(a, ctx)
						}
					}
					walk(sel.X, ctx)
					return
				case "PanicToError":
					for _, a := range x.Args {
						if fl, ok := a.(*ast.FuncLit); ok {
							walk(fl.Body, append(append([]string{}, ctx...), "panicToError"))
						} else {
							walk(a, ctx)
						}
					}
					return
				}
			}
			if id, ok := x.Fun.(*ast.Ident); ok && id.Name == "close" && len(x.Args) == 1 {
				ch := agSrc(cw.fset, x.Args[0])
				g := "none"
				for _, c := range ctx {
					if c == "once" || c == "flag" || c == "selectDefault" {
						g = c
					}
				}
				if g == "none" {
					if id, ok := x.Args[0].(*ast.Ident); ok && locals[id.Name] {
						g = "localChan"
					}
				}
				*cw.closes = append(*cw.closes, lfClose{cw.rel, name, cw.fset.Position(x.Pos()).Line, ch, g})
			}
		case *ast.FuncLit:
			// a closure has its own defers
			c2 := append([]string{}, ctx...)
			if lfHasDeferRecover(x.Body) {
				c2 = append(c2, "deferRecover")
			}
			for _, st := range x.Body.List {
				walk(st, c2)
			}
			return
		case *ast.IfStmt:
			walk(x.Init, ctx)
			walk(x.Cond, ctx)
			c2 := ctx
			if lfMentionsFlag(agSrc(cw.fset, x.Cond)) {
				c2 = append(append([]string{}, ctx...), "flag")
			}
			walk(x.Body, c2)
			walk(x.Else, c2)
			return
		case *ast.BlockStmt:
			// `if flag { return }` earlier in the same block guards what follows
			c2 := ctx
			for _, st := range x.List {
				walk(st, c2)
				if ifs, ok := st.(*ast.IfStmt); ok && ifs.Else == nil && lfTerminates(ifs.Body.List) &&
					lfMentionsFlag(agSrc(cw.fset, ifs.Cond)) {
					c2 = append(append([]string{}, c2...), "flag")
				}
				// `select { case <-ch: return; default: close(ch) }` earlier in the block: what follows runs
				// only on the path that closed ch just now
				if sel, ok := st.(*ast.SelectStmt); ok {
					recvReturns, hasDefault := false, false
					for _, c := range sel.Body.List {
						cc := c.(*ast.CommClause)
						if cc.Comm == nil {
							hasDefault = true
						} else if es, ok := cc.Comm.(*ast.ExprStmt); ok {
							if u, ok := es.X.(*ast.UnaryExpr); ok && u.Op == token.ARROW && lfTerminates(cc.Body) {
								recvReturns = true
							}
						}
					}
					if recvReturns && hasDefault {
						c2 = append(append([]string{}, c2...), "selectDefault")
					}
				}
			}
			return
		case *ast.SelectStmt:
			// select { case <-ch: … default: close(ch) }
			hasRecv := map[string]bool{}
			for _, c := range x.Body.List {
				cc := c.(*ast.CommClause)
				if es, ok := cc.Comm.(*ast.ExprStmt); ok {
					if u, ok := es.X.(*ast.UnaryExpr); ok && u.Op == token.ARROW {
						hasRecv[agSrc(cw.fset, u.X)] = true
					}
				}
			}
			for _, c := range x.Body.List {
				cc := c.(*ast.CommClause)
				c2 := ctx
				if cc.Comm == nil && len(hasRecv) > 0 {
					c2 = append(append([]string{}, ctx...), "selectDefault")
				}
				if cc.Comm != nil {
					walk(cc.Comm, ctx)
				}
				for _, st := range cc.Body {
					walk(st, c2)
				}
			}
			return
		case *ast.SendStmt:
			g := "none"
			for _, c := range ctx {
				if c == "panicToError" || c == "deferRecover" {
					g = c
				}
			}
			*cw.sends = append(*cw.sends, lfSend{cw.rel, name, cw.fset.Position(x.Pos()).Line, agSrc(cw.fset, x.Chan), g})
			walk(x.Value, ctx)
			return
		}
		// generic descent over children
		children := []ast.Node{}
		ast.Inspect(n, func(m ast.Node) bool {
			if m == nil || m == n {
				return m == n
			}
			children = append(children, m)
			return false
		})
		for _, c := range children {
			walk(c, ctx)
		}
	}
	ctx := []string{}
	if deferRec {
		ctx = append(ctx, "deferRecover")
	}
	for _, st := range body.List {
		_ = st
	}
	walk(body, ctx)
}

// ---------------------------------------------------------------- main

func lfLastName(ch string) string {
	if i := strings.LastIndex(ch, "."); i >= 0 {
		return ch[i+1:]
	}
	return ch
}

func genLockFacts(repo, out string) error {
	fset := token.NewFileSet()
	pkgs := map[string]*lfPkg{}
	for _, t := range lfTargets {
		p := pkgs[t.dir]
		if p == nil {
			p = &lfPkg{dir: t.dir, fieldOf: map[string][]lfTarget{}, helpers: map[string]lfHelper{}}
			pkgs[t.dir] = p
		}
		p.targets = append(p.targets, t)
		for _, f := range t.fields {
			p.fieldOf[f] = append(p.fieldOf[f], t)
		}
	}
	var accesses []lfAccess
	var closes []lfClose
	var sends []lfSend
	var chanParams []lfChanParam
	var chanCalls []lfChanCall
	foundStruct := map[string]bool{}
	foundHelper := map[string]bool{}
	ctorFns := map[string]bool{}

	parseDir := func(dir string) (map[string]*ast.File, error) {
		files := map[string]*ast.File{}
		ents, err := os.ReadDir(filepath.Join(repo, dir))
		if err != nil {
			return nil, err
		}
		for _, e := range ents {
			n := e.Name()
			if e.IsDir() || !strings.HasSuffix(n, ".go") || strings.HasSuffix(n, "_test.go") || strings.HasPrefix(n, "verif_") ||
				strings.HasSuffix(n, "_verif.go") {
				continue
			}
			f, err := parser.ParseFile(fset, filepath.Join(repo, dir, n), nil, parser.ParseComments)
			if err != nil {
				return nil, err
			}
			files[filepath.ToSlash(filepath.Join(dir, n))] = f
		}
		return files, nil
	}

	dirs := []string{}
	for d := range pkgs {
		dirs = append(dirs, d)
	}
	sort.Strings(dirs)
	for _, d := range dirs {
		p := pkgs[d]
		files, err := parseDir(d)
		if err != nil {
			return err
		}
		// struct presence + which helpers really exist
		for _, f := range files {
			for _, decl := range f.Decls {
				switch dd := decl.(type) {
				case *ast.GenDecl:
					for _, sp := range dd.Specs {
						ts, ok := sp.(*ast.TypeSpec)
						if !ok {
							continue
						}
						st, ok := ts.Type.(*ast.StructType)
						if !ok {
							continue
						}
						for _, t := range p.targets {
							if t.strct != ts.Name.Name {
								continue
							}
							names := map[string]bool{}
							for _, fl := range st.Fields.List {
								for _, nm := range fl.Names {
									names[nm.Name] = true
								}
							}
							for _, fld := range append(append([]string{}, t.fields...), t.mu) {
								if !names[fld] {
									return fail("%s: struct %s has no field %s", d, t.strct, fld)
								}
							}
							foundStruct[d+"."+t.strct] = true
						}
					}
				case *ast.FuncDecl:
					_, rt := lfRecvType(dd)
					for _, h := range lfHelpers {
						if h.dir == d && h.recv == rt && h.fn == dd.Name.Name {
							p.helpers[rt+"."+h.fn] = h
							foundHelper[d+"."+rt+"."+h.fn] = true
						}
					}
				}
			}
		}
		rels := []string{}
		for r := range files {
			rels = append(rels, r)
		}
		sort.Strings(rels)
		for _, rel := range rels {
			f := files[rel]
			for _, decl := range f.Decls {
				fd, ok := decl.(*ast.FuncDecl)
				if !ok || fd.Body == nil {
					continue
				}
				rn, rt := lfRecvType(fd)
				name := fd.Name.Name
				if rt != "" {
					name = rt + "." + name
				}
				w := &lfWalker{fset: fset, pkg: p, rel: rel, fn: name, recvName: rn, recvType: rt, ctx: "plain",
					out: &accesses, noted: map[ast.Node]bool{}}
				held := lfHeld{}
				if h, ok := p.helpers[rt+"."+fd.Name.Name]; ok && rn != "" {
					var t lfTarget
					for _, c := range p.targets {
						if c.strct == h.recv {
							t = c
						}
					}
					held[rn+"."+t.mu] = h.mode
					w.ctx = "helper"
				}
				if rt == "" && strings.HasPrefix(fd.Name.Name, "New") || strings.HasPrefix(fd.Name.Name, "new") && rt == "" {
					w.ctx = "ctor"
					ctorFns[rel+":"+name] = true
				}
				w.block(fd.Body.List, held)
			}
		}
	}
	for _, t := range lfTargets {
		if !foundStruct[t.dir+"."+t.strct] {
			return fail("struct %s.%s not found", t.dir, t.strct)
		}
		for _, fld := range t.fields {
			n := 0
			for _, a := range accesses {
				if strings.HasSuffix(a.obj, "."+fld) && strings.HasPrefix(a.obj, t.dir+".") {
					n++
				}
			}
			if n == 0 {
				return fail("designated field %s.%s.%s is never accessed (extractor blind?)", t.dir, t.strct, fld)
			}
		}
	}

	for _, h := range lfHelpers {
		if !foundHelper[h.dir+"."+h.recv+"."+h.fn] {
			return fail("caller-holds-lock helper %s.%s.%s not found", h.dir, h.recv, h.fn)
		}
	}

	// channels: all non-test files of client/ server/ pkg/
	for _, top := range []string{"client", "pkg", "server"} {
		err := filepath.Walk(filepath.Join(repo, top), func(path string, fi os.FileInfo, err error) error {
			if err != nil {
				return err
			}
			n := fi.Name()
			if fi.IsDir() || !strings.HasSuffix(n, ".go") || strings.HasSuffix(n, "_test.go") || strings.HasPrefix(n, "verif_") ||
				strings.HasSuffix(n, "_verif.go") {
				return nil
			}
			rel, _ := filepath.Rel(repo, path)
			rel = filepath.ToSlash(rel)
			f, err := parser.ParseFile(fset, path, nil, 0)
			if err != nil {
				return err
			}
			cw := &lfChanWalker{fset: fset, rel: rel, closes: &closes, sends: &sends}
			for _, decl := range f.Decls {
				fd, ok := decl.(*ast.FuncDecl)
				if !ok || fd.Body == nil {
					continue
				}
				_, rt := lfRecvType(fd)
				name := fd.Name.Name
				if rt != "" {
					name = rt + "." + name
				}
				cw.fn(name, fd.Body)
				// channel-typed parameters of top-level functions, and every call with its argument texts (below: a
				// parameter that some caller binds to a channel which the caller's file closes is closable as well)
				if fd.Recv == nil && fd.Type.Params != nil {
					i := 0
					for _, fl := range fd.Type.Params.List {
						_, isChan := fl.Type.(*ast.ChanType)
						for _, nm := range fl.Names {
							if isChan {
								chanParams = append(chanParams, lfChanParam{rel, fd.Name.Name, nm.Name, i})
							}
							i++
						}
					}
				}
				ast.Inspect(fd.Body, func(n ast.Node) bool {
					c, ok := n.(*ast.CallExpr)
					if !ok {
						return true
					}
					callee := ""
					switch fn := c.Fun.(type) {
					case *ast.Ident:
						callee = fn.Name
					case *ast.SelectorExpr:
						callee = fn.Sel.Name
					}
					if callee != "" {
						var args []string
						for _, a := range c.Args {
							args = append(args, agSrc(fset, a))
						}
						chanCalls = append(chanCalls, lfChanCall{rel, callee, args})
					}
					return true
				})
			}
			return nil
		})
		if err != nil {
			return err
		}
	}
	if len(closes) == 0 {
		return fail("no close( site found at all")
	}
	// keep only sends on channels that some close site in the same file closes (by last name) …
	closedNames := map[string]bool{}
	for _, c := range closes {
		closedNames[c.file+":"+lfLastName(c.ch)] = true
	}
	// … or on a channel PARAMETER that some caller binds to such a channel (pkg/proto/udp ForwardUserConn(…, sendCh, …)
	// is handed pxy.sendCh by server/proxy/udp.go, which closes it)
	for _, cp := range chanParams {
		for _, call := range chanCalls {
			if call.callee == cp.fn && cp.idx < len(call.args) && closedNames[call.file+":"+lfLastName(call.args[cp.idx])] {
				closedNames[cp.file+":"+cp.param] = true
			}
		}
	}
	var ksends []lfSend
	for _, s := range sends {
		if closedNames[s.file+":"+lfLastName(s.ch)] {
			ksends = append(ksends, s)
		}
	}
	sort.SliceStable(accesses, func(i, j int) bool {
		if accesses[i].file != accesses[j].file {
			return accesses[i].file < accesses[j].file
		}
		return accesses[i].line < accesses[j].line
	})
	sort.SliceStable(closes, func(i, j int) bool {
		if closes[i].file != closes[j].file {
			return closes[i].file < closes[j].file
		}
		return closes[i].line < closes[j].line
	})
	sort.SliceStable(ksends, func(i, j int) bool {
		if ksends[i].file != ksends[j].file {
			return ksends[i].file < ksends[j].file
		}
		return ksends[i].line < ksends[j].line
	})

	var b strings.Builder
	b.WriteString("/- GENERATED by translate/gen_lockfacts.go from the frp source tree. Do not edit. -/\n")
	b.WriteString("import Frp.Model.LockDisc\n")
	b.WriteString("namespace Frp.Gen.LockFacts\nopen Frp.LockDisc\n\n")
	b.WriteString("def accesses : List Access :=\n  [")
	for i, a := range accesses {
		if i > 0 {
			b.WriteString(",\n   ")
		}
		fmt.Fprintf(&b, "⟨%s, %s, %d, %s, .%s, .%s, .%s⟩", agLeanStr(a.file), agLeanStr(a.fn), a.line, agLeanStr(a.obj),
			a.kind, map[string]string{"none": "none", "R": "r", "W": "w"}[a.held], a.ctx)
	}
	b.WriteString("]\n\n")
	b.WriteString("def helpers : List (String × String × String) :=\n  [")
	first := true
	for _, h := range lfHelpers {
		if !foundHelper[h.dir+"."+h.recv+"."+h.fn] {
			continue
		}
		if !first {
			b.WriteString(",\n   ")
		}
		first = false
		fmt.Fprintf(&b, "(%s, %s, %s)", agLeanStr(h.dir), agLeanStr(h.recv+"."+h.fn), agLeanStr(h.mode))
	}
	b.WriteString("]\n\n")
	b.WriteString("def closes : List CloseSite :=\n  [")
	for i, c := range closes {
		if i > 0 {
			b.WriteString(",\n   ")
		}
		fmt.Fprintf(&b, "⟨%s, %s, %d, %s, .%s⟩", agLeanStr(c.file), agLeanStr(c.fn), c.line, agLeanStr(c.ch), c.guard)
	}
	b.WriteString("]\n\n")
	b.WriteString("def sends : List SendSite :=\n  [")
	for i, s := range ksends {
		if i > 0 {
			b.WriteString(",\n   ")
		}
		fmt.Fprintf(&b, "⟨%s, %s, %d, %s, .%s⟩", agLeanStr(s.file), agLeanStr(s.fn), s.line, agLeanStr(s.ch), s.guard)
	}
	b.WriteString("]\n\n")
	// dispatcher facts
	for _, side := range []struct{ name, file string }{{"serverHandlers", "server/control.go"}, {"clientHandlers", "client/control.go"}} {
		hs, def, err := lfHandlers(fset, repo, side.file)
		if err != nil {
			return err
		}
		fmt.Fprintf(&b, "/-- %s registerMsgHandlers: (message type, wrapped in msg.AsyncHandler) -/\ndef %s : List (String × Bool) :=\n  [", side.file, side.name)
		for i, h := range hs {
			if i > 0 {
				b.WriteString(", ")
			}
			fmt.Fprintf(&b, "(%s, %v)", agLeanStr(h.a), h.b)
		}
		fmt.Fprintf(&b, "]\ndef %sDefault : Bool := %v\n\n", side.name, def)
	}
	cases, hasDefault, err := lfFirstMsgCases(fset, repo)
	if err != nil {
		return err
	}
	b.WriteString("/-- server/service.go handleConnection: the cases of the type switch on the first message -/\ndef firstMsgCases : List String :=\n  [")
	for i, c := range cases {
		if i > 0 {
			b.WriteString(", ")
		}
		b.WriteString(agLeanStr(c))
	}
	fmt.Fprintf(&b, "]\ndef firstMsgDefaultCloses : Bool := %v\n\n", hasDefault)
	pre, capSrc, err := lfNewControl(fset, repo)
	if err != nil {
		return err
	}
	b.WriteString("/-- server/control.go NewControl: the statements before `ctl := &Control{…}` and the capacity of workConnCh -/\ndef newControlPre : List String :=\n  [")
	for i, c := range pre {
		if i > 0 {
			b.WriteString(",\n   ")
		}
		b.WriteString(agLeanStr(c))
	}
	fmt.Fprintf(&b, "]\ndef workConnChCap : String := %s\n\n", agLeanStr(capSrc))
	b.WriteString("end Frp.Gen.LockFacts\n")
	return os.WriteFile(filepath.Join(out, "LockFacts.lean"), []byte(b.String()), 0o644)
}

type lfHandler struct {
	a string
	b bool
}

// RegisterHandler(&msg.T{}, h) calls inside registerMsgHandlers of the given file
func lfHandlers(fset *token.FileSet, repo, rel string) ([]lfHandler, bool, error) {
	f, err := parser.ParseFile(fset, filepath.Join(repo, rel), nil, 0)
	if err != nil {
		return nil, false, err
	}
	var hs []lfHandler
	def := false
	found := false
	for _, decl := range f.Decls {
		fd, ok := decl.(*ast.FuncDecl)
		if !ok || fd.Body == nil {
			continue
		}
		ast.Inspect(fd.Body, func(n ast.Node) bool {
			c, ok := n.(*ast.CallExpr)
			if !ok {
				return true
			}
			sel, ok := c.Fun.(*ast.SelectorExpr)
			if !ok {
				return true
			}
			switch sel.Sel.Name {
			case "RegisterDefaultHandler":
				def = true
			case "RegisterHandler":
				if fd.Name.Name != "registerMsgHandlers" || len(c.Args) != 2 {
					found = false
					return true
				}
				found = true
				t := strings.TrimSuffix(strings.TrimPrefix(agSrc(fset, c.Args[0]), "&msg."), "{}")
				hs = append(hs, lfHandler{t, strings.HasPrefix(agSrc(fset, c.Args[1]), "msg.AsyncHandler(")})
			}
			return true
		})
	}
	if !found || len(hs) == 0 {
		return nil, false, fail("%s: no RegisterHandler calls in registerMsgHandlers", rel)
	}
	return hs, def, nil
}

func lfFirstMsgCases(fset *token.FileSet, repo string) ([]string, bool, error) {
	f, err := parser.ParseFile(fset, filepath.Join(repo, "server/service.go"), nil, 0)
	if err != nil {
		return nil, false, err
	}
	var cases []string
	hasDefault := false
	n := 0
	for _, decl := range f.Decls {
		fd, ok := decl.(*ast.FuncDecl)
		if !ok || fd.Body == nil || fd.Name.Name != "handleConnection" {
			continue
		}
		ast.Inspect(fd.Body, func(nd ast.Node) bool {
			ts, ok := nd.(*ast.TypeSwitchStmt)
			if !ok {
				return true
			}
			n++
			for _, c := range ts.Body.List {
				cc := c.(*ast.CaseClause)
				if cc.List == nil {
					// default: must close the connection
					src := agSrc(fset, &ast.BlockStmt{List: cc.Body})
					hasDefault = strings.Contains(src, "conn.Close()")
					continue
				}
				for _, e := range cc.List {
					cases = append(cases, strings.TrimPrefix(agSrc(fset, e), "*msg."))
				}
			}
			return false
		})
	}
	if n != 1 {
		return nil, false, fail("server/service.go handleConnection: expected one type switch, found %d", n)
	}
	return cases, hasDefault, nil
}

func lfNewControl(fset *token.FileSet, repo string) ([]string, string, error) {
	f, err := parser.ParseFile(fset, filepath.Join(repo, "server/control.go"), nil, 0)
	if err != nil {
		return nil, "", err
	}
	for _, decl := range f.Decls {
		fd, ok := decl.(*ast.FuncDecl)
		if !ok || fd.Body == nil || fd.Name.Name != "NewControl" || fd.Recv != nil {
			continue
		}
		var pre []string
		capSrc := ""
		for _, st := range fd.Body.List {
			as, ok := st.(*ast.AssignStmt)
			if ok && len(as.Lhs) == 1 && agSrc(fset, as.Lhs[0]) == "ctl" {
				ast.Inspect(as, func(n ast.Node) bool {
					kv, ok := n.(*ast.KeyValueExpr)
					if ok && agSrc(fset, kv.Key) == "workConnCh" {
						if c, ok := kv.Value.(*ast.CallExpr); ok && len(c.Args) == 2 && agSrc(fset, c.Fun) == "make" {
							capSrc = agSrc(fset, c.Args[1])
						}
					}
					return true
				})
				break
			}
			pre = append(pre, agSrc(fset, st))
		}
		if capSrc == "" {
			return nil, "", fail("server/control.go NewControl: `workConnCh: make(chan net.Conn, …)` not found")
		}
		return pre, capSrc, nil
	}
	return nil, "", fail("server/control.go: func NewControl not found")
}
