package main

// Generator CredFacts (C07): the shape of two pieces of code whose Lean models (Frp/Model/HttpAuthHand.lean) assume
// it, read with go/ast and written to lean/Frp/Gen/CredFacts.lean.
//
// (1) pkg/util/vhost/vhost.go `Muxer.handle` — the model is "ONE lookup, the check against THAT listener, the send
//     to THAT listener's accept channel; a failed send closes the connection":
//
//	handleEvents   in source order (closures included): ("lookup", <variable the result is bound to>, i) for every call
//	               of `….getListener(…)`, ("check", <X>, i) for every call of `….checkAuth(…)` whose arguments name
//	               `X.username` and `X.password` (X/Y if they differ), ("send", <X>, i) for every send statement on
//	               `X.accept`, ("assign", <v>, i) for every later assignment to a variable a lookup was bound to;
//	               i = index of the top-level statement of the function body the event lies in
//	checkGuard     condition of the `if` around the check call
//	checkFail      statements of the branch taken when the check fails (must end in `return`)
//	sendFail       statements of the `if err != nil` branch that follows the send at top level
//
// (2) server/group/http.go `HTTPGroup.Register` — the model is "the route copy `tmp` and the group's
//     username / password are written from the first member's configuration, in the branch that creates the route, and
//     nowhere else; a joiner is refused unless its Username and Password equal the group's":
//
//	credWrites     (branch, lhs, rhs) for every assignment to g.username / g.password; branch = first | join | top
//	routeAdds      (branch, last argument) for every call of `….vhostRouter.Add(…)`
//	tmpInit        the statement that declares the variable whose address is registered
//	tmpWrites      fields of that variable assigned afterwards
//	joinCompares   (lhs, rhs) of every `!=` comparison in the conditions of the join branch that lead to
//	               `err = ErrGroupParamsInvalid`
//
// Fails ("BROKEN TIE") when a function is missing.  A changed shape is NOT a failure of the translator: the facts are
// written as found and the Lean obligations `C07.handle_code_shape` / `C07.group_code_shape` decide.

import (
	"fmt"
	"go/ast"
	"go/parser"
	"go/token"
	"os"
	"path/filepath"
	"strings"
)

func init() { generators["CredFacts"] = genCredFacts }

func cfFindMethod(f *ast.File, recv, name string) *ast.FuncDecl {
	for _, d := range f.Decls {
		fd, ok := d.(*ast.FuncDecl)
		if !ok || fd.Recv == nil || fd.Name.Name != name || len(fd.Recv.List) != 1 {
			continue
		}
		t := fd.Recv.List[0].Type
		if st, ok := t.(*ast.StarExpr); ok {
			t = st.X
		}
		if id, ok := t.(*ast.Ident); ok && id.Name == recv {
			return fd
		}
	}
	return nil
}

func cfSelName(e ast.Expr) string {
	if s, ok := e.(*ast.SelectorExpr); ok {
		return s.Sel.Name
	}
	return ""
}

func cfStmts(fset *token.FileSet, b *ast.BlockStmt) []string {
	out := []string{}
	if b == nil {
		return out
	}
	for _, s := range b.List {
		out = append(out, strings.Join(strings.Fields(agSrc(fset, s)), " "))
	}
	return out
}

func genCredFacts(repo, out string) error {
	fset := token.NewFileSet()
	norm := func(n ast.Node) string { return strings.Join(strings.Fields(agSrc(fset, n)), " ") }

	// ---- (1) Muxer.handle
	vf, err := parser.ParseFile(fset, filepath.Join(repo, "pkg", "util", "vhost", "vhost.go"), nil, 0)
	if err != nil {
		return err
	}
	handle := cfFindMethod(vf, "Muxer", "handle")
	if handle == nil || handle.Body == nil {
		return fail("pkg/util/vhost/vhost.go: method Muxer.handle not found")
	}
	type ev struct {
		kind, v string
		idx     int
	}
	var events []ev
	lookupVars := map[string]bool{}
	checkGuard, checkFail, sendFail := "", []string{}, []string{}
	for i, top := range handle.Body.List {
		// the guard and the failure branch of the check; the branch after a send
		if ifs, ok := top.(*ast.IfStmt); ok {
			hasCheck := false
			ast.Inspect(ifs.Body, func(n ast.Node) bool {
				if c, ok := n.(*ast.CallExpr); ok && cfSelName(c.Fun) == "checkAuth" {
					hasCheck = true
				}
				return true
			})
			if hasCheck && checkGuard == "" {
				checkGuard = norm(ifs.Cond)
				for _, s := range ifs.Body.List {
					if in, ok := s.(*ast.IfStmt); ok {
						checkFail = cfStmts(fset, in.Body)
					}
				}
			}
			if !hasCheck && len(events) > 0 && events[len(events)-1].kind == "send" && norm(ifs.Cond) == "err != nil" {
				sendFail = append(sendFail, cfStmts(fset, ifs.Body)...)
			}
		}
		ast.Inspect(top, func(n ast.Node) bool {
			switch x := n.(type) {
			case *ast.AssignStmt:
				isLookup := false
				if len(x.Rhs) == 1 {
					if c, ok := x.Rhs[0].(*ast.CallExpr); ok && cfSelName(c.Fun) == "getListener" {
						isLookup = true
					}
				}
				if !isLookup {
					for _, l := range x.Lhs {
						if id, ok := l.(*ast.Ident); ok && lookupVars[id.Name] {
							events = append(events, ev{"assign", id.Name, i})
						}
					}
				}
			case *ast.CallExpr:
				switch cfSelName(x.Fun) {
				case "getListener":
					events = append(events, ev{"lookup", "_", i}) // the binding is filled in below
				case "checkAuth":
					u, p := "?", "?"
					for _, a := range x.Args {
						if s, ok := a.(*ast.SelectorExpr); ok {
							if s.Sel.Name == "username" {
								u = norm(s.X)
							}
							if s.Sel.Name == "password" {
								p = norm(s.X)
							}
						}
					}
					v := u
					if u != p {
						v = u + "/" + p
					}
					events = append(events, ev{"check", v, i})
				}
			case *ast.SendStmt:
				if cfSelName(x.Chan) == "accept" {
					events = append(events, ev{"send", norm(x.Chan.(*ast.SelectorExpr).X), i})
				}
			}
			return true
		})
		// bind lookups to the variable they are assigned to (`l, ok := v.getListener(…)`, also as an if-initialiser)
		ast.Inspect(top, func(n ast.Node) bool {
			if x, ok := n.(*ast.AssignStmt); ok && len(x.Rhs) == 1 {
				if c, ok := x.Rhs[0].(*ast.CallExpr); ok && cfSelName(c.Fun) == "getListener" {
					name := "_"
					if id, ok := x.Lhs[0].(*ast.Ident); ok {
						name = id.Name
					}
					for k := range events {
						if events[k].kind == "lookup" && events[k].v == "_" && events[k].idx == i {
							events[k].v = name
							break
						}
					}
					lookupVars[name] = true
				}
			}
			return true
		})
	}

	// ---- (2) HTTPGroup.Register
	gf, err := parser.ParseFile(fset, filepath.Join(repo, "server", "group", "http.go"), nil, 0)
	if err != nil {
		return err
	}
	reg := cfFindMethod(gf, "HTTPGroup", "Register")
	if reg == nil || reg.Body == nil {
		return fail("server/group/http.go: method HTTPGroup.Register not found")
	}
	type w3 struct{ a, b, c string }
	var credWrites []w3
	var routeAdds [][2]string
	tmpVar, tmpInit := "", ""
	var tmpWrites []string
	var joinCompares [][2]string
	var walk func(n ast.Node, branch string)
	var splitOr func(e ast.Expr) []ast.Expr
	splitOr = func(e ast.Expr) []ast.Expr {
		if b, ok := e.(*ast.BinaryExpr); ok && b.Op == token.LOR {
			return append(splitOr(b.X), splitOr(b.Y)...)
		}
		if p, ok := e.(*ast.ParenExpr); ok {
			return splitOr(p.X)
		}
		return []ast.Expr{e}
	}
	walk = func(n ast.Node, branch string) {
		ast.Inspect(n, func(m ast.Node) bool {
			switch x := m.(type) {
			case *ast.IfStmt:
				if m == n {
					return true
				}
				cond := norm(x.Cond)
				if branch == "top" && cond == "len(g.createFuncs) == 0" {
					walk(x.Body, "first")
					if x.Else != nil {
						walk(x.Else, "join")
					}
					return false
				}
				if branch == "join" {
					refuses := false
					ast.Inspect(x.Body, func(k ast.Node) bool {
						if a, ok := k.(*ast.AssignStmt); ok && len(a.Rhs) == 1 && norm(a.Rhs[0]) == "ErrGroupParamsInvalid" {
							refuses = true
						}
						return true
					})
					if refuses {
						for _, c := range splitOr(x.Cond) {
							if b, ok := c.(*ast.BinaryExpr); ok && b.Op == token.NEQ {
								joinCompares = append(joinCompares, [2]string{norm(b.X), norm(b.Y)})
							}
						}
					}
				}
			case *ast.AssignStmt:
				for k, l := range x.Lhs {
					ls := norm(l)
					if ls == "g.username" || ls == "g.password" {
						r := "?"
						if len(x.Rhs) == len(x.Lhs) {
							r = norm(x.Rhs[k])
						}
						credWrites = append(credWrites, w3{branch, ls, r})
					}
					if s, ok := l.(*ast.SelectorExpr); ok && tmpVar != "" && norm(s.X) == tmpVar {
						tmpWrites = append(tmpWrites, s.Sel.Name)
					}
				}
			case *ast.CallExpr:
				if s, ok := x.Fun.(*ast.SelectorExpr); ok && s.Sel.Name == "Add" && cfSelName(s.X) == "vhostRouter" && len(x.Args) > 0 {
					last := x.Args[len(x.Args)-1]
					routeAdds = append(routeAdds, [2]string{branch, norm(last)})
				}
			}
			return true
		})
	}
	// the variable whose address is registered: find it first (its declaration precedes the writes)
	ast.Inspect(reg.Body, func(m ast.Node) bool {
		if c, ok := m.(*ast.CallExpr); ok {
			if s, ok := c.Fun.(*ast.SelectorExpr); ok && s.Sel.Name == "Add" && cfSelName(s.X) == "vhostRouter" && len(c.Args) > 0 {
				if u, ok := c.Args[len(c.Args)-1].(*ast.UnaryExpr); ok && u.Op == token.AND {
					tmpVar = norm(u.X)
				}
			}
		}
		return true
	})
	ast.Inspect(reg.Body, func(m ast.Node) bool {
		if a, ok := m.(*ast.AssignStmt); ok && a.Tok == token.DEFINE && len(a.Lhs) == 1 && norm(a.Lhs[0]) == tmpVar && tmpInit == "" {
			tmpInit = norm(a)
		}
		return true
	})
	walk(reg.Body, "top")

	var b strings.Builder
	b.WriteString("/- GENERATED by translate/gen_credfacts.go from pkg/util/vhost/vhost.go (Muxer.handle) and server/group/http.go (HTTPGroup.Register). Do not edit. -/\n")
	b.WriteString("namespace Frp.Gen.CredFacts\n\n")
	q := agLeanStr
	strList := func(xs []string) string {
		o := []string{}
		for _, x := range xs {
			o = append(o, q(x))
		}
		return "[" + strings.Join(o, ", ") + "]"
	}
	es := []string{}
	for _, e := range events {
		es = append(es, fmt.Sprintf("(%s, %s, %d)", q(e.kind), q(e.v), e.idx))
	}
	fmt.Fprintf(&b, "def handleEvents : List (String × String × Nat) :=\n  [%s]\n", strings.Join(es, ", "))
	fmt.Fprintf(&b, "def checkGuard : String := %s\n", q(checkGuard))
	fmt.Fprintf(&b, "def checkFail : List String := %s\n", strList(checkFail))
	fmt.Fprintf(&b, "def sendFail : List String := %s\n\n", strList(sendFail))
	ws := []string{}
	for _, w := range credWrites {
		ws = append(ws, fmt.Sprintf("(%s, %s, %s)", q(w.a), q(w.b), q(w.c)))
	}
	fmt.Fprintf(&b, "def credWrites : List (String × String × String) :=\n  [%s]\n", strings.Join(ws, ", "))
	as := []string{}
	for _, a := range routeAdds {
		as = append(as, fmt.Sprintf("(%s, %s)", q(a[0]), q(a[1])))
	}
	fmt.Fprintf(&b, "def routeAdds : List (String × String) := [%s]\n", strings.Join(as, ", "))
	fmt.Fprintf(&b, "def tmpInit : String := %s\n", q(tmpInit))
	fmt.Fprintf(&b, "def tmpWrites : List String := %s\n", strList(tmpWrites))
	cs := []string{}
	for _, c := range joinCompares {
		cs = append(cs, fmt.Sprintf("(%s, %s)", q(c[0]), q(c[1])))
	}
	fmt.Fprintf(&b, "def joinCompares : List (String × String) :=\n  [%s]\n", strings.Join(cs, ", "))
	b.WriteString("\nend Frp.Gen.CredFacts\n")
	return os.WriteFile(filepath.Join(out, "CredFacts.lean"), []byte(b.String()), 0o644)
}
