package main

// Generator LockOrder (C16, the WEDGE half): lock ORDER facts, read from the source with go/ast and written to
// lean/Frp/Gen/LockOrder.lean.
//
//	mutexes    every mutex the code of client/ pkg/ server/ locks, named by its declaration:
//	           `<pkg dir>.<Struct>.<field>` for struct fields of type sync.Mutex / sync.RWMutex, `<pkg dir>.<func>.<var>` for
//	           locals, `<pkg dir>.<var>` for package-level ones
//	edges      `a -> b`: some function acquires b while it holds a — either directly (`b.Lock()` in statement order
//	           after `a.Lock()`, the same flow rules as gen_lockfacts.go: defer keeps the lock to the end, branches that
//	           leave do not flow out, intersection after a branch) or through a CALL made while a is held: the callee is
//	           resolved syntactically (receiver / parameter / local / struct-field types, same package or another package
//	           of this repository, methods promoted from embedded structs) and its transitive acquisition set (fixpoint
//	           over the call graph; closures are taken as run on the spot unless they are the operand of `go`) is added
//	relocks    a mutex EXPRESSION locked again while the same expression is held (definite self-deadlock)
//	order      a topological order of the mutexes w.r.t. the edges if there is one (a witness: Lean checks it)
//	unresolved lock calls whose mutex could not be named
//
// plus two small structural facts that tie hand-written wedge / crash models to the source:
//
//	regCtl*    server/service.go RegisterControl: the statements between `svr.ctlManager.Add` and `ctl.Start()` and the
//	           number of `return`s among them (a control that was added but is never started never closes its doneCh)
//	resolveCalls  client/proxy/proxy.go HandleTCPWorkConnection: the net.ResolveTCPAddr calls and whether the error is discarded
//
// Not followed: calls through interfaces and function values (pxy.Close() under Control.mu, plugin callbacks).

import (
	"fmt"
	"go/ast"
	"go/parser"
	"go/token"
	"os"
	"path/filepath"
	"sort"
	"strconv"
	"strings"
)

func init() { generators["LockOrder"] = genLockOrder }

const loModule = "github.com/fatedier/frp/"

// a (syntactic) type: a named type of some package, or a container of one
type loT struct {
	dir  string // package directory inside the repo ("" = not of this repo), or the import path for foreign ones
	name string // type name; "" for containers
	elem *loT   // element type of slice / array / map / chan / pointer-to-container
}

func (t *loT) String() string {
	if t == nil {
		return "?"
	}
	if t.name != "" {
		return t.dir + "." + t.name
	}
	return "[]" + t.elem.String()
}

type loStruct struct {
	fields   map[string]*loT
	embedded []*loT
}

type loFunc struct {
	pkg  *loPkg
	file string
	decl *ast.FuncDecl
	key  string // dir + "." + [Recv.]Name
	name string // [Recv.]Name
}

type loPkg struct {
	dir     string
	files   map[string]*ast.File
	imports map[string]map[string]string // file -> local name -> repo dir or import path
	structs map[string]*loStruct
	ifaces  map[string]bool
	funcs   map[string]*loFunc // [Recv.]Name
	vars    map[string]*loT    // package-level variables
}

type loEdge struct {
	from, to string
	file, fn string
	line     int
	via      string
}

type loWorld struct {
	fset       *token.FileSet
	pkgs       map[string]*loPkg
	direct     map[string]map[string]bool // func key -> mutexes locked in its body (incl. closures run on the spot)
	calls      map[string]map[string]bool // func key -> callee keys
	acq        map[string]map[string]bool // transitive
	mutexes    map[string]bool
	edges      []loEdge
	relocks    []loEdge
	unresolved [][3]string
	lockSites  int
}

func loIsMutex(t *loT) bool {
	return t != nil && t.dir == "sync" && (t.name == "Mutex" || t.name == "RWMutex")
}

// ---------------------------------------------------------------- types

func (p *loPkg) typeOfTypeExpr(file string, e ast.Expr) *loT {
	switch x := e.(type) {
	case *ast.StarExpr:
		return p.typeOfTypeExpr(file, x.X)
	case *ast.ParenExpr:
		return p.typeOfTypeExpr(file, x.X)
	case *ast.Ident:
		return &loT{dir: p.dir, name: x.Name}
	case *ast.SelectorExpr:
		if id, ok := x.X.(*ast.Ident); ok {
			if d, ok := p.imports[file][id.Name]; ok {
				return &loT{dir: d, name: x.Sel.Name}
			}
		}
	case *ast.ArrayType:
		if el := p.typeOfTypeExpr(file, x.Elt); el != nil {
			return &loT{elem: el}
		}
	case *ast.MapType:
		if el := p.typeOfTypeExpr(file, x.Value); el != nil {
			return &loT{elem: el}
		}
	case *ast.ChanType:
		if el := p.typeOfTypeExpr(file, x.Value); el != nil {
			return &loT{elem: el}
		}
	case *ast.IndexExpr: // generic instantiation
		return p.typeOfTypeExpr(file, x.X)
	}
	return nil
}

type loEnv struct {
	w    *loWorld
	p    *loPkg
	file string
	vars map[string]*loT
}

func (w *loWorld) structOf(t *loT) *loStruct {
	if t == nil || t.name == "" {
		return nil
	}
	if p := w.pkgs[t.dir]; p != nil {
		return p.structs[t.name]
	}
	return nil
}

// field of a struct type, looking through embedded structs
func (w *loWorld) fieldOf(t *loT, f string, depth int) *loT {
	s := w.structOf(t)
	if s == nil || depth > 4 {
		return nil
	}
	if ft, ok := s.fields[f]; ok {
		return ft
	}
	for _, e := range s.embedded {
		if e.name == f {
			return e
		}
		if ft := w.fieldOf(e, f, depth+1); ft != nil {
			return ft
		}
	}
	return nil
}

// method of a named type, looking through embedded structs
func (w *loWorld) methodOf(t *loT, m string, depth int) *loFunc {
	if t == nil || t.name == "" || depth > 4 {
		return nil
	}
	p := w.pkgs[t.dir]
	if p == nil {
		return nil
	}
	if f, ok := p.funcs[t.name+"."+m]; ok {
		return f
	}
	if s := p.structs[t.name]; s != nil {
		for _, e := range s.embedded {
			if f := w.methodOf(e, m, depth+1); f != nil {
				return f
			}
		}
	}
	return nil
}

func (f *loFunc) resultType(i int) *loT {
	if f.decl.Type.Results == nil {
		return nil
	}
	k := 0
	for _, fl := range f.decl.Type.Results.List {
		n := len(fl.Names)
		if n == 0 {
			n = 1
		}
		if i < k+n {
			return f.pkg.typeOfTypeExpr(f.file, fl.Type)
		}
		k += n
	}
	return nil
}

func (e *loEnv) calleeOf(c *ast.CallExpr) *loFunc {
	switch fn := c.Fun.(type) {
	case *ast.Ident:
		if _, shadow := e.vars[fn.Name]; shadow {
			return nil
		}
		return e.p.funcs[fn.Name]
	case *ast.SelectorExpr:
		if id, ok := fn.X.(*ast.Ident); ok {
			if _, isVar := e.vars[id.Name]; !isVar {
				if d, ok := e.p.imports[e.file][id.Name]; ok {
					if q := e.w.pkgs[d]; q != nil {
						return q.funcs[fn.Sel.Name]
					}
					return nil
				}
			}
		}
		return e.w.methodOf(e.typeOf(fn.X), fn.Sel.Name, 0)
	case *ast.ParenExpr:
		return nil
	}
	return nil
}

func (e *loEnv) typeOf(x ast.Expr) *loT {
	switch v := x.(type) {
	case *ast.Ident:
		if t, ok := e.vars[v.Name]; ok {
			return t
		}
		if t, ok := e.p.vars[v.Name]; ok {
			return t
		}
	case *ast.ParenExpr:
		return e.typeOf(v.X)
	case *ast.StarExpr:
		return e.typeOf(v.X)
	case *ast.UnaryExpr:
		if v.Op == token.AND {
			return e.typeOf(v.X)
		}
		if v.Op == token.ARROW {
			if t := e.typeOf(v.X); t != nil && t.elem != nil {
				return t.elem
			}
		}
	case *ast.SelectorExpr:
		if id, ok := v.X.(*ast.Ident); ok {
			if _, isVar := e.vars[id.Name]; !isVar {
				if d, ok := e.p.imports[e.file][id.Name]; ok {
					if q := e.w.pkgs[d]; q != nil {
						return q.vars[v.Sel.Name]
					}
					return nil
				}
			}
		}
		return e.w.fieldOf(e.typeOf(v.X), v.Sel.Name, 0)
	case *ast.IndexExpr:
		if t := e.typeOf(v.X); t != nil && t.elem != nil {
			return t.elem
		}
	case *ast.SliceExpr:
		return e.typeOf(v.X)
	case *ast.CompositeLit:
		if v.Type != nil {
			return e.p.typeOfTypeExpr(e.file, v.Type)
		}
	case *ast.TypeAssertExpr:
		if v.Type != nil {
			return e.p.typeOfTypeExpr(e.file, v.Type)
		}
	case *ast.CallExpr:
		if id, ok := v.Fun.(*ast.Ident); ok && (id.Name == "new" || id.Name == "make") && len(v.Args) > 0 {
			return e.p.typeOfTypeExpr(e.file, v.Args[0])
		}
		if f := e.calleeOf(v); f != nil {
			return f.resultType(0)
		}
	}
	return nil
}

func (e *loEnv) bind(lhs []ast.Expr, rhs []ast.Expr) {
	if len(lhs) == len(rhs) {
		for i, l := range lhs {
			if id, ok := l.(*ast.Ident); ok && id.Name != "_" {
				if t := e.typeOf(rhs[i]); t != nil {
					e.vars[id.Name] = t
				}
			}
		}
		return
	}
	if len(rhs) == 1 {
		if c, ok := rhs[0].(*ast.CallExpr); ok {
			if f := e.calleeOf(c); f != nil {
				for i, l := range lhs {
					if id, ok := l.(*ast.Ident); ok && id.Name != "_" {
						if t := f.resultType(i); t != nil {
							e.vars[id.Name] = t
						}
					}
				}
			}
			return
		}
		// v, ok := m[k] / x.(T) / <-ch
		if id, ok := lhs[0].(*ast.Ident); ok && id.Name != "_" {
			if t := e.typeOf(rhs[0]); t != nil {
				e.vars[id.Name] = t
			}
		}
	}
}

// ---------------------------------------------------------------- one function

type loHeldEntry struct {
	mode string
	expr string // text of the lock expression
}

type loHeld map[string]loHeldEntry // mutex NAME -> how it is held

func (h loHeld) clone() loHeld {
	o := loHeld{}
	for k, v := range h {
		o[k] = v
	}
	return o
}

func loMeet(a, b loHeld) loHeld {
	o := loHeld{}
	for k, v := range a {
		if _, ok := b[k]; ok {
			o[k] = v
		}
	}
	return o
}

type loWalker struct {
	w     *loWorld
	f     *loFunc
	env   *loEnv
	edges bool // second pass: emit edges (needs w.acq)
	det   bool // inside a `go func(){…}()` body: not part of the enclosing function's own acquisitions
}

func (lw *loWalker) mutexName(x ast.Expr) (string, bool) {
	t := lw.env.typeOf(x)
	if !loIsMutex(t) {
		// a struct that embeds a mutex: x.Lock() is x.Mutex.Lock()
		if s := lw.w.structOf(t); s != nil {
			for _, e := range s.embedded {
				if loIsMutex(e) {
					return t.dir + "." + t.name + "." + e.name, true
				}
			}
		}
		return "", false
	}
	switch v := x.(type) {
	case *ast.SelectorExpr:
		if id, ok := v.X.(*ast.Ident); ok {
			if _, isVar := lw.env.vars[id.Name]; !isVar {
				if d, ok := lw.env.p.imports[lw.env.file][id.Name]; ok {
					return d + "." + v.Sel.Name, true
				}
			}
		}
		if owner := lw.env.typeOf(v.X); owner != nil && owner.name != "" {
			// the struct that declares the field (may be an embedded one)
			return lw.ownerOfField(owner, v.Sel.Name, 0) + "." + v.Sel.Name, true
		}
	case *ast.Ident:
		if _, ok := lw.env.vars[v.Name]; ok {
			return lw.f.pkg.dir + "." + lw.f.name + "." + v.Name, true
		}
		return lw.f.pkg.dir + "." + v.Name, true
	}
	return "", false
}

func (lw *loWalker) ownerOfField(t *loT, f string, depth int) string {
	if s := lw.w.structOf(t); s != nil && depth < 5 {
		if _, ok := s.fields[f]; ok {
			return t.dir + "." + t.name
		}
		for _, e := range s.embedded {
			if o := lw.ownerOfField(e, f, depth+1); o != "" {
				return o
			}
		}
	}
	if depth == 0 {
		return t.dir + "." + t.name
	}
	return ""
}

func (lw *loWalker) lockCall(e ast.Expr) (ast.Expr, string) {
	c, ok := e.(*ast.CallExpr)
	if !ok || len(c.Args) != 0 {
		return nil, ""
	}
	sel, ok := c.Fun.(*ast.SelectorExpr)
	if !ok {
		return nil, ""
	}
	switch sel.Sel.Name {
	case "Lock", "RLock", "Unlock", "RUnlock":
		return sel.X, sel.Sel.Name
	}
	return nil, ""
}

func (lw *loWalker) pos(n ast.Node) int { return lw.w.fset.Position(n.Pos()).Line }

func (lw *loWalker) onLock(x ast.Expr, op string, at ast.Node, held loHeld) {
	name, ok := lw.mutexName(x)
	if !ok {
		if lw.env.typeOf(x) == nil && !lw.edges {
			lw.w.unresolved = append(lw.w.unresolved, [3]string{lw.f.file, lw.f.name, agSrc(lw.w.fset, x)})
		}
		return
	}
	txt := agSrc(lw.w.fset, x)
	switch op {
	case "Lock", "RLock":
		if !lw.edges {
			lw.w.mutexes[name] = true
			lw.w.lockSites++
			if !lw.det {
				if lw.w.direct[lw.f.key] == nil {
					lw.w.direct[lw.f.key] = map[string]bool{}
				}
				lw.w.direct[lw.f.key][name] = true
			}
		} else {
			for h, he := range held {
				if h == name && he.expr == txt {
					lw.w.relocks = append(lw.w.relocks, loEdge{name, name, lw.f.file, lw.f.name, lw.pos(at), "direct"})
				}
				lw.w.edges = append(lw.w.edges, loEdge{h, name, lw.f.file, lw.f.name, lw.pos(at), "direct"})
			}
		}
		mode := "W"
		if op == "RLock" {
			mode = "R"
		}
		held[name] = loHeldEntry{mode, txt}
	default:
		delete(held, name)
	}
}

func (lw *loWalker) onCall(c *ast.CallExpr, held loHeld) {
	callee := lw.env.calleeOf(c)
	if callee == nil {
		return
	}
	if !lw.edges {
		if lw.det {
			return
		}
		if lw.w.calls[lw.f.key] == nil {
			lw.w.calls[lw.f.key] = map[string]bool{}
		}
		lw.w.calls[lw.f.key][callee.key] = true
		return
	}
	if len(held) == 0 {
		return
	}
	ms := []string{}
	for m := range lw.w.acq[callee.key] {
		ms = append(ms, m)
	}
	sort.Strings(ms)
	hs := []string{}
	for h := range held {
		hs = append(hs, h)
	}
	sort.Strings(hs)
	for _, h := range hs {
		for _, m := range ms {
			lw.w.edges = append(lw.w.edges, loEdge{h, m, lw.f.file, lw.f.name, lw.pos(c), "call " + callee.name})
		}
	}
}

func (lw *loWalker) expr(n ast.Node, held loHeld) {
	if n == nil {
		return
	}
	ast.Inspect(n, func(m ast.Node) bool {
		switch x := m.(type) {
		case *ast.FuncLit:
			// taken as run on the spot (PanicToError, once.Do, deferred closures, callbacks): with what is held here
			(&loWalker{w: lw.w, f: lw.f, env: lw.env, edges: lw.edges, det: lw.det}).block(x.Body.List, held.clone())
			return false
		case *ast.CallExpr:
			if lx, op := lw.lockCall(x); lx != nil {
				lw.onLock(lx, op, x, held)
				return false
			}
			lw.onCall(x, held)
		}
		return true
	})
}

func (lw *loWalker) block(list []ast.Stmt, held loHeld) (loHeld, bool) {
	for _, st := range list {
		held = lw.stmt(st, held)
	}
	return held, lfTerminates(list)
}

func (lw *loWalker) stmt(st ast.Stmt, held loHeld) loHeld {
	switch s := st.(type) {
	case *ast.ExprStmt:
		lw.expr(s.X, held)
	case *ast.DeferStmt:
		if lx, op := lw.lockCall(s.Call); lx != nil {
			if op == "Lock" || op == "RLock" {
				lw.onLock(lx, op, s.Call, held.clone())
			}
			return held // deferred unlock: held to the end
		}
		lw.expr(s.Call, held)
	case *ast.GoStmt:
		// another goroutine: nothing of this one is held there, and what it locks is not nested in this function
		if fl, ok := s.Call.Fun.(*ast.FuncLit); ok {
			sub := &loWalker{w: lw.w, f: lw.f, env: lw.env, edges: lw.edges, det: true}
			sub.block(fl.Body.List, loHeld{})
		}
		for _, a := range s.Call.Args {
			lw.expr(a, held)
		}
	case *ast.AssignStmt:
		for _, r := range s.Rhs {
			lw.expr(r, held)
		}
		for _, l := range s.Lhs {
			lw.expr(l, held)
		}
		lw.env.bind(s.Lhs, s.Rhs)
	case *ast.IncDecStmt:
		lw.expr(s.X, held)
	case *ast.ReturnStmt:
		for _, r := range s.Results {
			lw.expr(r, held)
		}
	case *ast.SendStmt:
		lw.expr(s.Chan, held)
		lw.expr(s.Value, held)
	case *ast.DeclStmt:
		if gd, ok := s.Decl.(*ast.GenDecl); ok {
			for _, sp := range gd.Specs {
				if vs, ok := sp.(*ast.ValueSpec); ok {
					for _, v := range vs.Values {
						lw.expr(v, held)
					}
					var t *loT
					if vs.Type != nil {
						t = lw.env.p.typeOfTypeExpr(lw.env.file, vs.Type)
					}
					for i, nm := range vs.Names {
						if t != nil {
							lw.env.vars[nm.Name] = t
						} else if i < len(vs.Values) {
							if tt := lw.env.typeOf(vs.Values[i]); tt != nil {
								lw.env.vars[nm.Name] = tt
							}
						}
					}
				}
			}
		}
	case *ast.BlockStmt:
		h, _ := lw.block(s.List, held)
		return h
	case *ast.LabeledStmt:
		return lw.stmt(s.Stmt, held)
	case *ast.IfStmt:
		if s.Init != nil {
			held = lw.stmt(s.Init, held)
		}
		lw.expr(s.Cond, held)
		outs := []loHeld{}
		h1, t1 := lw.block(s.Body.List, held.clone())
		if !t1 {
			outs = append(outs, h1)
		}
		if s.Else != nil {
			h2 := lw.stmt(s.Else, held.clone())
			term := false
			if e, ok := s.Else.(*ast.BlockStmt); ok {
				term = lfTerminates(e.List)
			}
			if !term {
				outs = append(outs, h2)
			}
		} else {
			outs = append(outs, held)
		}
		if len(outs) == 0 {
			return held
		}
		r := outs[0]
		for _, o := range outs[1:] {
			r = loMeet(r, o)
		}
		return r
	case *ast.ForStmt:
		if s.Init != nil {
			held = lw.stmt(s.Init, held)
		}
		lw.expr(s.Cond, held)
		h, _ := lw.block(s.Body.List, held.clone())
		if s.Post != nil {
			lw.stmt(s.Post, h.clone())
		}
		return loMeet(held, h)
	case *ast.RangeStmt:
		lw.expr(s.X, held)
		if t := lw.env.typeOf(s.X); t != nil && t.elem != nil {
			if id, ok := s.Value.(*ast.Ident); ok && id.Name != "_" {
				lw.env.vars[id.Name] = t.elem
			}
		}
		h, _ := lw.block(s.Body.List, held.clone())
		return loMeet(held, h)
	case *ast.SwitchStmt:
		if s.Init != nil {
			held = lw.stmt(s.Init, held)
		}
		lw.expr(s.Tag, held)
		return lw.clauses(s.Body.List, held)
	case *ast.TypeSwitchStmt:
		if s.Init != nil {
			held = lw.stmt(s.Init, held)
		}
		lw.stmt(s.Assign, held)
		return lw.clauses(s.Body.List, held)
	case *ast.SelectStmt:
		return lw.clauses(s.Body.List, held)
	}
	return held
}

func (lw *loWalker) clauses(list []ast.Stmt, held loHeld) loHeld {
	r := held
	for _, c := range list {
		var body []ast.Stmt
		switch cc := c.(type) {
		case *ast.CaseClause:
			for _, e := range cc.List {
				lw.expr(e, held)
			}
			body = cc.Body
		case *ast.CommClause:
			if cc.Comm != nil {
				lw.stmt(cc.Comm, held.clone())
			}
			body = cc.Body
		}
		h, term := lw.block(body, held.clone())
		if !term {
			r = loMeet(r, h)
		}
	}
	return r
}

func (w *loWorld) walkFunc(f *loFunc, edges bool) {
	env := &loEnv{w: w, p: f.pkg, file: f.file, vars: map[string]*loT{}}
	addFields := func(fl *ast.FieldList) {
		if fl == nil {
			return
		}
		for _, fd := range fl.List {
			t := f.pkg.typeOfTypeExpr(f.file, fd.Type)
			if el, ok := fd.Type.(*ast.Ellipsis); ok {
				if et := f.pkg.typeOfTypeExpr(f.file, el.Elt); et != nil {
					t = &loT{elem: et}
				}
			}
			for _, nm := range fd.Names {
				if t != nil {
					env.vars[nm.Name] = t
				} else {
					env.vars[nm.Name] = &loT{dir: "?", name: "?"} // a variable (shadows package / import names)
				}
			}
		}
	}
	addFields(f.decl.Recv)
	addFields(f.decl.Type.Params)
	addFields(f.decl.Type.Results)
	lw := &loWalker{w: w, f: f, env: env, edges: edges}
	lw.block(f.decl.Body.List, loHeld{})
}

// ---------------------------------------------------------------- loading

func loLoad(repo string, fset *token.FileSet) (map[string]*loPkg, error) {
	pkgs := map[string]*loPkg{}
	for _, top := range []string{"client", "pkg", "server"} {
		err := filepath.Walk(filepath.Join(repo, top), func(path string, fi os.FileInfo, err error) error {
			if err != nil {
				return err
			}
			n := fi.Name()
			if fi.IsDir() || !strings.HasSuffix(n, ".go") || strings.HasSuffix(n, "_test.go") || strings.HasPrefix(n, "verif_") ||
				strings.HasSuffix(n, "_verif.go") {
				return nil
			}
			rel, _ := filepath.Rel(repo, path)
			rel = filepath.ToSlash(rel)
			dir := filepath.ToSlash(filepath.Dir(rel))
			f, err := parser.ParseFile(fset, path, nil, 0)
			if err != nil {
				return err
			}
			p := pkgs[dir]
			if p == nil {
				p = &loPkg{dir: dir, files: map[string]*ast.File{}, imports: map[string]map[string]string{}, structs: map[string]*loStruct{},
					ifaces: map[string]bool{}, funcs: map[string]*loFunc{}, vars: map[string]*loT{}}
				pkgs[dir] = p
			}
			p.files[rel] = f
			imps := map[string]string{}
			for _, im := range f.Imports {
				ip, _ := strconv.Unquote(im.Path.Value)
				local := ip[strings.LastIndex(ip, "/")+1:]
				if im.Name != nil {
					local = im.Name.Name
				}
				if strings.HasPrefix(ip, loModule) {
					imps[local] = strings.TrimPrefix(ip, loModule)
				} else {
					imps[local] = ip
				}
			}
			p.imports[rel] = imps
			return nil
		})
		if err != nil {
			return nil, err
		}
	}
	for _, p := range pkgs {
		rels := []string{}
		for r := range p.files {
			rels = append(rels, r)
		}
		sort.Strings(rels)
		for _, rel := range rels {
			for _, decl := range p.files[rel].Decls {
				switch d := decl.(type) {
				case *ast.GenDecl:
					for _, sp := range d.Specs {
						switch s := sp.(type) {
						case *ast.TypeSpec:
							switch tt := s.Type.(type) {
							case *ast.StructType:
								st := &loStruct{fields: map[string]*loT{}}
								for _, fl := range tt.Fields.List {
									t := p.typeOfTypeExpr(rel, fl.Type)
									if t == nil {
										continue
									}
									if len(fl.Names) == 0 {
										st.embedded = append(st.embedded, t)
									}
									for _, nm := range fl.Names {
										st.fields[nm.Name] = t
									}
								}
								p.structs[s.Name.Name] = st
							case *ast.InterfaceType:
								p.ifaces[s.Name.Name] = true
							}
						case *ast.ValueSpec:
							if d.Tok == token.VAR {
								var t *loT
								if s.Type != nil {
									t = p.typeOfTypeExpr(rel, s.Type)
								}
								for _, nm := range s.Names {
									if t != nil {
										p.vars[nm.Name] = t
									}
								}
							}
						}
					}
				case *ast.FuncDecl:
					if d.Body == nil {
						continue
					}
					_, rt := lfRecvType(d)
					name := d.Name.Name
					if rt != "" {
						name = rt + "." + name
					}
					p.funcs[name] = &loFunc{pkg: p, file: rel, decl: d, key: p.dir + "." + name, name: name}
				}
			}
		}
	}
	return pkgs, nil
}

// ---------------------------------------------------------------- RegisterControl / HandleTCPWorkConnection

func loRegisterControl(fset *token.FileSet, repo string) (between []string, returns int, err error) {
	f, err := parser.ParseFile(fset, filepath.Join(repo, "server/service.go"), nil, 0)
	if err != nil {
		return nil, 0, err
	}
	for _, decl := range f.Decls {
		fd, ok := decl.(*ast.FuncDecl)
		if !ok || fd.Body == nil || fd.Name.Name != "RegisterControl" {
			continue
		}
		iAdd, iStart := -1, -1
		for i, st := range fd.Body.List {
			src := agSrc(fset, st)
			if iAdd < 0 && strings.Contains(src, "svr.ctlManager.Add(") {
				iAdd = i
			}
			if es, ok := st.(*ast.ExprStmt); ok && agSrc(fset, es.X) == "ctl.Start()" {
				iStart = i
			}
		}
		if iAdd < 0 || iStart < 0 || iStart <= iAdd {
			return nil, 0, fail("server/service.go RegisterControl: `svr.ctlManager.Add(` followed by a top-level `ctl.Start()` not found")
		}
		for _, st := range fd.Body.List[iAdd:iStart] {
			between = append(between, agSrc(fset, st))
			ast.Inspect(st, func(n ast.Node) bool {
				switch n.(type) {
				case *ast.FuncLit:
					return false
				case *ast.ReturnStmt:
					returns++
				}
				return true
			})
		}
		// nothing but Start itself may stand between: a panic / os.Exit / goto would be another way around it
		return between, returns, nil
	}
	return nil, 0, fail("server/service.go: func RegisterControl not found")
}

type loResolve struct {
	lhs        string
	errDropped bool
}

func loResolveCalls(fset *token.FileSet, repo string) ([]loResolve, error) {
	f, err := parser.ParseFile(fset, filepath.Join(repo, "client/proxy/proxy.go"), nil, 0)
	if err != nil {
		return nil, err
	}
	var out []loResolve
	found := false
	for _, decl := range f.Decls {
		fd, ok := decl.(*ast.FuncDecl)
		if !ok || fd.Body == nil || fd.Name.Name != "HandleTCPWorkConnection" {
			continue
		}
		found = true
		ast.Inspect(fd.Body, func(n ast.Node) bool {
			as, ok := n.(*ast.AssignStmt)
			if !ok || len(as.Rhs) != 1 || len(as.Lhs) != 2 {
				return true
			}
			c, ok := as.Rhs[0].(*ast.CallExpr)
			if !ok || agSrc(fset, c.Fun) != "net.ResolveTCPAddr" {
				return true
			}
			out = append(out, loResolve{agSrc(fset, as.Lhs[0]), agSrc(fset, as.Lhs[1]) == "_"})
			return true
		})
	}
	if !found || len(out) == 0 {
		return nil, fail("client/proxy/proxy.go HandleTCPWorkConnection: no `x, err := net.ResolveTCPAddr(…)` found")
	}
	return out, nil
}

// ---------------------------------------------------------------- main

func genLockOrder(repo, out string) error {
	fset := token.NewFileSet()
	pkgs, err := loLoad(repo, fset)
	if err != nil {
		return err
	}
	w := &loWorld{fset: fset, pkgs: pkgs, direct: map[string]map[string]bool{}, calls: map[string]map[string]bool{},
		acq: map[string]map[string]bool{}, mutexes: map[string]bool{}}
	var funcs []*loFunc
	for _, p := range pkgs {
		for _, f := range p.funcs {
			funcs = append(funcs, f)
		}
	}
	sort.Slice(funcs, func(i, j int) bool { return funcs[i].key < funcs[j].key })
	for _, f := range funcs {
		w.walkFunc(f, false)
	}
	// transitive acquisition sets
	for _, f := range funcs {
		w.acq[f.key] = map[string]bool{}
		for m := range w.direct[f.key] {
			w.acq[f.key][m] = true
		}
	}
	for changed := true; changed; {
		changed = false
		for _, f := range funcs {
			for c := range w.calls[f.key] {
				for m := range w.acq[c] {
					if !w.acq[f.key][m] {
						w.acq[f.key][m] = true
						changed = true
					}
				}
			}
		}
	}
	for _, f := range funcs {
		w.walkFunc(f, true)
	}
	if w.lockSites == 0 {
		return fail("no Lock()/RLock() call on a sync.Mutex / sync.RWMutex found at all")
	}
	// distinct edges (first site of each pair kept), sorted
	sort.SliceStable(w.edges, func(i, j int) bool {
		a, b := w.edges[i], w.edges[j]
		if a.from != b.from {
			return a.from < b.from
		}
		if a.to != b.to {
			return a.to < b.to
		}
		if a.file != b.file {
			return a.file < b.file
		}
		return a.line < b.line
	})
	var edges []loEdge
	for _, e := range w.edges {
		if n := len(edges); n > 0 && edges[n-1].from == e.from && edges[n-1].to == e.to {
			continue
		}
		edges = append(edges, e)
	}
	mutexes := []string{}
	for m := range w.mutexes {
		mutexes = append(mutexes, m)
	}
	sort.Strings(mutexes)
	// a topological order (Kahn, deterministic); what cannot be ordered (a cycle) is appended as it is
	indeg := map[string]int{}
	for _, e := range edges {
		if e.from != e.to {
			indeg[e.to]++
		}
	}
	done := map[string]bool{}
	var order []string
	for len(order) < len(mutexes) {
		progressed := false
		for _, m := range mutexes {
			if !done[m] && indeg[m] == 0 {
				done[m] = true
				order = append(order, m)
				for _, e := range edges {
					if e.from == m && e.to != m {
						indeg[e.to]--
					}
				}
				progressed = true
				break
			}
		}
		if !progressed {
			for _, m := range mutexes {
				if !done[m] {
					order = append(order, m)
				}
			}
			break
		}
	}
	sort.Slice(w.unresolved, func(i, j int) bool {
		return strings.Join(w.unresolved[i][:], "\x00") < strings.Join(w.unresolved[j][:], "\x00")
	})
	between, returns, err := loRegisterControl(fset, repo)
	if err != nil {
		return err
	}
	resolves, err := loResolveCalls(fset, repo)
	if err != nil {
		return err
	}

	var b strings.Builder
	b.WriteString("/- GENERATED by translate/gen_lockorder.go from the frp source tree. Do not edit. -/\n")
	b.WriteString("import Frp.Model.LockOrder\n")
	b.WriteString("namespace Frp.Gen.LockOrder\nopen Frp.LockOrd\n\n")
	strList := func(name, doc string, xs []string) {
		fmt.Fprintf(&b, "/-- %s -/\ndef %s : List String :=\n  [", doc, name)
		for i, x := range xs {
			if i > 0 {
				b.WriteString(",\n   ")
			}
			b.WriteString(agLeanStr(x))
		}
		b.WriteString("]\n\n")
	}
	strList("mutexes", "every mutex locked somewhere in client/ pkg/ server/, named by its declaration", mutexes)
	fmt.Fprintf(&b, "/-- Lock() / RLock() call sites on a named mutex -/\ndef lockSites : Nat := %d\n\n", w.lockSites)
	b.WriteString("/-- lock calls whose mutex could not be named (file, function, expression) -/\ndef unresolved : List (String × String × String) :=\n  [")
	for i, u := range w.unresolved {
		if i > 0 {
			b.WriteString(",\n   ")
		}
		fmt.Fprintf(&b, "(%s, %s, %s)", agLeanStr(u[0]), agLeanStr(u[1]), agLeanStr(u[2]))
	}
	b.WriteString("]\n\n")
	emitEdges := func(name, doc string, es []loEdge) {
		fmt.Fprintf(&b, "/-- %s -/\ndef %s : List Edge :=\n  [", doc, name)
		for i, e := range es {
			if i > 0 {
				b.WriteString(",\n   ")
			}
			fmt.Fprintf(&b, "⟨%s, %s, %s, %s, %d, %s⟩", agLeanStr(e.from), agLeanStr(e.to), agLeanStr(e.file), agLeanStr(e.fn), e.line, agLeanStr(e.via))
		}
		b.WriteString("]\n\n")
	}
	emitEdges("edges", "`src -> dst`: dst is acquired while src is held (first site of each pair)", edges)
	emitEdges("relocks", "the same lock expression locked again while it is held", w.relocks)
	strList("order", "a topological order of `mutexes` (witness, checked in Lean)", order)
	strList("regCtlBetween", "server/service.go RegisterControl: the statements from `svr.ctlManager.Add` up to (not including) `ctl.Start()`", between)
	fmt.Fprintf(&b, "/-- `return` statements among them: ways to leave RegisterControl with a control that is in the table but never started -/\ndef regCtlReturnsBeforeStart : Nat := %d\n\n", returns)
	b.WriteString("/-- client/proxy/proxy.go HandleTCPWorkConnection: (variable, error discarded) of every `net.ResolveTCPAddr` call -/\ndef resolveCalls : List (String × Bool) :=\n  [")
	for i, r := range resolves {
		if i > 0 {
			b.WriteString(", ")
		}
		fmt.Fprintf(&b, "(%s, %v)", agLeanStr(r.lhs), r.errDropped)
	}
	b.WriteString("]\n\nend Frp.Gen.LockOrder\n")
	return os.WriteFile(filepath.Join(out, "LockOrder.lean"), []byte(b.String()), 0o644)
}
