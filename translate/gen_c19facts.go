package main

// Generator C19Facts (C19): the two decision shapes the C19 models take from the source, read with go/ast and
// written to lean/Frp/Gen/C19Facts.lean.
//
//  1. client/proxy/proxy_wrapper.go, (*Wrapper).checkWorker: the loop body is
//     `if atomic.LoadUint32(&pw.health) == 0 { Lock; if REG { … StartProxyPayload … }; Unlock } else { Lock; if WD { … pw.close() … }; Unlock }`.
//     REG and WD are EVALUATED, for every phase constant of the file's `ProxyPhase…` const block and both values of the
//     two deadline tests `now.After(pw.lastSendStartMsg.Add(waitResponseTimeout))` (W) and
//     `now.After(pw.lastStartErr.Add(startErrTimeout))` (E), by a small interpreter over the expression:
//     `pw.Phase ==/!= <const>`, `||`, `&&`, `!`, parentheses, the two deadline calls, `true`/`false`, and a call of another
//     method of *Wrapper with the receiver `pw`, whose body may consist of `switch pw.Phase {case …}`, `if … {} else {}`
//     and `return <expr>` statements (inlined).  Anything else is a BROKEN TIE.
//     registerDue  = [(phase index, W, E, REG)]        (24 rows, phases in the order of the const block)
//     withdrawDue  = [(phase index, WD)]               (6 rows)
//     phaseNames   = the identifiers of the const block, phaseTexts their string values
//     registerWrites / withdrawWrites = the constant assigned to pw.Phase inside the two guarded blocks
//     registerLocked / withdrawLocked = the guarded `if` sits between pw.mu.Lock() and pw.mu.Unlock() of its branch
//
//  2. client/visitor/visitor_manager.go, (*Manager).keepVisitorsRunning: the keeper goroutine's loop.
//     keeperLoopCond  = the `for` has no condition (true) — it is left only through an exit statement
//     keeperExits     = for every `return` / `break` out of the loop / `goto` / `panic(...)` inside the loop body (function
//     literals excluded): the chain of guards it sits under, innermost last; a guard is `recv <expr>` for a select
//     case, `default` for a select default, `if <cond>` / `else <cond>` for an if statement, `case …` for a switch clause
//     keeperStart     = how UpdateAll starts the goroutine: "once" when the only `go vm.keepVisitorsRunning()` of the
//     package is inside the func literal given to vm.keepVisitorsRunningOnce.Do, and the guard of that call
//     (`len(cfgs) > 0`)
//
// Fails ("BROKEN TIE") when an anchor is missing or a statement shape cannot be interpreted.

import (
	"bytes"
	"fmt"
	"go/ast"
	"go/parser"
	"go/printer"
	"go/token"
	"os"
	"path/filepath"
	"strconv"
	"strings"
)

func init() { generators["C19Facts"] = genC19Facts }

func c19Src(fset *token.FileSet, n ast.Node) string {
	var b bytes.Buffer
	_ = printer.Fprint(&b, fset, n)
	return strings.Join(strings.Fields(b.String()), " ")
}

type c19Env struct {
	fset   *token.FileSet
	file   *ast.File
	phases []string // identifiers
	phase  string
	w, e   bool
	depth  int
}

func c19IsPwPhase(e ast.Expr) bool { return sfSelIs(e, "pw", "Phase") }

// deadline: now.After(pw.<field>.Add(<timeout>))
func c19Deadline(e ast.Expr) (string, bool) {
	c, ok := e.(*ast.CallExpr)
	if !ok || len(c.Args) != 1 || !sfSelIs(c.Fun, "now", "After") {
		return "", false
	}
	in, ok := c.Args[0].(*ast.CallExpr)
	if !ok || len(in.Args) != 1 {
		return "", false
	}
	sel, ok := in.Fun.(*ast.SelectorExpr)
	if !ok || sel.Sel.Name != "Add" {
		return "", false
	}
	to, ok := in.Args[0].(*ast.Ident)
	if !ok {
		return "", false
	}
	switch {
	case sfSelIs(sel.X, "pw", "lastSendStartMsg") && to.Name == "waitResponseTimeout":
		return "W", true
	case sfSelIs(sel.X, "pw", "lastStartErr") && to.Name == "startErrTimeout":
		return "E", true
	}
	return "", false
}

func (v *c19Env) isPhaseConst(e ast.Expr) (string, bool) {
	id, ok := e.(*ast.Ident)
	if !ok {
		return "", false
	}
	for _, p := range v.phases {
		if p == id.Name {
			return p, true
		}
	}
	return "", false
}

func (v *c19Env) eval(e ast.Expr) (bool, error) {
	switch x := e.(type) {
	case *ast.ParenExpr:
		return v.eval(x.X)
	case *ast.Ident:
		if x.Name == "true" {
			return true, nil
		}
		if x.Name == "false" {
			return false, nil
		}
	case *ast.UnaryExpr:
		if x.Op == token.NOT {
			b, err := v.eval(x.X)
			return !b, err
		}
	case *ast.BinaryExpr:
		switch x.Op {
		case token.LOR, token.LAND:
			a, err := v.eval(x.X)
			if err != nil {
				return false, err
			}
			b, err := v.eval(x.Y)
			if err != nil {
				return false, err
			}
			if x.Op == token.LOR {
				return a || b, nil
			}
			return a && b, nil
		case token.EQL, token.NEQ:
			l, r := x.X, x.Y
			if !c19IsPwPhase(l) {
				l, r = r, l
			}
			if c, ok := v.isPhaseConst(r); ok && c19IsPwPhase(l) {
				return (v.phase == c) == (x.Op == token.EQL), nil
			}
		}
	case *ast.CallExpr:
		if k, ok := c19Deadline(x); ok {
			if k == "W" {
				return v.w, nil
			}
			return v.e, nil
		}
		// another method of *Wrapper on the same receiver: inline
		if sel, ok := x.Fun.(*ast.SelectorExpr); ok {
			if id, ok := sel.X.(*ast.Ident); ok && id.Name == "pw" {
				fd := sfMethod(v.file, "Wrapper", sel.Sel.Name)
				if fd == nil || fd.Body == nil {
					return false, fail("method (*Wrapper).%s not found in the file", sel.Sel.Name)
				}
				if len(fd.Recv.List[0].Names) != 1 || fd.Recv.List[0].Names[0].Name != "pw" {
					return false, fail("(*Wrapper).%s: receiver is not named pw", sel.Sel.Name)
				}
				// parameters must be passed through under their own names (now → now)
				i := 0
				for _, p := range fd.Type.Params.List {
					for _, n := range p.Names {
						if i >= len(x.Args) {
							return false, fail("(*Wrapper).%s: argument count", sel.Sel.Name)
						}
						a, ok := x.Args[i].(*ast.Ident)
						if !ok || a.Name != n.Name {
							return false, fail("(*Wrapper).%s: argument %d is not the variable %s", sel.Sel.Name, i, n.Name)
						}
						i++
					}
				}
				if v.depth > 4 {
					return false, fail("(*Wrapper).%s: call depth", sel.Sel.Name)
				}
				v.depth++
				defer func() { v.depth-- }()
				r, done, err := v.block(fd.Body.List)
				if err != nil {
					return false, err
				}
				if !done {
					return false, fail("(*Wrapper).%s: falls off its end", sel.Sel.Name)
				}
				return r, nil
			}
		}
	}
	return false, fail("condition not interpretable: %s", c19Src(v.fset, e))
}

// block interprets statements up to the first executed `return <bool expr>`
func (v *c19Env) block(list []ast.Stmt) (val, returned bool, err error) {
	for _, st := range list {
		switch s := st.(type) {
		case *ast.ReturnStmt:
			if len(s.Results) != 1 {
				return false, false, fail("return with %d results", len(s.Results))
			}
			b, err := v.eval(s.Results[0])
			return b, true, err
		case *ast.IfStmt:
			if s.Init != nil {
				return false, false, fail("if with init statement: %s", c19Src(v.fset, s.Init))
			}
			c, err := v.eval(s.Cond)
			if err != nil {
				return false, false, err
			}
			if c {
				if r, done, err := v.block(s.Body.List); err != nil || done {
					return r, done, err
				}
			} else if s.Else != nil {
				var l []ast.Stmt
				switch e := s.Else.(type) {
				case *ast.BlockStmt:
					l = e.List
				default:
					l = []ast.Stmt{e}
				}
				if r, done, err := v.block(l); err != nil || done {
					return r, done, err
				}
			}
		case *ast.SwitchStmt:
			if s.Init != nil || !c19IsPwPhase(s.Tag) {
				return false, false, fail("switch not on pw.Phase: %s", c19Src(v.fset, s))
			}
			var chosen, def *ast.CaseClause
			for _, c := range s.Body.List {
				cc := c.(*ast.CaseClause)
				if cc.List == nil {
					def = cc
					continue
				}
				for _, e := range cc.List {
					k, ok := v.isPhaseConst(e)
					if !ok {
						return false, false, fail("switch case is not a phase constant: %s", c19Src(v.fset, e))
					}
					if k == v.phase && chosen == nil {
						chosen = cc
					}
				}
			}
			if chosen == nil {
				chosen = def
			}
			if chosen != nil {
				for _, b := range chosen.Body {
					if br, ok := b.(*ast.BranchStmt); ok && br.Tok == token.FALLTHROUGH {
						return false, false, fail("fallthrough in switch")
					}
				}
				if r, done, err := v.block(chosen.Body); err != nil || done {
					return r, done, err
				}
			}
		case *ast.EmptyStmt:
		default:
			return false, false, fail("statement not interpretable: %s", c19Src(v.fset, st))
		}
	}
	return false, false, nil
}

func c19Contains(n ast.Node, pred func(ast.Node) bool) bool {
	found := false
	ast.Inspect(n, func(x ast.Node) bool {
		if x != nil && pred(x) {
			found = true
		}
		return !found
	})
	return found
}

func c19IsCall(n ast.Node, x, sel string) bool {
	c, ok := n.(*ast.CallExpr)
	return ok && sfSelIs(c.Fun, x, sel)
}

// c19LockedIf: the branch body is `pw.mu.Lock(); if C {…}; pw.mu.Unlock()`; returns the if
func c19LockedIf(list []ast.Stmt) (*ast.IfStmt, bool) {
	isMu := func(st ast.Stmt, name string) bool {
		es, ok := st.(*ast.ExprStmt)
		if !ok {
			return false
		}
		c, ok := es.X.(*ast.CallExpr)
		if !ok {
			return false
		}
		s, ok := c.Fun.(*ast.SelectorExpr)
		return ok && s.Sel.Name == name && sfSelIs(s.X, "pw", "mu")
	}
	var ifs *ast.IfStmt
	n := 0
	for _, st := range list {
		if i, ok := st.(*ast.IfStmt); ok {
			ifs = i
			n++
		}
	}
	if n != 1 {
		return nil, false
	}
	locked := len(list) == 3 && isMu(list[0], "Lock") && list[1] == ast.Stmt(ifs) && isMu(list[2], "Unlock")
	return ifs, locked
}

func (v *c19Env) phaseWritten(body *ast.BlockStmt) (string, error) {
	out := ""
	var err error
	ast.Inspect(body, func(n ast.Node) bool {
		a, ok := n.(*ast.AssignStmt)
		if !ok || len(a.Lhs) != 1 || !c19IsPwPhase(a.Lhs[0]) {
			return true
		}
		c, ok := v.isPhaseConst(a.Rhs[0])
		if !ok {
			err = fail("pw.Phase assigned a non-constant: %s", c19Src(v.fset, a))
			return false
		}
		if out != "" && out != c {
			err = fail("pw.Phase assigned twice in one guarded block")
		}
		out = c
		return true
	})
	return out, err
}

func c19WrapperFacts(repo string, b *strings.Builder) error {
	rel := "client/proxy/proxy_wrapper.go"
	fset := token.NewFileSet()
	f, err := parser.ParseFile(fset, filepath.Join(repo, rel), nil, 0)
	if err != nil {
		return err
	}
	v := &c19Env{fset: fset, file: f}
	var texts []string
	for _, d := range f.Decls {
		gd, ok := d.(*ast.GenDecl)
		if !ok || gd.Tok != token.CONST {
			continue
		}
		for _, sp := range gd.Specs {
			vs := sp.(*ast.ValueSpec)
			for i, n := range vs.Names {
				if strings.HasPrefix(n.Name, "ProxyPhase") && i < len(vs.Values) {
					lit, ok := vs.Values[i].(*ast.BasicLit)
					if !ok || lit.Kind != token.STRING {
						return fail("%s: %s is not a string literal", rel, n.Name)
					}
					s, _ := strconv.Unquote(lit.Value)
					v.phases = append(v.phases, n.Name)
					texts = append(texts, s)
				}
			}
		}
	}
	if len(v.phases) == 0 {
		return fail("%s: no ProxyPhase… constants", rel)
	}
	cw := sfMethod(f, "Wrapper", "checkWorker")
	if cw == nil {
		return fail("%s: (*Wrapper).checkWorker not found", rel)
	}
	var loop *ast.ForStmt
	for _, st := range cw.Body.List {
		if l, ok := st.(*ast.ForStmt); ok {
			if loop != nil {
				return fail("%s: checkWorker has two loops", rel)
			}
			loop = l
		}
	}
	if loop == nil {
		return fail("%s: checkWorker has no loop", rel)
	}
	var br *ast.IfStmt
	for _, st := range loop.Body.List {
		if i, ok := st.(*ast.IfStmt); ok && c19Contains(i.Cond, func(n ast.Node) bool { return c19SelIsNode(n, "pw", "health") }) {
			if br != nil {
				return fail("%s: two health branches in the loop", rel)
			}
			br = i
		}
	}
	if br == nil || br.Else == nil {
		return fail("%s: `if atomic.LoadUint32(&pw.health) == 0 {…} else {…}` not found in checkWorker's loop", rel)
	}
	if got := c19Src(fset, br.Cond); got != "atomic.LoadUint32(&pw.health) == 0" {
		return fail("%s: health test is `%s`", rel, got)
	}
	elseBlk, ok := br.Else.(*ast.BlockStmt)
	if !ok {
		return fail("%s: else-if after the health test", rel)
	}
	reg, regLocked := c19LockedIf(br.Body.List)
	wd, wdLocked := c19LockedIf(elseBlk.List)
	if reg == nil || wd == nil {
		return fail("%s: each health branch must contain exactly one if statement", rel)
	}
	if reg.Else != nil || wd.Else != nil || reg.Init != nil || wd.Init != nil {
		return fail("%s: guarded if with else / init", rel)
	}
	sendsNew := func(n ast.Node) bool {
		cl, ok := n.(*ast.CompositeLit)
		return ok && sfSelIs(cl.Type, "event", "StartProxyPayload")
	}
	closes := func(n ast.Node) bool { return c19IsCall(n, "pw", "close") }
	if !c19Contains(reg.Body, sendsNew) || c19Contains(reg.Body, closes) {
		return fail("%s: the healthy branch's guarded block does not (only) hand over StartProxyPayload", rel)
	}
	if !c19Contains(wd.Body, closes) || c19Contains(wd.Body, sendsNew) {
		return fail("%s: the unhealthy branch's guarded block does not (only) call pw.close()", rel)
	}
	// nothing else in the loop registers
	n := 0
	ast.Inspect(cw.Body, func(x ast.Node) bool {
		if x != nil && sendsNew(x) {
			n++
		}
		return true
	})
	if n != 1 {
		return fail("%s: checkWorker builds StartProxyPayload %d times", rel, n)
	}
	regW, err := v.phaseWritten(reg.Body)
	if err != nil {
		return err
	}
	wdW, err := v.phaseWritten(wd.Body)
	if err != nil {
		return err
	}
	idx := func(name string) int {
		for i, p := range v.phases {
			if p == name {
				return i
			}
		}
		return -1
	}
	q := func(l []string) string {
		var o []string
		for _, s := range l {
			o = append(o, strconv.Quote(s))
		}
		return "[" + strings.Join(o, ", ") + "]"
	}
	fmt.Fprintf(b, "/- %s: the ProxyPhase… constants, in source order -/\n", rel)
	fmt.Fprintf(b, "def phaseNames : List String := %s\n", q(v.phases))
	fmt.Fprintf(b, "def phaseTexts : List String := %s\n\n", q(texts))
	fmt.Fprintf(b, "/- checkWorker, healthy branch: `%s` evaluated per (phase index, wait-response deadline passed,\n   start-error back-off passed) -/\n", c19Src(fset, reg.Cond))
	b.WriteString("def registerDue : List (Nat × Bool × Bool × Bool) :=\n  [")
	first := true
	for i, p := range v.phases {
		for _, w := range []bool{false, true} {
			for _, e := range []bool{false, true} {
				v.phase, v.w, v.e = p, w, e
				r, err := v.eval(reg.Cond)
				if err != nil {
					return fail("%s: checkWorker registration condition: %v", rel, err)
				}
				if !first {
					b.WriteString(",\n   ")
				}
				first = false
				fmt.Fprintf(b, "(%d, %s, %s, %s)", i, sfBool(w), sfBool(e), sfBool(r))
			}
		}
	}
	b.WriteString("]\n\n")
	fmt.Fprintf(b, "/- checkWorker, unhealthy branch: `%s` per phase index -/\n", c19Src(fset, wd.Cond))
	b.WriteString("def withdrawDue : List (Nat × Bool) :=\n  [")
	for i, p := range v.phases {
		v.phase, v.w, v.e = p, false, false
		r0, err := v.eval(wd.Cond)
		if err != nil {
			return fail("%s: checkWorker withdrawal condition: %v", rel, err)
		}
		v.w, v.e = true, true
		r1, _ := v.eval(wd.Cond)
		if r0 != r1 {
			return fail("%s: the withdrawal condition depends on a deadline", rel)
		}
		if i > 0 {
			b.WriteString(", ")
		}
		fmt.Fprintf(b, "(%d, %s)", i, sfBool(r0))
	}
	b.WriteString("]\n\n")
	fmt.Fprintf(b, "def registerWrites : Nat := %d\n", idx(regW))
	fmt.Fprintf(b, "def withdrawWrites : Nat := %d\n", idx(wdW))
	fmt.Fprintf(b, "def registerLocked : Bool := %s\n", sfBool(regLocked))
	fmt.Fprintf(b, "def withdrawLocked : Bool := %s\n\n", sfBool(wdLocked))
	if idx(regW) < 0 || idx(wdW) < 0 {
		return fail("%s: a guarded block does not write pw.Phase", rel)
	}
	return nil
}

func c19SelIsNode(n ast.Node, x, sel string) bool {
	e, ok := n.(ast.Expr)
	return ok && sfSelIs(e, x, sel)
}

// ---------------------------------------------------------------- visitor keeper

type c19Exit struct {
	kind   string
	guards []string
}

func c19KeeperExits(fset *token.FileSet, loop *ast.ForStmt) ([]c19Exit, error) {
	var out []c19Exit
	var walk func(list []ast.Stmt, guards []string, brk bool) error
	// brk: an unlabeled `break` here leaves the keeper loop (false inside select / switch / inner for)
	var stmt func(st ast.Stmt, guards []string, brk bool) error
	stmt = func(st ast.Stmt, guards []string, brk bool) error {
		g := func(s string) []string { return append(append([]string(nil), guards...), s) }
		switch s := st.(type) {
		case *ast.ReturnStmt:
			out = append(out, c19Exit{"return", guards})
		case *ast.BranchStmt:
			switch {
			case s.Tok == token.GOTO:
				out = append(out, c19Exit{"goto", guards})
			case s.Tok == token.BREAK && (s.Label != nil || brk):
				out = append(out, c19Exit{"break", guards})
			}
		case *ast.ExprStmt:
			if c, ok := s.X.(*ast.CallExpr); ok {
				if id, ok := c.Fun.(*ast.Ident); ok && id.Name == "panic" {
					out = append(out, c19Exit{"panic", guards})
				}
				if sel, ok := c.Fun.(*ast.SelectorExpr); ok {
					if x, ok := sel.X.(*ast.Ident); ok && ((x.Name == "os" && sel.Sel.Name == "Exit") || (x.Name == "runtime" && sel.Sel.Name == "Goexit")) {
						out = append(out, c19Exit{x.Name + "." + sel.Sel.Name, guards})
					}
				}
			}
		case *ast.BlockStmt:
			return walk(s.List, guards, brk)
		case *ast.LabeledStmt:
			return stmt(s.Stmt, guards, brk)
		case *ast.IfStmt:
			c := c19Src(fset, s.Cond)
			if err := walk(s.Body.List, g("if "+c), brk); err != nil {
				return err
			}
			if s.Else != nil {
				return stmt(s.Else, g("else "+c), brk)
			}
		case *ast.ForStmt:
			return walk(s.Body.List, g("for"), false)
		case *ast.RangeStmt:
			return walk(s.Body.List, g("range "+c19Src(fset, s.X)), false)
		case *ast.SelectStmt:
			for _, c := range s.Body.List {
				cc := c.(*ast.CommClause)
				lab := "default"
				if cc.Comm != nil {
					lab = "comm " + c19Src(fset, cc.Comm)
					var rx ast.Expr
					switch m := cc.Comm.(type) {
					case *ast.ExprStmt:
						rx = m.X
					case *ast.AssignStmt:
						rx = m.Rhs[0]
					}
					if u, ok := rx.(*ast.UnaryExpr); ok && u.Op == token.ARROW {
						lab = "recv " + c19Src(fset, u.X)
					}
				}
				if err := walk(cc.Body, g(lab), false); err != nil {
					return err
				}
			}
		case *ast.SwitchStmt:
			for _, c := range s.Body.List {
				cc := c.(*ast.CaseClause)
				if err := walk(cc.Body, g("case "+c19Src(fset, cc)), false); err != nil {
					return err
				}
			}
		case *ast.TypeSwitchStmt:
			for _, c := range s.Body.List {
				cc := c.(*ast.CaseClause)
				if err := walk(cc.Body, g("case (type)"), false); err != nil {
					return err
				}
			}
		case *ast.GoStmt, *ast.DeferStmt, *ast.AssignStmt, *ast.DeclStmt, *ast.IncDecStmt, *ast.SendStmt, *ast.EmptyStmt:
		default:
			return fail("keeper loop: statement kind %T not handled", st)
		}
		return nil
	}
	walk = func(list []ast.Stmt, guards []string, brk bool) error {
		for _, st := range list {
			if err := stmt(st, guards, brk); err != nil {
				return err
			}
		}
		return nil
	}
	return out, walk(loop.Body.List, nil, true)
}

func c19KeeperFacts(repo string, b *strings.Builder) error {
	rel := "client/visitor/visitor_manager.go"
	fset := token.NewFileSet()
	f, err := parser.ParseFile(fset, filepath.Join(repo, rel), nil, 0)
	if err != nil {
		return err
	}
	kp := sfMethod(f, "Manager", "keepVisitorsRunning")
	if kp == nil {
		return fail("%s: (*Manager).keepVisitorsRunning not found", rel)
	}
	var loop *ast.ForStmt
	for i, st := range kp.Body.List {
		switch s := st.(type) {
		case *ast.ForStmt:
			if loop != nil || i != len(kp.Body.List)-1 {
				return fail("%s: keepVisitorsRunning: the loop is not the single, last statement", rel)
			}
			loop = s
		case *ast.ReturnStmt, *ast.IfStmt, *ast.SwitchStmt, *ast.SelectStmt, *ast.RangeStmt, *ast.GoStmt:
			return fail("%s: keepVisitorsRunning: control flow before the loop: %s", rel, c19Src(fset, st))
		}
	}
	if loop == nil {
		return fail("%s: keepVisitorsRunning has no loop", rel)
	}
	exits, err := c19KeeperExits(fset, loop)
	if err != nil {
		return fail("%s: %v", rel, err)
	}
	fmt.Fprintf(b, "/- %s, keepVisitorsRunning: the loop has no condition -/\n", rel)
	fmt.Fprintf(b, "def keeperLoopUnconditional : Bool := %s\n\n", sfBool(loop.Cond == nil && loop.Init == nil && loop.Post == nil))
	b.WriteString("/- every statement that leaves the loop: (kind, guards from the outside in) -/\n")
	b.WriteString("def keeperExits : List (String × List String) :=\n  [")
	for i, e := range exits {
		if i > 0 {
			b.WriteString(",\n   ")
		}
		var gs []string
		for _, g := range e.guards {
			gs = append(gs, strconv.Quote(g))
		}
		fmt.Fprintf(b, "(%s, [%s])", strconv.Quote(e.kind), strings.Join(gs, ", "))
	}
	b.WriteString("]\n\n")

	// how the goroutine is started
	type site struct {
		fn     string
		once   bool
		guards []string
	}
	var sites []site
	for _, d := range f.Decls {
		fd, ok := d.(*ast.FuncDecl)
		if !ok || fd.Body == nil {
			continue
		}
		var rec func(n ast.Node, guards []string, once bool)
		rec = func(n ast.Node, guards []string, once bool) {
			switch s := n.(type) {
			case nil:
				return
			case *ast.GoStmt:
				if sfSelIs(s.Call.Fun, "vm", "keepVisitorsRunning") {
					sites = append(sites, site{fd.Name.Name, once, guards})
				}
				return
			case *ast.IfStmt:
				c := c19Src(fset, s.Cond)
				rec(s.Body, append(append([]string(nil), guards...), "if "+c), once)
				if s.Else != nil {
					rec(s.Else, append(append([]string(nil), guards...), "else "+c), once)
				}
				return
			case *ast.CallExpr:
				if sel, ok := s.Fun.(*ast.SelectorExpr); ok && sel.Sel.Name == "Do" && sfSelIs(sel.X, "vm", "keepVisitorsRunningOnce") {
					for _, a := range s.Args {
						rec(a, guards, true)
					}
					return
				}
			}
			ast.Inspect(n, func(x ast.Node) bool {
				if x == n || x == nil {
					return true
				}
				switch x.(type) {
				case *ast.GoStmt, *ast.IfStmt, *ast.CallExpr:
					rec(x, guards, once)
					return false
				}
				return true
			})
		}
		rec(fd.Body, nil, false)
	}
	// (a direct call without `go` would run the loop on the caller: not a start of the goroutine)
	b.WriteString("/- every `go vm.keepVisitorsRunning()` of the file: (function, inside keepVisitorsRunningOnce.Do, guards) -/\n")
	b.WriteString("def keeperStarts : List (String × Bool × List String) :=\n  [")
	for i, s := range sites {
		if i > 0 {
			b.WriteString(",\n   ")
		}
		var gs []string
		for _, g := range s.guards {
			gs = append(gs, strconv.Quote(g))
		}
		fmt.Fprintf(b, "(%s, %s, [%s])", strconv.Quote(s.fn), sfBool(s.once), strings.Join(gs, ", "))
	}
	b.WriteString("]\n\n")
	// the Once is never re-armed
	rearmed := false
	ast.Inspect(f, func(n ast.Node) bool {
		if a, ok := n.(*ast.AssignStmt); ok {
			for _, l := range a.Lhs {
				if sfSelIs(l, "vm", "keepVisitorsRunningOnce") || sfSelIs(l, "m", "keepVisitorsRunningOnce") {
					rearmed = true
				}
			}
		}
		return true
	})
	fmt.Fprintf(b, "def keeperOnceReassigned : Bool := %s\n", sfBool(rearmed))
	return nil
}

func genC19Facts(repo, out string) error {
	var b strings.Builder
	b.WriteString("/- GENERATED by translate/gen_c19facts.go from the frp source tree. Do not edit. -/\n")
	b.WriteString("namespace Frp.Gen.C19Facts\n\n")
	if err := c19WrapperFacts(repo, &b); err != nil {
		return err
	}
	if err := c19KeeperFacts(repo, &b); err != nil {
		return err
	}
	b.WriteString("\nend Frp.Gen.C19Facts\n")
	return os.WriteFile(filepath.Join(out, "C19Facts.lean"), []byte(b.String()), 0o644)
}
