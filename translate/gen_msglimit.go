package main

// Generator MsgLimit (C17): WHO can write the length limit of the control-protocol decoder.
//
// pkg/msg/ctl.go keeps ONE codec object per process (`var msgCtl *jsonMsg.MsgCtl`, golib msg/json); the bound
// `length > msgCtl.maxMsgLength ⇒ ErrMaxMsgLength` of golib's readMsg is the "bounded" clause of C17.  The limit is
// a field of that object: it is what golib's NewMsgCtl puts there unless somebody calls SetMaxMsgLength on the
// object (or gets hold of the object / makes another one).  The facts, read with go/ast from EVERY non-test .go
// file of the repository (all packages) and from the golib module the repository's go.mod requires:
//
//	golibVersion / golibReplaced   the `require github.com/fatedier/golib <v>` line of go.mod; a replace directive for it
//	golibDefault                   the literal `var defaultMaxMsgLength int64 = <n>` of golib msg/json
//	golibCtorInit                  what NewMsgCtl's composite literal puts into maxMsgLength (source text)
//	golibFieldWriters              functions of golib msg/json that assign the field maxMsgLength
//	golibDefaultWriters            functions of golib msg/json that assign the variable defaultMaxMsgLength
//	golibLimitChecks               the conditions of readMsg that mention maxMsgLength (source text)
//	jsonImporters                  files of the repository that import golib msg/json
//	setMaxSites                    every selector `.SetMaxMsgLength` anywhere in the repository (call or method value)
//	ctorSites                      every selector `.NewMsgCtl` anywhere in the repository
//	codecVars                      package-level variables of pkg/msg whose type mentions MsgCtl
//	codecVarUses                   every use of such a variable in pkg/msg: `assign`, `call:<Method>` or `escape:<text>`
//	                               (anything else: passed on, returned, copied, its address taken …)
//	fieldMentions                  identifiers / string literals `maxMsgLength`, `defaultMaxMsgLength` in the repository
//	                               (reflection, linkname)
//
// Fails ("BROKEN TIE") when pkg/msg/ctl.go, go.mod's golib line or the golib source cannot be found.  What is found
// is written as found; the Lean obligations of Props/C17Limit.lean decide.

import (
	"fmt"
	"go/ast"
	"go/parser"
	"go/token"
	"os"
	"os/exec"
	"path/filepath"
	"regexp"
	"sort"
	"strconv"
	"strings"
)

func init() { generators["MsgLimit"] = genMsgLimit }

type mlSite struct{ file, fn, text string }

func mlFuncName(d *ast.FuncDecl) string {
	if d.Recv != nil && len(d.Recv.List) == 1 {
		t := d.Recv.List[0].Type
		if s, ok := t.(*ast.StarExpr); ok {
			t = s.X
		}
		if id, ok := t.(*ast.Ident); ok {
			return id.Name + "." + d.Name.Name
		}
	}
	return d.Name.Name
}

// walk with the stack of ancestors
func mlWalk(n ast.Node, f func(n ast.Node, stack []ast.Node)) {
	var stack []ast.Node
	ast.Inspect(n, func(x ast.Node) bool {
		if x == nil {
			stack = stack[:len(stack)-1]
			return true
		}
		f(x, stack)
		stack = append(stack, x)
		return true
	})
}

func mlEnclosing(stack []ast.Node) string {
	for i := len(stack) - 1; i >= 0; i-- {
		if d, ok := stack[i].(*ast.FuncDecl); ok {
			return mlFuncName(d)
		}
	}
	return ""
}

func mlGolibDir(repo string) (version string, replaced bool, dir string, err error) {
	gm, err := os.ReadFile(filepath.Join(repo, "go.mod"))
	if err != nil {
		return "", false, "", err
	}
	re := regexp.MustCompile(`(?m)^\s*(?:require\s+)?github\.com/fatedier/golib\s+(v\S+)`)
	m := re.FindSubmatch(gm)
	if m == nil {
		return "", false, "", fail("go.mod: no require line for github.com/fatedier/golib")
	}
	version = string(m[1])
	rr := regexp.MustCompile(`(?m)^\s*(?:replace\s+)?github\.com/fatedier/golib(?:\s+v\S+)?\s*=>\s*(\S+)(?:\s+(v\S+))?`)
	if r := rr.FindSubmatch(gm); r != nil {
		replaced = true
		target := string(r[1])
		if strings.HasPrefix(target, ".") || strings.HasPrefix(target, "/") {
			if !filepath.IsAbs(target) {
				target = filepath.Join(repo, target)
			}
			return version, true, target, nil
		}
		// module → module replacement: look that one up in the module cache
		modcache := mlModCache()
		return version, true, filepath.Join(modcache, target+"@"+string(r[2])), nil
	}
	return version, false, filepath.Join(mlModCache(), "github.com", "fatedier", "golib@"+version), nil
}

func mlModCache() string {
	if v := os.Getenv("GOMODCACHE"); v != "" {
		return v
	}
	if out, err := exec.Command("go", "env", "GOMODCACHE").Output(); err == nil && strings.TrimSpace(string(out)) != "" {
		return strings.TrimSpace(string(out))
	}
	home, _ := os.UserHomeDir()
	return filepath.Join(home, "go", "pkg", "mod")
}

func genMsgLimit(repo, out string) error {
	fset := token.NewFileSet()

	// ---- golib msg/json
	version, replaced, gdir, err := mlGolibDir(repo)
	if err != nil {
		return err
	}
	jdir := filepath.Join(gdir, "msg", "json")
	ents, err := os.ReadDir(jdir)
	if err != nil {
		return fail("golib source not found at %s: %v", jdir, err)
	}
	golibDefault := int64(-1)
	ctorInit := ""
	var fieldWriters, defaultWriters, limitChecks []string
	foundReadMsg := false
	for _, e := range ents {
		n := e.Name()
		if e.IsDir() || !strings.HasSuffix(n, ".go") || strings.HasSuffix(n, "_test.go") {
			continue
		}
		f, err := parser.ParseFile(fset, filepath.Join(jdir, n), nil, 0)
		if err != nil {
			return err
		}
		mlWalk(f, func(x ast.Node, stack []ast.Node) {
			switch x := x.(type) {
			case *ast.ValueSpec:
				if len(stack) > 0 {
					if _, inFunc := stack[len(stack)-1].(*ast.DeclStmt); inFunc {
						return
					}
				}
				for i, id := range x.Names {
					if id.Name == "defaultMaxMsgLength" && i < len(x.Values) {
						if lit, ok := x.Values[i].(*ast.BasicLit); ok && lit.Kind == token.INT {
							golibDefault, _ = strconv.ParseInt(lit.Value, 0, 64)
						}
					}
				}
			case *ast.KeyValueExpr:
				if id, ok := x.Key.(*ast.Ident); ok && id.Name == "maxMsgLength" {
					if fn := mlEnclosing(stack); fn == "NewMsgCtl" {
						ctorInit = agSrc(fset, x.Value)
					} else {
						fieldWriters = append(fieldWriters, fn)
					}
				}
			case *ast.AssignStmt:
				for _, l := range x.Lhs {
					if s, ok := l.(*ast.SelectorExpr); ok && s.Sel.Name == "maxMsgLength" {
						fieldWriters = append(fieldWriters, mlEnclosing(stack))
					}
					if id, ok := l.(*ast.Ident); ok && id.Name == "defaultMaxMsgLength" {
						defaultWriters = append(defaultWriters, mlEnclosing(stack))
					}
				}
			case *ast.IncDecStmt:
				if s, ok := x.X.(*ast.SelectorExpr); ok && s.Sel.Name == "maxMsgLength" {
					fieldWriters = append(fieldWriters, mlEnclosing(stack))
				}
			case *ast.UnaryExpr: // &x.maxMsgLength, &defaultMaxMsgLength
				if x.Op == token.AND {
					if s, ok := x.X.(*ast.SelectorExpr); ok && s.Sel.Name == "maxMsgLength" {
						fieldWriters = append(fieldWriters, mlEnclosing(stack)+":addr")
					}
					if id, ok := x.X.(*ast.Ident); ok && id.Name == "defaultMaxMsgLength" {
						defaultWriters = append(defaultWriters, mlEnclosing(stack)+":addr")
					}
				}
			case *ast.IfStmt:
				if fn := mlEnclosing(stack); fn == "MsgCtl.readMsg" {
					foundReadMsg = true
					c := agSrc(fset, x.Cond)
					if strings.Contains(c, "maxMsgLength") {
						limitChecks = append(limitChecks, c)
					}
				}
			}
		})
	}
	if golibDefault < 0 {
		return fail("golib msg/json: `var defaultMaxMsgLength int64 = <literal>` not found")
	}
	if ctorInit == "" {
		return fail("golib msg/json: NewMsgCtl does not initialise maxMsgLength in a composite literal")
	}
	if !foundReadMsg {
		return fail("golib msg/json: (*MsgCtl).readMsg not found")
	}
	sort.Strings(fieldWriters)
	sort.Strings(defaultWriters)

	// ---- the repository: every non-test .go file of every package
	var importers, setMax, ctors, uses, mentions []mlSite
	var codecVars []string
	type parsed struct {
		rel string
		f   *ast.File
	}
	var files []parsed
	err = filepath.WalkDir(repo, func(p string, d os.DirEntry, err error) error {
		if err != nil {
			return err
		}
		name := d.Name()
		if d.IsDir() {
			if p != repo && (strings.HasPrefix(name, ".") || name == "node_modules" || name == "vendor") {
				return filepath.SkipDir
			}
			return nil
		}
		if !strings.HasSuffix(name, ".go") || strings.HasSuffix(name, "_test.go") {
			return nil
		}
		f, perr := parser.ParseFile(fset, p, nil, 0)
		if perr != nil {
			return perr
		}
		rel, _ := filepath.Rel(repo, p)
		files = append(files, parsed{filepath.ToSlash(rel), f})
		return nil
	})
	if err != nil {
		return err
	}
	sort.Slice(files, func(i, j int) bool { return files[i].rel < files[j].rel })
	sawCtl := false
	// package-level variables of pkg/msg whose type mentions MsgCtl
	for _, pf := range files {
		if filepath.ToSlash(filepath.Dir(pf.rel)) != "pkg/msg" {
			continue
		}
		if pf.rel == "pkg/msg/ctl.go" {
			sawCtl = true
		}
		for _, d := range pf.f.Decls {
			gd, ok := d.(*ast.GenDecl)
			if !ok || gd.Tok != token.VAR {
				continue
			}
			for _, sp := range gd.Specs {
				vs := sp.(*ast.ValueSpec)
				txt := ""
				if vs.Type != nil {
					txt = agSrc(fset, vs.Type)
				}
				for _, v := range vs.Values {
					txt += " " + agSrc(fset, v)
				}
				if strings.Contains(txt, "MsgCtl") {
					for _, id := range vs.Names {
						codecVars = append(codecVars, id.Name)
					}
				}
			}
		}
	}
	if !sawCtl {
		return fail("pkg/msg/ctl.go not found")
	}
	if len(codecVars) == 0 {
		return fail("pkg/msg: no package-level variable of type MsgCtl (the one codec object)")
	}
	sort.Strings(codecVars)
	isCodecVar := map[string]bool{}
	for _, v := range codecVars {
		isCodecVar[v] = true
	}
	for _, pf := range files {
		for _, im := range pf.f.Imports {
			if p, _ := strconv.Unquote(im.Path.Value); p == "github.com/fatedier/golib/msg/json" {
				alias := "json"
				if im.Name != nil {
					alias = im.Name.Name
				}
				importers = append(importers, mlSite{pf.rel, "", alias})
			}
		}
		inMsg := filepath.ToSlash(filepath.Dir(pf.rel)) == "pkg/msg"
		mlWalk(pf.f, func(x ast.Node, stack []ast.Node) {
			switch x := x.(type) {
			case *ast.SelectorExpr:
				switch x.Sel.Name {
				case "SetMaxMsgLength":
					txt := agSrc(fset, x)
					if len(stack) > 0 {
						if c, ok := stack[len(stack)-1].(*ast.CallExpr); ok && c.Fun == x {
							txt = agSrc(fset, c)
						}
					}
					setMax = append(setMax, mlSite{pf.rel, mlEnclosing(stack), txt})
				case "NewMsgCtl":
					txt := agSrc(fset, x)
					if len(stack) > 0 {
						if c, ok := stack[len(stack)-1].(*ast.CallExpr); ok && c.Fun == x {
							txt = agSrc(fset, c)
						}
					}
					ctors = append(ctors, mlSite{pf.rel, mlEnclosing(stack), txt})
				case "maxMsgLength", "defaultMaxMsgLength":
					mentions = append(mentions, mlSite{pf.rel, mlEnclosing(stack), agSrc(fset, x)})
				}
			case *ast.BasicLit:
				if x.Kind == token.STRING && (strings.Contains(x.Value, "maxMsgLength") || strings.Contains(x.Value, "defaultMaxMsgLength")) {
					mentions = append(mentions, mlSite{pf.rel, mlEnclosing(stack), x.Value})
				}
			case *ast.Ident:
				if !inMsg || !isCodecVar[x.Name] || len(stack) == 0 {
					return
				}
				parent := stack[len(stack)-1]
				switch p := parent.(type) {
				case *ast.ValueSpec: // the declaration itself (package level) — or a local of the same name
					for _, id := range p.Names {
						if id == x {
							if mlEnclosing(stack) != "" {
								uses = append(uses, mlSite{pf.rel, mlEnclosing(stack), "escape:shadowed by a local"})
							}
							return
						}
					}
				case *ast.SelectorExpr:
					if p.Sel == x { // a field or method NAMED like the variable
						return
					}
					if p.X == x && len(stack) >= 2 {
						if c, ok := stack[len(stack)-2].(*ast.CallExpr); ok && c.Fun == p {
							uses = append(uses, mlSite{pf.rel, mlEnclosing(stack), "call:" + p.Sel.Name})
							return
						}
					}
				case *ast.AssignStmt:
					for _, l := range p.Lhs {
						if l == x {
							uses = append(uses, mlSite{pf.rel, mlEnclosing(stack), "assign"})
							return
						}
					}
				}
				uses = append(uses, mlSite{pf.rel, mlEnclosing(stack), "escape:" + agSrc(fset, parent)})
			}
		})
	}

	// ---- write
	var b strings.Builder
	site := func(s mlSite) string {
		return fmt.Sprintf("⟨%s, %s, %s⟩", agLeanStr(s.file), agLeanStr(s.fn), agLeanStr(s.text))
	}
	sites := func(name, doc string, l []mlSite) {
		b.WriteString("/-- " + doc + " -/\ndef " + name + " : List Site :=\n  [")
		for i, s := range l {
			if i > 0 {
				b.WriteString(",\n   ")
			}
			b.WriteString(site(s))
		}
		b.WriteString("]\n\n")
	}
	strs := func(l []string) string {
		q := make([]string, len(l))
		for i, s := range l {
			q[i] = agLeanStr(s)
		}
		return "[" + strings.Join(q, ", ") + "]"
	}
	b.WriteString("/- GENERATED by /verif/translate (generator MsgLimit) from every non-test .go file of the repository, go.mod and\n")
	b.WriteString("   the golib module it requires (msg/json) — do not edit. -/\n")
	b.WriteString("namespace Frp.Gen.MsgLimit\n\n")
	b.WriteString("/-- a place in the source: file (repository-relative), enclosing function (\"\" = package level), source text -/\n")
	b.WriteString("structure Site where\n  file : String\n  fn : String\n  text : String\n  deriving DecidableEq, Repr\n\n")
	b.WriteString("/-- go.mod: `require github.com/fatedier/golib <version>` -/\ndef golibVersion : String := " + agLeanStr(version) + "\n")
	b.WriteString(fmt.Sprintf("/-- go.mod has a replace directive for golib -/\ndef golibReplaced : Bool := %v\n", replaced))
	b.WriteString(fmt.Sprintf("/-- golib msg/json: `var defaultMaxMsgLength int64 = …` -/\ndef golibDefault : Nat := %d\n", golibDefault))
	b.WriteString("/-- golib msg/json NewMsgCtl: `maxMsgLength: …` -/\ndef golibCtorInit : String := " + agLeanStr(ctorInit) + "\n")
	b.WriteString("/-- functions of golib msg/json (besides NewMsgCtl's literal) that write the field maxMsgLength -/\ndef golibFieldWriters : List String := " + strs(fieldWriters) + "\n")
	b.WriteString("/-- functions of golib msg/json that write the variable defaultMaxMsgLength -/\ndef golibDefaultWriters : List String := " + strs(defaultWriters) + "\n")
	b.WriteString("/-- conditions of (*MsgCtl).readMsg that mention maxMsgLength -/\ndef golibLimitChecks : List String := " + strs(limitChecks) + "\n\n")
	sites("jsonImporters", "files that import github.com/fatedier/golib/msg/json (text = the local package name)", importers)
	sites("setMaxSites", "every selector `.SetMaxMsgLength` in the repository", setMax)
	sites("ctorSites", "every selector `.NewMsgCtl` in the repository", ctors)
	b.WriteString("/-- package-level variables of pkg/msg whose type mentions MsgCtl -/\ndef codecVars : List String := " + strs(codecVars) + "\n\n")
	sites("codecVarUses", "every use of such a variable in pkg/msg: assign | call:<Method> | escape:<text>", uses)
	sites("fieldMentions", "`maxMsgLength` / `defaultMaxMsgLength` as a selector or inside a string literal in the repository", mentions)
	b.WriteString("end Frp.Gen.MsgLimit\n")
	return os.WriteFile(filepath.Join(out, "MsgLimit.lean"), []byte(b.String()), 0o644)
}
