// Translator: regenerates lean/Frp/Gen/*.lean from the frp source tree (go/parser + go/ast only).
//
//	translate <gen-name> <repoDir> <outDir>
//
// Each generator lives in its own file gen_<name>.go and registers itself in init().
// A generator must fail (non-zero exit, message on stderr) on any anchor it cannot find or any
// statement shape it cannot translate: a broken tie is never silently skipped.
package main

import (
	"fmt"
	"os"
	"sort"
)

var generators = map[string]func(repo, out string) error{}

func fail(format string, a ...any) error { return fmt.Errorf(format, a...) }

func main() {
	if len(os.Args) != 4 {
		names := []string{}
		for k := range generators {
			names = append(names, k)
		}
		sort.Strings(names)
		fmt.Fprintln(os.Stderr, "usage: translate <gen-name> <repoDir> <outDir>; generators:", names)
		os.Exit(2)
	}
	g, ok := generators[os.Args[1]]
	if !ok {
		fmt.Fprintln(os.Stderr, "translate: unknown generator", os.Args[1])
		os.Exit(2)
	}
	if err := g(os.Args[2], os.Args[3]); err != nil {
		fmt.Fprintf(os.Stderr, "translate %s: BROKEN TIE: %v\n", os.Args[1], err)
		os.Exit(1)
	}
}
