package main

// Generator NatTables: pkg/nathole/analysis.go  mode0Behaviors … modeNBehaviors (every field of
// RecommandBehavior) and the getBehaviorByMode switch  →  lean/Frp/Gen/NatTables.lean
//
// Fails (non-zero exit, "BROKEN TIE") when an anchor is missing or has a shape it cannot translate.

import (
	"fmt"
	"go/ast"
	"go/parser"
	"go/token"
	"os"
	"path/filepath"
	"sort"
	"strconv"
	"strings"
)

func init() { generators["NatTables"] = genNatTables }

type natConst struct {
	isStr bool
	s     string
	n     int
}

// the Lean structure Frp.NatBeh.Beh has exactly these fields (Go name → Lean name)
var natBehFields = map[string]string{
	"Role":              "role",
	"TTL":               "ttl",
	"SendDelayMs":       "sendDelayMs",
	"PortsRangeNumber":  "portsRangeNumber",
	"PortsRandomNumber": "portsRandomNumber",
	"ListenRandomPorts": "listenRandomPorts",
}

func genNatTables(repo, out string) error {
	dir := filepath.Join(repo, "pkg", "nathole")
	fset := token.NewFileSet()
	pkgs, err := parser.ParseDir(fset, dir, func(fi os.FileInfo) bool {
		return !strings.HasSuffix(fi.Name(), "_test.go") && !strings.HasPrefix(fi.Name(), "verif_")
	}, parser.ParseComments)
	if err != nil {
		return err
	}
	pkg, ok := pkgs["nathole"]
	if !ok {
		return fmt.Errorf("package nathole not found in %s", dir)
	}

	// 1. package-level basic-literal constants / variables (DetectRoleSender = "sender", DetectMode1 = 1 …)
	consts := map[string]natConst{}
	tables := map[string]*ast.CompositeLit{}
	var byMode *ast.FuncDecl
	var behType *ast.StructType
	for _, f := range pkg.Files {
		for _, d := range f.Decls {
			switch d := d.(type) {
			case *ast.GenDecl:
				for _, sp := range d.Specs {
					switch sp := sp.(type) {
					case *ast.ValueSpec:
						for i, name := range sp.Names {
							if i >= len(sp.Values) {
								continue
							}
							switch v := sp.Values[i].(type) {
							case *ast.BasicLit:
								switch v.Kind {
								case token.STRING:
									s, err := strconv.Unquote(v.Value)
									if err == nil {
										consts[name.Name] = natConst{isStr: true, s: s}
									}
								case token.INT:
									n, err := strconv.Atoi(v.Value)
									if err == nil {
										consts[name.Name] = natConst{n: n}
									}
								}
							case *ast.CompositeLit:
								if strings.HasPrefix(name.Name, "mode") && strings.HasSuffix(name.Name, "Behaviors") {
									tables[name.Name] = v
								}
							}
						}
					case *ast.TypeSpec:
						if sp.Name.Name == "RecommandBehavior" {
							if st, ok := sp.Type.(*ast.StructType); ok {
								behType = st
							}
						}
					}
				}
			case *ast.FuncDecl:
				if d.Recv == nil && d.Name.Name == "getBehaviorByMode" {
					byMode = d
				}
			}
		}
	}
	if behType == nil {
		return fmt.Errorf("type RecommandBehavior struct not found")
	}
	// every field of RecommandBehavior must be known to the Lean structure
	goFields := []string{}
	for _, fl := range behType.Fields.List {
		for _, n := range fl.Names {
			goFields = append(goFields, n.Name)
			if _, ok := natBehFields[n.Name]; !ok {
				return fmt.Errorf("RecommandBehavior has a field %q the Lean structure Beh does not know", n.Name)
			}
		}
	}
	if len(goFields) != len(natBehFields) {
		return fmt.Errorf("RecommandBehavior has %d fields, expected %d (%v)", len(goFields), len(natBehFields), goFields)
	}
	if len(tables) == 0 {
		return fmt.Errorf("no mode<k>Behaviors composite literal found in %s", dir)
	}
	if byMode == nil {
		return fmt.Errorf("func getBehaviorByMode not found")
	}

	evalInt := func(e ast.Expr) (int, error) {
		switch v := e.(type) {
		case *ast.BasicLit:
			if v.Kind == token.INT {
				return strconv.Atoi(v.Value)
			}
		case *ast.Ident:
			if c, ok := consts[v.Name]; ok && !c.isStr {
				return c.n, nil
			}
		}
		return 0, fmt.Errorf("%s: cannot evaluate integer expression", fset.Position(e.Pos()))
	}
	evalStr := func(e ast.Expr) (string, error) {
		switch v := e.(type) {
		case *ast.BasicLit:
			if v.Kind == token.STRING {
				return strconv.Unquote(v.Value)
			}
		case *ast.Ident:
			if c, ok := consts[v.Name]; ok && c.isStr {
				return c.s, nil
			}
		}
		return "", fmt.Errorf("%s: cannot evaluate string expression", fset.Position(e.Pos()))
	}
	leanRole := func(s string) (string, error) {
		switch s {
		case "sender":
			return ".sender", nil
		case "receiver":
			return ".receiver", nil
		case "":
			return ".none", nil
		}
		return "", fmt.Errorf("role %q is neither \"sender\" nor \"receiver\" (what the peers and HandleVisitor compare against)", s)
	}
	beh := func(e ast.Expr) (string, error) {
		cl, ok := e.(*ast.CompositeLit)
		if !ok {
			return "", fmt.Errorf("%s: behaviour is not a composite literal", fset.Position(e.Pos()))
		}
		if id, ok := cl.Type.(*ast.Ident); !ok || id.Name != "RecommandBehavior" {
			return "", fmt.Errorf("%s: composite literal is not a RecommandBehavior", fset.Position(e.Pos()))
		}
		vals := map[string]string{"role": ".none", "ttl": "0", "sendDelayMs": "0", "portsRangeNumber": "0",
			"portsRandomNumber": "0", "listenRandomPorts": "0"}
		for _, el := range cl.Elts {
			kv, ok := el.(*ast.KeyValueExpr)
			if !ok {
				return "", fmt.Errorf("%s: positional field in RecommandBehavior literal", fset.Position(el.Pos()))
			}
			k, ok := kv.Key.(*ast.Ident)
			if !ok {
				return "", fmt.Errorf("%s: odd key", fset.Position(el.Pos()))
			}
			ln, ok := natBehFields[k.Name]
			if !ok {
				return "", fmt.Errorf("%s: unknown field %s", fset.Position(el.Pos()), k.Name)
			}
			if k.Name == "Role" {
				s, err := evalStr(kv.Value)
				if err != nil {
					return "", err
				}
				r, err := leanRole(s)
				if err != nil {
					return "", fmt.Errorf("%s: %v", fset.Position(el.Pos()), err)
				}
				vals[ln] = r
			} else {
				n, err := evalInt(kv.Value)
				if err != nil {
					return "", err
				}
				if n < 0 {
					return "", fmt.Errorf("%s: negative %s", fset.Position(el.Pos()), k.Name)
				}
				vals[ln] = strconv.Itoa(n)
			}
		}
		return fmt.Sprintf("{ role := %s, ttl := %s, sendDelayMs := %s, portsRangeNumber := %s, portsRandomNumber := %s, listenRandomPorts := %s }",
			vals["role"], vals["ttl"], vals["sendDelayMs"], vals["portsRangeNumber"], vals["portsRandomNumber"], vals["listenRandomPorts"]), nil
	}

	names := []string{}
	for n := range tables {
		names = append(names, n)
	}
	sort.Strings(names)

	var b strings.Builder
	b.WriteString("/- GENERATED by /verif/translate (generator NatTables) from pkg/nathole/analysis.go — do not edit. -/\n")
	b.WriteString("import Frp.Model.NatBeh\nnamespace Frp.Gen.NatTables\nopen Frp.NatBeh\n\n")
	for _, name := range names {
		cl := tables[name]
		rows := []string{}
		for _, el := range cl.Elts {
			call, ok := el.(*ast.CallExpr)
			if !ok || len(call.Args) != 2 {
				return fmt.Errorf("%s: table row is not lo.T2(a, b)", fset.Position(el.Pos()))
			}
			if sel, ok := call.Fun.(*ast.SelectorExpr); !ok || sel.Sel.Name != "T2" {
				return fmt.Errorf("%s: table row is not lo.T2(a, b)", fset.Position(el.Pos()))
			}
			a, err := beh(call.Args[0])
			if err != nil {
				return err
			}
			c, err := beh(call.Args[1])
			if err != nil {
				return err
			}
			rows = append(rows, "    ("+a+",\n     "+c+")")
		}
		fmt.Fprintf(&b, "/-- `%s` (%d rows): (A, B) pairs -/\ndef %s : List (Beh × Beh) :=\n  [\n%s\n  ]\n\n",
			name, len(rows), name, strings.Join(rows, ",\n"))
	}

	// 2. getBehaviorByMode: switch mode { case k: return modeKBehaviors … } ; return <default>
	var sw *ast.SwitchStmt
	var deflt string
	for _, st := range byMode.Body.List {
		switch st := st.(type) {
		case *ast.SwitchStmt:
			sw = st
		case *ast.ReturnStmt:
			if len(st.Results) == 1 {
				if id, ok := st.Results[0].(*ast.Ident); ok {
					deflt = id.Name
				}
			}
		}
	}
	if sw == nil || deflt == "" {
		return fmt.Errorf("getBehaviorByMode: expected `switch mode {…}` followed by `return <table>`")
	}
	if _, ok := tables[deflt]; !ok {
		return fmt.Errorf("getBehaviorByMode: default table %s unknown", deflt)
	}
	type arm struct {
		k int
		t string
	}
	arms := []arm{}
	for _, c := range sw.Body.List {
		cc := c.(*ast.CaseClause)
		if len(cc.Body) != 1 {
			return fmt.Errorf("%s: case body is not a single return", fset.Position(cc.Pos()))
		}
		ret, ok := cc.Body[0].(*ast.ReturnStmt)
		if !ok || len(ret.Results) != 1 {
			return fmt.Errorf("%s: case body is not a single return", fset.Position(cc.Pos()))
		}
		id, ok := ret.Results[0].(*ast.Ident)
		if !ok {
			return fmt.Errorf("%s: case does not return a table", fset.Position(cc.Pos()))
		}
		if _, ok := tables[id.Name]; !ok {
			return fmt.Errorf("%s: case returns unknown table %s", fset.Position(cc.Pos()), id.Name)
		}
		if cc.List == nil { // default:
			deflt = id.Name
			continue
		}
		for _, e := range cc.List {
			k, err := evalInt(e)
			if err != nil {
				return err
			}
			if k < 0 {
				return fmt.Errorf("negative mode")
			}
			arms = append(arms, arm{k, id.Name})
		}
	}
	b.WriteString("/-- `getBehaviorByMode` (the switch, in source order; the final `return` is the default) -/\n")
	b.WriteString("def modeCases : List (Nat × List (Beh × Beh)) :=\n  [")
	for i, a := range arms {
		if i > 0 {
			b.WriteString(", ")
		}
		fmt.Fprintf(&b, "(%d, %s)", a.k, a.t)
	}
	b.WriteString("]\n\n")
	fmt.Fprintf(&b, "def modeDefault : List (Beh × Beh) := %s\n\n", deflt)
	b.WriteString("/-- all tables, by name order -/\ndef allTables : List (List (Beh × Beh)) := [" + strings.Join(names, ", ") + "]\n\n")
	// the DetectMode constants, for the hand-written model to cite
	for k := 0; k <= 4; k++ {
		n := fmt.Sprintf("DetectMode%d", k)
		c, ok := consts[n]
		if !ok || c.isStr {
			return fmt.Errorf("constant %s not found", n)
		}
		fmt.Fprintf(&b, "def detectMode%d : Nat := %d\n", k, c.n)
	}
	b.WriteString("\nend Frp.Gen.NatTables\n")

	if err := os.MkdirAll(out, 0o755); err != nil {
		return err
	}
	target := filepath.Join(out, "NatTables.lean")
	if old, err := os.ReadFile(target); err == nil && string(old) == b.String() {
		return nil // unchanged: keep mtime so lake does not rebuild
	}
	return os.WriteFile(target, []byte(b.String()), 0o644)
}
