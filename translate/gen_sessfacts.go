package main

// Generator SessFacts (C14): the structural facts the session-end model (Frp/Model/SessEnd.lean) and the
// re-registration model (Frp/Model/Rereg.lean) take as parameters, read from the source with go/ast and
// written to lean/Frp/Gen/SessFacts.lean:
//
//	handlers            server/control.go (*Control).registerMsgHandlers: every RegisterHandler(&msg.X{}, h) as
//	                    (X, h is a call of msg.AsyncHandler)
//	clientHandlers      the same for client/control.go
//	clientHandlerWaits  client/control.go: for every registered handler method (X, its body waits for the peer: it calls
//	                    msg.ReadMsg / msg.ReadMsgInto, or dials through ctl.connectServer / a Connector) -- such a handler
//	                    occupies whatever goroutine runs it until the server (or a user of the tunnel) does something
//	readLoopInline      pkg/msg/handler.go (*Dispatcher).readLoop contains no `go` statement (handlers run inside it)
//	asyncSpawns         pkg/msg/handler.go AsyncHandler's closure body is exactly one `go f(m)`
//	workerWaitsDone     server/control.go (*Control).worker: the receive `<-ctl.msgDispatcher.Done()` precedes the
//	                    `for … range ctl.proxies` walk
//	snapshotInLoginFunc client/service.go loopLoginUntilSuccess: every read of svr.proxyCfgs / svr.visitorCfgs is inside
//	                    the func literal bound to loginFunc
//	snapshotAfterLogin  … and positioned after that literal's call svr.login()
//	runUsesSnapshot     … and ctl.Run(…) in that literal is called with the two snapshot variables
//
// Fails ("BROKEN TIE") when an anchor is missing or has an unexpected shape.

import (
	"fmt"
	"go/ast"
	"go/parser"
	"go/token"
	"os"
	"path/filepath"
	"strings"
)

func init() { generators["SessFacts"] = genSessFacts }

func sfMethod(f *ast.File, recv, name string) *ast.FuncDecl {
	for _, d := range f.Decls {
		fd, ok := d.(*ast.FuncDecl)
		if !ok || fd.Name.Name != name {
			continue
		}
		if recv == "" {
			if fd.Recv == nil {
				return fd
			}
			continue
		}
		if fd.Recv == nil || len(fd.Recv.List) != 1 {
			continue
		}
		if st, ok := fd.Recv.List[0].Type.(*ast.StarExpr); ok {
			if id, ok := st.X.(*ast.Ident); ok && id.Name == recv {
				return fd
			}
		}
	}
	return nil
}

func sfSelIs(e ast.Expr, x, sel string) bool {
	s, ok := e.(*ast.SelectorExpr)
	if !ok || s.Sel.Name != sel {
		return false
	}
	id, ok := s.X.(*ast.Ident)
	return ok && id.Name == x
}

// registerMsgHandlers: (message type, async)
func sfHandlers(f *ast.File, file string) ([][2]string, error) {
	var names []string
	return sfHandlers0(f, file, &names)
}

// sfWaitsOnPeer: the body contains a blocking read of a frp message or a dial to the server
func sfWaitsOnPeer(fd *ast.FuncDecl) bool {
	found := false
	ast.Inspect(fd.Body, func(n ast.Node) bool {
		c, ok := n.(*ast.CallExpr)
		if !ok {
			return true
		}
		if sfSelIs(c.Fun, "msg", "ReadMsg") || sfSelIs(c.Fun, "msg", "ReadMsgInto") || sfSelIs(c.Fun, "ctl", "connectServer") {
			found = true
		}
		if s, ok := c.Fun.(*ast.SelectorExpr); ok && (s.Sel.Name == "Connect" || s.Sel.Name == "Read" || s.Sel.Name == "ReadFull") {
			found = true
		}
		return true
	})
	return found
}

// registerMsgHandlers: (message type, async) and (message type, the handler method waits for the peer)
func sfHandlersW(f *ast.File, file string) ([][2]string, [][2]string, error) {
	var names []string
	out, err := sfHandlers0(f, file, &names)
	if err != nil {
		return nil, nil, err
	}
	var waits [][2]string
	for i, h := range out {
		fd := sfMethod(f, "Control", names[i])
		if fd == nil || fd.Body == nil {
			return nil, nil, fail("%s: handler method %s of %s not found", file, names[i], h[0])
		}
		waits = append(waits, [2]string{h[0], sfBool(sfWaitsOnPeer(fd))})
	}
	return out, waits, nil
}

func sfHandlerName(e ast.Expr) string {
	if s, ok := e.(*ast.SelectorExpr); ok {
		if id, ok := s.X.(*ast.Ident); ok && id.Name == "ctl" {
			return s.Sel.Name
		}
	}
	return ""
}

// the statements of registerMsgHandlers: (message type, async); *names receives the handler method names
func sfHandlers0(f *ast.File, file string, names *[]string) ([][2]string, error) {
	fd := sfMethod(f, "Control", "registerMsgHandlers")
	if fd == nil {
		return nil, fail("%s: (*Control).registerMsgHandlers not found", file)
	}
	var out [][2]string
	localLits := map[string]bool{}
	for _, st := range fd.Body.List {
		// a local func literal (a wrapper applied to handlers below); what it does to the liveness clock is
		// read by sfClock (gen_sessfacts_clock.go)
		if as, ok := st.(*ast.AssignStmt); ok && len(as.Lhs) == 1 && len(as.Rhs) == 1 {
			if id, ok := as.Lhs[0].(*ast.Ident); ok {
				if _, ok := as.Rhs[0].(*ast.FuncLit); ok {
					localLits[id.Name] = true
					continue
				}
			}
		}
		es, ok := st.(*ast.ExprStmt)
		if !ok {
			return nil, fail("%s: registerMsgHandlers: statement is not a call", file)
		}
		call, ok := es.X.(*ast.CallExpr)
		if !ok || len(call.Args) != 2 {
			return nil, fail("%s: registerMsgHandlers: unexpected statement", file)
		}
		if s, ok := call.Fun.(*ast.SelectorExpr); !ok || s.Sel.Name != "RegisterHandler" {
			return nil, fail("%s: registerMsgHandlers: call is not RegisterHandler", file)
		}
		// &msg.X{}
		un, ok := call.Args[0].(*ast.UnaryExpr)
		if !ok {
			return nil, fail("%s: registerMsgHandlers: first argument is not &msg.X{}", file)
		}
		cl, ok := un.X.(*ast.CompositeLit)
		if !ok {
			return nil, fail("%s: registerMsgHandlers: first argument is not &msg.X{}", file)
		}
		ty, ok := cl.Type.(*ast.SelectorExpr)
		if !ok {
			return nil, fail("%s: registerMsgHandlers: first argument is not &msg.X{}", file)
		}
		async := "false"
		hname := ""
		switch h := call.Args[1].(type) {
		case *ast.SelectorExpr: // ctl.handleX
			hname = sfHandlerName(h)
		case *ast.CallExpr:
			if id, isLocal := h.Fun.(*ast.Ident); isLocal && localLits[id.Name] && len(h.Args) == 1 {
				// wrapped by a local func literal: the handler still runs where the wrapper is called
				hname = sfHandlerName(h.Args[0])
				break
			}
			if !sfSelIs(h.Fun, "msg", "AsyncHandler") || len(h.Args) != 1 {
				return nil, fail("%s: registerMsgHandlers: handler of %s is wrapped by something unknown", file, ty.Sel.Name)
			}
			async = "true"
			hname = sfHandlerName(h.Args[0])
		default:
			return nil, fail("%s: registerMsgHandlers: handler of %s has an unknown shape", file, ty.Sel.Name)
		}
		if hname == "" {
			return nil, fail("%s: registerMsgHandlers: handler of %s is not a method ctl.handleX", file, ty.Sel.Name)
		}
		*names = append(*names, hname)
		out = append(out, [2]string{ty.Sel.Name, async})
	}
	if len(out) == 0 {
		return nil, fail("%s: registerMsgHandlers registers nothing", file)
	}
	return out, nil
}

func sfHasGo(n ast.Node) bool {
	found := false
	ast.Inspect(n, func(x ast.Node) bool {
		if _, ok := x.(*ast.GoStmt); ok {
			found = true
		}
		return true
	})
	return found
}

func sfBool(b bool) string {
	if b {
		return "true"
	}
	return "false"
}

func genSessFacts(repo, out string) error {
	fset := token.NewFileSet()
	parse := func(rel string) (*ast.File, error) {
		return parser.ParseFile(fset, filepath.Join(repo, rel), nil, 0)
	}
	// ---- server/control.go
	sc, err := parse("server/control.go")
	if err != nil {
		return err
	}
	handlers, err := sfHandlers(sc, "server/control.go")
	if err != nil {
		return err
	}
	worker := sfMethod(sc, "Control", "worker")
	if worker == nil {
		return fail("server/control.go: (*Control).worker not found")
	}
	donePos, walkPos := token.NoPos, token.NoPos
	ast.Inspect(worker.Body, func(n ast.Node) bool {
		switch x := n.(type) {
		case *ast.UnaryExpr:
			if x.Op == token.ARROW {
				if c, ok := x.X.(*ast.CallExpr); ok {
					if s, ok := c.Fun.(*ast.SelectorExpr); ok && s.Sel.Name == "Done" && sfSelIs(s.X, "ctl", "msgDispatcher") && donePos == token.NoPos {
						donePos = x.Pos()
					}
				}
			}
		case *ast.RangeStmt:
			if sfSelIs(x.X, "ctl", "proxies") && walkPos == token.NoPos {
				walkPos = x.Pos()
			}
		}
		return true
	})
	if walkPos == token.NoPos {
		return fail("server/control.go: worker() does not range over ctl.proxies")
	}
	workerWaits := donePos != token.NoPos && donePos < walkPos
	// ---- client/control.go
	cc, err := parse("client/control.go")
	if err != nil {
		return err
	}
	clientHandlers, clientWaits, err := sfHandlersW(cc, "client/control.go")
	if err != nil {
		return err
	}
	// ---- pkg/msg/handler.go
	mh, err := parse("pkg/msg/handler.go")
	if err != nil {
		return err
	}
	rl := sfMethod(mh, "Dispatcher", "readLoop")
	if rl == nil {
		return fail("pkg/msg/handler.go: (*Dispatcher).readLoop not found")
	}
	readLoopInline := !sfHasGo(rl.Body)
	ah := sfMethod(mh, "", "AsyncHandler")
	if ah == nil {
		return fail("pkg/msg/handler.go: AsyncHandler not found")
	}
	asyncSpawns := false
	if len(ah.Body.List) == 1 {
		if ret, ok := ah.Body.List[0].(*ast.ReturnStmt); ok && len(ret.Results) == 1 {
			if fl, ok := ret.Results[0].(*ast.FuncLit); ok && len(fl.Body.List) == 1 {
				_, asyncSpawns = fl.Body.List[0].(*ast.GoStmt)
			}
		}
	}
	// ---- client/service.go
	cs, err := parse("client/service.go")
	if err != nil {
		return err
	}
	ll := sfMethod(cs, "Service", "loopLoginUntilSuccess")
	if ll == nil {
		return fail("client/service.go: (*Service).loopLoginUntilSuccess not found")
	}
	var loginLit *ast.FuncLit
	for _, st := range ll.Body.List {
		if as, ok := st.(*ast.AssignStmt); ok && len(as.Lhs) == 1 && len(as.Rhs) == 1 {
			if id, ok := as.Lhs[0].(*ast.Ident); ok && id.Name == "loginFunc" {
				loginLit, _ = as.Rhs[0].(*ast.FuncLit)
			}
		}
	}
	if loginLit == nil {
		return fail("client/service.go: loopLoginUntilSuccess: `loginFunc := func…` not found")
	}
	loginPos := token.NoPos
	ast.Inspect(loginLit.Body, func(n ast.Node) bool {
		if c, ok := n.(*ast.CallExpr); ok && sfSelIs(c.Fun, "svr", "login") && loginPos == token.NoPos {
			loginPos = c.Pos()
		}
		return true
	})
	if loginPos == token.NoPos {
		return fail("client/service.go: loginFunc does not call svr.login()")
	}
	// reads of the stored configuration: `x := svr.proxyCfgs` / `svr.visitorCfgs`
	snapVars := map[string]string{}
	nReads, inLit, afterLogin := 0, true, true
	ast.Inspect(ll.Body, func(n ast.Node) bool {
		as, ok := n.(*ast.AssignStmt)
		if !ok {
			return true
		}
		for i, r := range as.Rhs {
			for _, fld := range []string{"proxyCfgs", "visitorCfgs"} {
				if sfSelIs(r, "svr", fld) {
					nReads++
					if !(loginLit.Pos() <= r.Pos() && r.End() <= loginLit.End()) {
						inLit = false
					}
					if r.Pos() < loginPos {
						afterLogin = false
					}
					if i < len(as.Lhs) {
						if id, ok := as.Lhs[i].(*ast.Ident); ok {
							snapVars[fld] = id.Name
						}
					}
				}
			}
		}
		return true
	})
	if nReads != 2 {
		return fail("client/service.go: loopLoginUntilSuccess reads svr.proxyCfgs/visitorCfgs %d times (expected 2)", nReads)
	}
	runUses := false
	ast.Inspect(loginLit.Body, func(n ast.Node) bool {
		if c, ok := n.(*ast.CallExpr); ok && sfSelIs(c.Fun, "ctl", "Run") && len(c.Args) == 2 {
			a, ok1 := c.Args[0].(*ast.Ident)
			b, ok2 := c.Args[1].(*ast.Ident)
			if ok1 && ok2 && a.Name == snapVars["proxyCfgs"] && b.Name == snapVars["visitorCfgs"] {
				runUses = true
			}
		}
		return true
	})

	var b strings.Builder
	b.WriteString("/- GENERATED by translate/gen_sessfacts.go from the frp source tree. Do not edit. -/\n")
	b.WriteString("namespace Frp.Gen.SessFacts\n\n")
	list := func(name string, hs [][2]string) {
		fmt.Fprintf(&b, "def %s : List (String × Bool) :=\n  [", name)
		for i, h := range hs {
			if i > 0 {
				b.WriteString(",\n   ")
			}
			fmt.Fprintf(&b, "(\"%s\", %s)", h[0], h[1])
		}
		b.WriteString("]\n\n")
	}
	list("handlers", handlers)
	list("clientHandlers", clientHandlers)
	list("clientHandlerWaits", clientWaits)
	fmt.Fprintf(&b, "def readLoopInline : Bool := %s\n", sfBool(readLoopInline))
	fmt.Fprintf(&b, "def asyncSpawns : Bool := %s\n", sfBool(asyncSpawns))
	fmt.Fprintf(&b, "def workerWaitsDone : Bool := %s\n", sfBool(workerWaits))
	fmt.Fprintf(&b, "def snapshotInLoginFunc : Bool := %s\n", sfBool(inLit))
	fmt.Fprintf(&b, "def snapshotAfterLogin : Bool := %s\n", sfBool(afterLogin))
	fmt.Fprintf(&b, "def runUsesSnapshot : Bool := %s\n\n", sfBool(runUses))
	// ---- which code refreshes the liveness clocks; the client's teardown path (gen_sessfacts_clock.go)
	sci, err := sfClock(fset, repo, "server", "lastPing", "Ping")
	if err != nil {
		return err
	}
	cci, err := sfClock(fset, repo, "client", "lastPong", "Pong")
	if err != nil {
		return err
	}
	sfClockEmit(&b, "server", sci)
	sfClockEmit(&b, "client", cci)
	if err := sfTeardown(fset, repo, &b); err != nil {
		return err
	}
	// ---- does the server's teardown wait for user connections; the heartbeat settings on their way from the text to
	// the watchdog (gen_sessfacts_live.go)
	if err := sfLive(fset, repo, &b); err != nil {
		return err
	}
	b.WriteString("\nend Frp.Gen.SessFacts\n")
	return os.WriteFile(filepath.Join(out, "SessFacts.lean"), []byte(b.String()), 0o644)
}
