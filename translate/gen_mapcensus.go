package main

// Generator MapCensus (C16): which map-typed struct fields exist at all, and which of them are written after their object
// was built.  LockFacts judges the accesses to a DESIGNATED list of shared tables; this census closes the list: a map
// field that is written outside a constructor is a shared table unless somebody argued otherwise (Lean: designated in
// LockFacts, or pinned in Props/C16.lean `mapFieldsPinned` with the reason).  A Go map written by one goroutine while
// another reads or writes it ends the process (`fatal error: concurrent map writes`), which no recover() stops.
//
// For every struct of the non-test files of client/, pkg/, server/ and every field whose declared type is a map (directly
// or through a named map type of the same package) the generator counts the statements OUTSIDE constructors that write it:
//
//	X.f[k] = v, X.f[k] op= v, X.f[k]++      delete(X.f, k)      clear(X.f)      X.f = …      maps.Copy(X.f, …)
//
// where X.f is any selector whose field name is f inside the package that declares the struct (receiver types are not
// resolved: two structs of one package with a map field of the same name share their counts — over-approximation).
// A constructor of S is a top-level function whose body contains a composite literal S{…} / &S{…} or new(S), or that is
// called New<S>/new<S>.  Emitted: (object "<dir>.<Struct>.<field>", writes after construction, the struct has a mutex field).

import (
	"fmt"
	"go/ast"
	"go/parser"
	"go/token"
	"os"
	"path/filepath"
	"sort"
	"strings"
)

func init() { generators["MapCensus"] = genMapCensus }

// pkg/auth: the verifier / setter objects are shared by every connection goroutine (svr.authVerifier, copied into each
// Control): every field of ANY type that is written outside a constructor, with the kind of its type
type mcAuthWrite struct {
	obj, kind string
	fn        string
}

type mcField struct {
	dir, strct, field string
	writes            int
	hasMu             bool
	sites             []string
}

func genMapCensus(repo, out string) error {
	fset := token.NewFileSet()
	dirs := map[string][]string{}
	for _, root := range []string{"client", "pkg", "server"} {
		err := filepath.Walk(filepath.Join(repo, root), func(p string, info os.FileInfo, err error) error {
			if err != nil {
				return err
			}
			n := info.Name()
			if !info.IsDir() && strings.HasSuffix(n, ".go") && !strings.HasSuffix(n, "_test.go") && !strings.HasPrefix(n, "verif_") && !strings.HasSuffix(n, "_verif.go") {
				d, _ := filepath.Rel(repo, filepath.Dir(p))
				dirs[filepath.ToSlash(d)] = append(dirs[filepath.ToSlash(d)], p)
			}
			return nil
		})
		if err != nil {
			return err
		}
	}
	var dnames []string
	for d := range dirs {
		dnames = append(dnames, d)
	}
	sort.Strings(dnames)
	var all []*mcField
	var authWrites []mcAuthWrite
	for _, d := range dnames {
		sort.Strings(dirs[d])
		var files []*ast.File
		for _, p := range dirs[d] {
			f, err := parser.ParseFile(fset, p, nil, 0)
			if err != nil {
				return err
			}
			files = append(files, f)
		}
		namedMaps := map[string]bool{}
		for _, f := range files {
			for _, dcl := range f.Decls {
				if gd, ok := dcl.(*ast.GenDecl); ok {
					for _, sp := range gd.Specs {
						if ts, ok := sp.(*ast.TypeSpec); ok {
							if _, ok := ts.Type.(*ast.MapType); ok {
								namedMaps[ts.Name.Name] = true
							}
						}
					}
				}
			}
		}
		isMap := func(t ast.Expr) bool {
			switch x := t.(type) {
			case *ast.MapType:
				return true
			case *ast.Ident:
				return namedMaps[x.Name]
			}
			return false
		}
		isMutex := func(t ast.Expr) bool {
			s := agSrc(fset, t)
			return s == "sync.Mutex" || s == "sync.RWMutex" || s == "*sync.Mutex" || s == "*sync.RWMutex"
		}
		byField := map[string][]*mcField{}
		for _, f := range files {
			for _, dcl := range f.Decls {
				gd, ok := dcl.(*ast.GenDecl)
				if !ok {
					continue
				}
				for _, sp := range gd.Specs {
					ts, ok := sp.(*ast.TypeSpec)
					if !ok {
						continue
					}
					st, ok := ts.Type.(*ast.StructType)
					if !ok {
						continue
					}
					hasMu := false
					for _, fl := range st.Fields.List {
						if isMutex(fl.Type) {
							hasMu = true
						}
					}
					for _, fl := range st.Fields.List {
						if !isMap(fl.Type) {
							continue
						}
						for _, nm := range fl.Names {
							mf := &mcField{dir: d, strct: ts.Name.Name, field: nm.Name, hasMu: hasMu}
							all = append(all, mf)
							byField[nm.Name] = append(byField[nm.Name], mf)
						}
					}
				}
			}
		}
		if d == "pkg/auth" {
			type fld struct{ strct, kind string }
			fields := map[string][]fld{}
			for _, f := range files {
				for _, dcl := range f.Decls {
					if gd, ok := dcl.(*ast.GenDecl); ok {
						for _, sp := range gd.Specs {
							if ts, ok := sp.(*ast.TypeSpec); ok {
								if st, ok := ts.Type.(*ast.StructType); ok {
									for _, fl := range st.Fields.List {
										kind := "other"
										switch t := fl.Type.(type) {
										case *ast.MapType:
											kind = "map"
										case *ast.ArrayType:
											if t.Len == nil {
												kind = "slice"
											}
										case *ast.Ident:
											if namedMaps[t.Name] {
												kind = "map"
											}
										}
										for _, nm := range fl.Names {
											fields[nm.Name] = append(fields[nm.Name], fld{ts.Name.Name, kind})
										}
									}
								}
							}
						}
					}
				}
			}
			for _, f := range files {
				for _, dcl := range f.Decls {
					fd, ok := dcl.(*ast.FuncDecl)
					if !ok || fd.Body == nil || fd.Recv == nil {
						continue // plain functions of pkg/auth build objects; methods run on shared ones
					}
					_, rt := lfRecvType(fd)
					ast.Inspect(fd.Body, func(n ast.Node) bool {
						as, ok := n.(*ast.AssignStmt)
						if !ok {
							return true
						}
						for _, l := range as.Lhs {
							e := l
							if ix, ok := e.(*ast.IndexExpr); ok {
								e = ix.X
							}
							if sel, ok := e.(*ast.SelectorExpr); ok {
								for _, fl := range fields[sel.Sel.Name] {
									if fl.strct == rt {
										authWrites = append(authWrites, mcAuthWrite{d + "." + fl.strct + "." + sel.Sel.Name, fl.kind, rt + "." + fd.Name.Name})
									}
								}
							}
						}
						return true
					})
				}
			}
		}
		if len(byField) == 0 {
			continue
		}
		fieldOf := func(e ast.Expr) string {
			for {
				if p, ok := e.(*ast.ParenExpr); ok {
					e = p.X
					continue
				}
				break
			}
			if sel, ok := e.(*ast.SelectorExpr); ok {
				if _, ok := byField[sel.Sel.Name]; ok {
					return sel.Sel.Name
				}
			}
			return ""
		}
		for _, f := range files {
			for _, dcl := range f.Decls {
				fd, ok := dcl.(*ast.FuncDecl)
				if !ok || fd.Body == nil {
					continue
				}
				// which structs does this function construct
				ctorOf := map[string]bool{}
				ast.Inspect(fd.Body, func(n ast.Node) bool {
					switch x := n.(type) {
					case *ast.CompositeLit:
						if id, ok := x.Type.(*ast.Ident); ok {
							ctorOf[id.Name] = true
						}
					case *ast.CallExpr:
						if id, ok := x.Fun.(*ast.Ident); ok && id.Name == "new" && len(x.Args) == 1 {
							if t, ok := x.Args[0].(*ast.Ident); ok {
								ctorOf[t.Name] = true
							}
						}
					}
					return true
				})
				if fd.Recv == nil {
					for _, pre := range []string{"New", "new"} {
						if strings.HasPrefix(fd.Name.Name, pre) {
							ctorOf[strings.TrimPrefix(fd.Name.Name, pre)] = true
						}
					}
				}
				_, rt := lfRecvType(fd)
				fn := fd.Name.Name
				if rt != "" {
					fn = rt + "." + fn
				}
				note := func(field string, at ast.Node) {
					for _, mf := range byField[field] {
						if ctorOf[mf.strct] {
							continue
						}
						mf.writes++
						mf.sites = append(mf.sites, fmt.Sprintf("%s:%d", fn, fset.Position(at.Pos()).Line))
					}
				}
				ast.Inspect(fd.Body, func(n ast.Node) bool {
					switch x := n.(type) {
					case *ast.AssignStmt:
						for _, l := range x.Lhs {
							if ix, ok := l.(*ast.IndexExpr); ok {
								if fl := fieldOf(ix.X); fl != "" {
									note(fl, x)
								}
							} else if fl := fieldOf(l); fl != "" {
								note(fl, x)
							}
						}
					case *ast.IncDecStmt:
						if ix, ok := x.X.(*ast.IndexExpr); ok {
							if fl := fieldOf(ix.X); fl != "" {
								note(fl, x)
							}
						}
					case *ast.CallExpr:
						name := agSrc(fset, x.Fun)
						if (name == "delete" || name == "clear" || name == "maps.Copy") && len(x.Args) >= 1 {
							if fl := fieldOf(x.Args[0]); fl != "" {
								note(fl, x)
							}
						}
					}
					return true
				})
			}
		}
	}
	if len(all) == 0 {
		return fail("no map-typed struct field found (extractor blind?)")
	}
	var b strings.Builder
	b.WriteString("/- GENERATED by translate/gen_mapcensus.go from the frp source tree. Do not edit. -/\n")
	b.WriteString("namespace Frp.Gen.MapCensus\n\n")
	b.WriteString("/-- every map-typed struct field of client/ pkg/ server/: (object, statements outside constructors that write it,\n    the struct has a mutex field, the writing functions) -/\n")
	b.WriteString("def mapFields : List (String × Nat × Bool × List String) :=\n  [")
	for i, f := range all {
		if i > 0 {
			b.WriteString(",\n   ")
		}
		qs := make([]string, len(f.sites))
		for k, s := range f.sites {
			qs[k] = agLeanStr(s)
		}
		fmt.Fprintf(&b, "(%s, %d, %v, [%s])", agLeanStr(f.dir+"."+f.strct+"."+f.field), f.writes, f.hasMu, strings.Join(qs, ", "))
	}
	b.WriteString("]\n\n/-- pkg/auth: every assignment inside a METHOD to a field of its receiver's struct — (object, kind of the field's type:\n    map | slice | other, method) -/\n")
	b.WriteString("def authFieldWrites : List (String × String × String) :=\n  [")
	for i, a := range authWrites {
		if i > 0 {
			b.WriteString(", ")
		}
		fmt.Fprintf(&b, "(%s, %s, %s)", agLeanStr(a.obj), agLeanStr(a.kind), agLeanStr(a.fn))
	}
	b.WriteString("]\n\nend Frp.Gen.MapCensus\n")
	return os.WriteFile(filepath.Join(out, "MapCensus.lean"), []byte(b.String()), 0o644)
}
