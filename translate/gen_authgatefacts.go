package main

// Generator AuthGateFacts (C04): the facts about WHO can reach the always-pass verifier, read from the
// source with go/ast and written to lean/Frp/Gen/AuthGateFacts.lean:
//
//	bypassCond      condition of the `if` in Service.RegisterControl whose body assigns auth.AlwaysPassVerifier
//	internalCalls   every call of HandleListener / handleConnection / RegisterControl in server/*.go with the
//	                source text of its first-listener/conn argument (HandleListener only) and of its `internal` argument
//	aapWrites       every place in client/ cmd/ pkg/ server/ where the field AlwaysAuthPass is given a value
//	                (composite-literal key or assignment), with the value's source text
//	aapReads        every file that reads `.AlwaysAuthPass`
//	noClientAuth    every value assigned to `.NoClientAuth` in pkg/ssh
//	alwaysPassRefs  every file outside pkg/auth that mentions auth.AlwaysPassVerifier
//	putConnFiles    every non-test file that calls `.PutConn(` (who feeds internal listeners)
//	sshListenerRefs every mention of the field sshTunnelListener in server/*.go, as the source text of the
//	                innermost enclosing call / comparison / composite-literal entry (who gets hold of the listener
//	                that is handled with internal = true)
//	gwListenerUses  every mention of peerServerListener in pkg/ssh (what the gateway does with that listener)
//	gwPutConns      the PutConn calls of pkg/ssh and pkg/virtual with their source text
//	gwRunCalls      TunnelServer.Run: the calls ssh.NewServerConn, virtual.NewClient, …PutConn in source order
//	                (the handshake comes first) and the statement that follows the handshake
//	pubkeyCallbackSrc  NewGateway's PublicKeyCallback: the authorized_keys lookup and every return with the
//	                condition of the innermost `if` around it
//
//
// Added for the provenance of `internal`, the ssh server configuration, liveness and the key function:
//
//	internalParams  the parameter lists of HandleListener / HandleQUICListener / handleConnection / RegisterControl /
//	                RegisterWorkConn in server/*.go (`internal bool` is a PARAMETER of each but the quic handler)
//	internalIdents  every identifier `internal` in server/*.go with the function it stands in and its role: "param"
//	                (the declaration in a parameter list), "use:param" (a use that resolves to such a parameter),
//	                "assigned" (left-hand side of an assignment / define / inc-dec), "use:<what else it resolves to>"
//	bypassIdents    the identifiers of the bypass condition with what they resolve to
//	connBoolFuncs   every function of server/*.go that takes a net.Conn / net.Listener / net.Addr and returns bool
//	                (something that could compute "is this connection internal" from the connection)
//	workCfgCond     RegisterWorkConn: the condition of the `if` whose body puts the CONFIGURED verifier in charge
//	sshCfgLits      every composite literal of type ssh.ServerConfig in client/ cmd/ pkg/ server/
//	sshCfgWrites    every assignment to / literal key of an authentication field of ssh.ServerConfig (NoClientAuth,
//	                NoClientAuthCallback, PasswordCallback, PublicKeyCallback, KeyboardInteractiveCallback,
//	                GSSAPIWithMICConfig, MaxAuthTries) in pkg/ssh and server, with "func" or the value's source
//	gwPermUses      every mention of `.Permissions` in pkg/ssh outside a type (what the tunnel server reads from the
//	                permissions the ssh callbacks returned)
//	gwClientCfgWrites  TunnelServer.Run: every assignment to a field of clientCfg (what overrides the command line)
//	lastPingStores  every `.lastPing.Store(` call in server/*.go with the function (and "closure" if in a func literal)
//	handlePingOrder Control.handlePing: plugin call, VerifyPing, the ifs, returns and lastPing.Store in source order
//	authKeySrc      the statements of util.GetAuthKey
//	authKeyUses     every call of util.GetAuthKey in pkg/auth with the function it stands in
//
// Fails ("BROKEN TIE") when an anchor is missing.

import (
	"bytes"
	"fmt"
	"go/ast"
	"go/parser"
	"go/printer"
	"go/token"
	"os"
	"path/filepath"
	"sort"
	"strings"
)

func init() { generators["AuthGateFacts"] = genAuthGateFacts }

func agSrc(fset *token.FileSet, n ast.Node) string {
	var b bytes.Buffer
	_ = printer.Fprint(&b, fset, n)
	return strings.Join(strings.Fields(b.String()), " ")
}

func agLeanStr(s string) string {
	return "\"" + strings.NewReplacer("\\", "\\\\", "\"", "\\\"").Replace(s) + "\""
}

type pair = agPair

type agPair struct{ a, b string }

func agUniqPairs(ps []agPair) []agPair {
	sort.Slice(ps, func(i, j int) bool {
		if ps[i].a != ps[j].a {
			return ps[i].a < ps[j].a
		}
		return ps[i].b < ps[j].b
	})
	var o []agPair
	for i, p := range ps {
		if i == 0 || p != ps[i-1] {
			o = append(o, p)
		}
	}
	return o
}

// the facts added in round 4 (see the header): one pass per file
func agExtraFacts(fset *token.FileSet, f *ast.File, rel string, sshAuthFields map[string]bool,
	valueKind func(ast.Expr) string, identRole func(*ast.Ident) string,
	internalParams, internalIdents, bypassIdents, sshCfgWrites, gwClientCfgWrites, lastPingStores, authKeyUses *[]agPair,
	connBoolFuncs, workCfgCond, sshCfgLits, gwPermUses, handlePingOrder, authKeySrc *[]string) {
	inServer := strings.HasPrefix(rel, "server/")
	inSSH := strings.HasPrefix(rel, "pkg/ssh/")
	fieldList := func(fl *ast.FieldList) string {
		if fl == nil {
			return ""
		}
		var parts []string
		for _, fd := range fl.List {
			var ns []string
			for _, n := range fd.Names {
				ns = append(ns, n.Name)
			}
			t := agSrc(fset, fd.Type)
			if len(ns) > 0 {
				t = strings.Join(ns, ", ") + " " + t
			}
			parts = append(parts, t)
		}
		return strings.Join(parts, ", ")
	}
	for _, d := range f.Decls {
		fd, ok := d.(*ast.FuncDecl)
		if !ok {
			continue
		}
		name := fd.Name.Name
		if inServer {
			switch name {
			case "HandleListener", "HandleQUICListener", "handleConnection", "RegisterControl", "RegisterWorkConn":
				*internalParams = append(*internalParams, agPair{name, fieldList(fd.Type.Params)})
			}
			// could this function compute a boolean from a connection?
			results := fieldList(fd.Type.Results)
			params := fieldList(fd.Type.Params)
			if results == "bool" && (strings.Contains(params, "net.Conn") || strings.Contains(params, "net.Listener") ||
				strings.Contains(params, "net.Addr")) {
				*connBoolFuncs = append(*connBoolFuncs, name+"("+params+") bool")
			}
		}
		if fd.Body == nil {
			continue
		}
		// selector fields and literal keys are not variables
		notVar := map[*ast.Ident]bool{}
		assigned := map[*ast.Ident]bool{}
		inLit := map[ast.Node]bool{}
		ast.Inspect(fd, func(n ast.Node) bool {
			switch n := n.(type) {
			case *ast.SelectorExpr:
				notVar[n.Sel] = true
			case *ast.KeyValueExpr:
				if id, ok := n.Key.(*ast.Ident); ok {
					notVar[id] = true
				}
			case *ast.AssignStmt:
				for _, l := range n.Lhs {
					if id, ok := l.(*ast.Ident); ok {
						assigned[id] = true
					}
				}
			case *ast.IncDecStmt:
				if id, ok := n.X.(*ast.Ident); ok {
					assigned[id] = true
				}
			case *ast.FuncLit:
				ast.Inspect(n.Body, func(m ast.Node) bool {
					if m != nil {
						inLit[m] = true
					}
					return true
				})
				// a func literal taking a connection and returning bool counts too
				if inServer && fieldList(n.Type.Results) == "bool" {
					params := fieldList(n.Type.Params)
					if strings.Contains(params, "net.Conn") || strings.Contains(params, "net.Listener") || strings.Contains(params, "net.Addr") {
						*connBoolFuncs = append(*connBoolFuncs, name+": func("+params+") bool")
					}
				}
			}
			return true
		})
		ast.Inspect(fd, func(n ast.Node) bool {
			switch n := n.(type) {
			case *ast.Ident:
				if inServer && n.Name == "internal" && !notVar[n] {
					role := identRole(n)
					switch {
					case role == "decl":
						role = "param"
					case assigned[n]:
						role = "assigned"
					default:
						role = "use:" + role
					}
					*internalIdents = append(*internalIdents, agPair{name, role})
				}
			case *ast.IfStmt:
				if rel == "server/service.go" {
					for _, st := range n.Body.List {
						as, ok := st.(*ast.AssignStmt)
						if !ok || len(as.Rhs) != 1 {
							continue
						}
						switch {
						case name == "RegisterControl" && agSrc(fset, as.Rhs[0]) == "auth.AlwaysPassVerifier":
							ast.Inspect(n.Cond, func(m ast.Node) bool {
								if sel, ok := m.(*ast.SelectorExpr); ok {
									// the root of a selector chain is the variable
									x := sel.X
									for {
										if s2, ok := x.(*ast.SelectorExpr); ok {
											x = s2.X
											continue
										}
										break
									}
									if id, ok := x.(*ast.Ident); ok {
										*bypassIdents = append(*bypassIdents, agPair{id.Name, identRole(id)})
									}
									return false
								}
								if id, ok := m.(*ast.Ident); ok {
									*bypassIdents = append(*bypassIdents, agPair{id.Name, identRole(id)})
								}
								return true
							})
						case name == "RegisterWorkConn" && agSrc(fset, as.Lhs[0]) == "authVerifier" &&
							agSrc(fset, as.Rhs[0]) == "svr.authVerifier":
							*workCfgCond = append(*workCfgCond, agSrc(fset, n.Cond))
						}
					}
				}
			case *ast.CompositeLit:
				if n.Type != nil && strings.HasSuffix(agSrc(fset, n.Type), "ssh.ServerConfig") {
					*sshCfgLits = append(*sshCfgLits, rel+": "+agSrc(fset, n))
				}
			case *ast.KeyValueExpr:
				if id, ok := n.Key.(*ast.Ident); ok && (inSSH || inServer) && sshAuthFields[id.Name] {
					*sshCfgWrites = append(*sshCfgWrites, agPair{rel + " literal " + id.Name, valueKind(n.Value)})
				}
			case *ast.AssignStmt:
				for i, l := range n.Lhs {
					if i >= len(n.Rhs) {
						break
					}
					if sel, ok := l.(*ast.SelectorExpr); ok {
						if (inSSH || inServer) && sshAuthFields[sel.Sel.Name] {
							*sshCfgWrites = append(*sshCfgWrites, agPair{rel + " " + agSrc(fset, l), valueKind(n.Rhs[i])})
						}
						if rel == "pkg/ssh/server.go" && name == "Run" && strings.HasPrefix(agSrc(fset, l), "clientCfg.") {
							*gwClientCfgWrites = append(*gwClientCfgWrites, agPair{agSrc(fset, l), agSrc(fset, n.Rhs[i])})
						}
					}
				}
			case *ast.CallExpr:
				fn := agSrc(fset, n.Fun)
				if inServer && strings.HasSuffix(fn, ".lastPing.Store") {
					where := name
					if inLit[n] {
						where += " (closure)"
					}
					*lastPingStores = append(*lastPingStores, agPair{where, agSrc(fset, n)})
				}
				if strings.HasPrefix(rel, "pkg/auth/") && fn == "util.GetAuthKey" {
					*authKeyUses = append(*authKeyUses, agPair{name, agSrc(fset, n)})
				}
			}
			return true
		})
		if inSSH {
			// mentions of `.Permissions` as a value (not `ssh.Permissions`, the type)
			var stack []ast.Node
			ast.Inspect(fd, func(n ast.Node) bool {
				if n == nil {
					stack = stack[:len(stack)-1]
					return true
				}
				stack = append(stack, n)
				sel, ok := n.(*ast.SelectorExpr)
				if !ok || sel.Sel.Name != "Permissions" || agSrc(fset, sel.X) == "ssh" {
					return true
				}
				// the outermost selector / index chain this mention is part of
				top := ast.Node(sel)
				for i := len(stack) - 2; i >= 0; i-- {
					switch p := stack[i].(type) {
					case *ast.SelectorExpr:
						top = p
						continue
					case *ast.IndexExpr:
						if p.X == top {
							top = p
							continue
						}
					}
					break
				}
				*gwPermUses = append(*gwPermUses, name+": "+agSrc(fset, top))
				return true
			})
		}
		if rel == "server/control.go" && name == "handlePing" {
			ast.Inspect(fd.Body, func(n ast.Node) bool {
				switch n := n.(type) {
				case *ast.IfStmt:
					*handlePingOrder = append(*handlePingOrder, "if "+agSrc(fset, n.Cond))
				case *ast.ReturnStmt:
					*handlePingOrder = append(*handlePingOrder, "return")
				case *ast.CallExpr:
					fn := agSrc(fset, n.Fun)
					switch {
					case strings.HasSuffix(fn, "pluginManager.Ping"):
						*handlePingOrder = append(*handlePingOrder, "pluginManager.Ping")
					case strings.HasSuffix(fn, ".VerifyPing"):
						*handlePingOrder = append(*handlePingOrder, fn)
					case strings.HasSuffix(fn, ".lastPing.Store"):
						*handlePingOrder = append(*handlePingOrder, "lastPing.Store")
					}
				}
				return true
			})
		}
		if rel == "pkg/util/util/util.go" && name == "GetAuthKey" {
			*authKeySrc = append(*authKeySrc, "func("+fieldList(fd.Type.Params)+") ("+fieldList(fd.Type.Results)+")")
			for _, st := range fd.Body.List {
				*authKeySrc = append(*authKeySrc, agSrc(fset, st))
			}
		}
	}
}

func genAuthGateFacts(repo, out string) error {
	fset := token.NewFileSet()
	var internalCalls, aapWrites []pair
	var aapReads, noClientAuth, alwaysPassRefs, putConn []string
	var sshListenerRefs, gwListenerUses, gwRunCalls []string
	var gwPutConns, pubkeyCallback []pair
	bypass := []string{}
	var internalParams, internalIdents, bypassIdents, sshCfgWrites, gwClientCfgWrites, lastPingStores, authKeyUses []pair
	var connBoolFuncs, workCfgCond, sshCfgLits, gwPermUses, handlePingOrder, authKeySrc []string
	sshAuthFields := map[string]bool{"NoClientAuth": true, "NoClientAuthCallback": true, "PasswordCallback": true,
		"PublicKeyCallback": true, "KeyboardInteractiveCallback": true, "GSSAPIWithMICConfig": true, "MaxAuthTries": true}
	valueKind := func(e ast.Expr) string {
		if _, ok := e.(*ast.FuncLit); ok {
			return "func"
		}
		return agSrc(fset, e)
	}
	// what an identifier resolves to (go/parser's file-level resolution)
	identRole := func(id *ast.Ident) string {
		if id.Obj == nil {
			return "unresolved"
		}
		switch d := id.Obj.Decl.(type) {
		case *ast.Field:
			for _, n := range d.Names {
				if n == id {
					return "decl"
				}
			}
			return "param"
		case *ast.AssignStmt:
			return "local " + agSrc(fset, d)
		case *ast.ValueSpec:
			return "var " + agSrc(fset, d)
		}
		return fmt.Sprintf("%T", id.Obj.Decl)
	}

	// source text of the innermost enclosing call / binary expression / key-value / field of the node on top
	context := func(stack []ast.Node) string {
		for i := len(stack) - 2; i >= 0; i-- {
			switch n := stack[i].(type) {
			case *ast.CallExpr:
				// x.f.Close(): the selector is the callee itself, the call is the context
				return agSrc(fset, n)
			case *ast.Field:
				return "declared " + agSrc(fset, n.Type)
			case *ast.BinaryExpr, *ast.KeyValueExpr, *ast.AssignStmt:
				return agSrc(fset, n)
			}
		}
		return "?"
	}

	for _, top := range []string{"client", "cmd", "pkg", "server"} {
		err := filepath.Walk(filepath.Join(repo, top), func(path string, fi os.FileInfo, err error) error {
			if err != nil {
				return err
			}
			if fi.IsDir() || !strings.HasSuffix(path, ".go") || strings.HasSuffix(path, "_test.go") ||
				strings.HasPrefix(fi.Name(), "verif_") {
				return nil
			}
			rel, _ := filepath.Rel(repo, path)
			f, err := parser.ParseFile(fset, path, nil, 0)
			if err != nil {
				return err
			}
			agExtraFacts(fset, f, rel, sshAuthFields, valueKind, identRole, &internalParams, &internalIdents, &bypassIdents,
				&sshCfgWrites, &gwClientCfgWrites, &lastPingStores, &authKeyUses, &connBoolFuncs, &workCfgCond, &sshCfgLits,
				&gwPermUses, &handlePingOrder, &authKeySrc)
			written := map[ast.Node]bool{}
			var stack []ast.Node
			ast.Inspect(f, func(n ast.Node) bool {
				if n == nil {
					stack = stack[:len(stack)-1]
					return true
				}
				stack = append(stack, n)
				if id, ok := n.(*ast.Ident); ok {
					// covers selectors (x.sshTunnelListener), composite-literal keys and the field declaration
					if id.Name == "sshTunnelListener" && strings.HasPrefix(rel, "server/") {
						sshListenerRefs = append(sshListenerRefs, context(stack))
					}
					if id.Name == "peerServerListener" && strings.HasPrefix(rel, "pkg/ssh/") {
						gwListenerUses = append(gwListenerUses, context(stack))
					}
				}
				switch n := n.(type) {
				case *ast.KeyValueExpr:
					if id, ok := n.Key.(*ast.Ident); ok && id.Name == "AlwaysAuthPass" {
						aapWrites = append(aapWrites, pair{rel, agSrc(fset, n.Value)})
					}
				case *ast.AssignStmt:
					for i, l := range n.Lhs {
						if sel, ok := l.(*ast.SelectorExpr); ok && i < len(n.Rhs) {
							switch sel.Sel.Name {
							case "AlwaysAuthPass":
								aapWrites = append(aapWrites, pair{rel, agSrc(fset, n.Rhs[i])})
								written[sel] = true
							case "NoClientAuth":
								if strings.HasPrefix(rel, "pkg/ssh/") {
									noClientAuth = append(noClientAuth, agSrc(fset, n.Rhs[i]))
								}
							}
						}
					}
				case *ast.SelectorExpr:
					if n.Sel.Name == "AlwaysAuthPass" && !written[n] {
						aapReads = append(aapReads, rel)
					}
					if n.Sel.Name == "AlwaysPassVerifier" && !strings.HasPrefix(rel, "pkg/auth/") {
						alwaysPassRefs = append(alwaysPassRefs, rel)
					}
				case *ast.CallExpr:
					if sel, ok := n.Fun.(*ast.SelectorExpr); ok {
						if sel.Sel.Name == "PutConn" {
							putConn = append(putConn, rel)
							if strings.HasPrefix(rel, "pkg/ssh/") || strings.HasPrefix(rel, "pkg/virtual/") {
								gwPutConns = append(gwPutConns, pair{rel, agSrc(fset, n)})
							}
						}
						if strings.HasPrefix(rel, "server/") && len(n.Args) > 0 {
							last := agSrc(fset, n.Args[len(n.Args)-1])
							switch sel.Sel.Name {
							case "HandleListener":
								internalCalls = append(internalCalls, pair{"HandleListener " + agSrc(fset, n.Args[0]), last})
							case "handleConnection", "RegisterControl":
								internalCalls = append(internalCalls, pair{sel.Sel.Name, last})
							}
						}
					}
				case *ast.FuncDecl:
					if rel == "pkg/ssh/server.go" && n.Name.Name == "Run" && n.Body != nil {
						for i, st := range n.Body.List {
							if as, ok := st.(*ast.AssignStmt); ok && len(as.Rhs) == 1 &&
								strings.HasPrefix(agSrc(fset, as.Rhs[0]), "ssh.NewServerConn(") && i+1 < len(n.Body.List) {
								gwRunCalls = append(gwRunCalls, "after handshake: "+agSrc(fset, n.Body.List[i+1]))
							}
						}
						ast.Inspect(n.Body, func(m ast.Node) bool {
							if c, ok := m.(*ast.CallExpr); ok {
								fn := agSrc(fset, c.Fun)
								if fn == "ssh.NewServerConn" || fn == "virtual.NewClient" || strings.HasSuffix(fn, ".PutConn") {
									gwRunCalls = append(gwRunCalls, fn)
								}
							}
							return true
						})
					}
					if rel == "pkg/ssh/gateway.go" && n.Name.Name == "NewGateway" && n.Body != nil {
						ast.Inspect(n.Body, func(m ast.Node) bool {
							as, ok := m.(*ast.AssignStmt)
							if !ok || len(as.Lhs) != 1 || len(as.Rhs) != 1 || agSrc(fset, as.Lhs[0]) != "sshConfig.PublicKeyCallback" {
								return true
							}
							fl, ok := as.Rhs[0].(*ast.FuncLit)
							if !ok {
								pubkeyCallback = append(pubkeyCallback, pair{"not a function literal", agSrc(fset, as.Rhs[0])})
								return false
							}
							var walk func(list []ast.Stmt, cond string)
							walk = func(list []ast.Stmt, cond string) {
								for _, st := range list {
									switch st := st.(type) {
									case *ast.ReturnStmt:
										var rs []string
										for _, r := range st.Results {
											x := agSrc(fset, r)
											if strings.HasPrefix(x, "fmt.Errorf(") {
												x = "fmt.Errorf(…)"
											}
											rs = append(rs, x)
										}
										pubkeyCallback = append(pubkeyCallback, pair{"return if " + cond, strings.Join(rs, ", ")})
									case *ast.IfStmt:
										walk(st.Body.List, agSrc(fset, st.Cond))
										if st.Else != nil {
											pubkeyCallback = append(pubkeyCallback, pair{"else", agSrc(fset, st.Else)})
										}
									case *ast.AssignStmt:
										pubkeyCallback = append(pubkeyCallback, pair{"assign", agSrc(fset, st)})
									case *ast.ExprStmt:
									default:
										pubkeyCallback = append(pubkeyCallback, pair{"stmt", agSrc(fset, st)})
									}
								}
							}
							walk(fl.Body.List, "")
							return false
						})
					}
					if rel == "server/service.go" && n.Name.Name == "RegisterControl" && n.Body != nil {
						ast.Inspect(n.Body, func(m ast.Node) bool {
							ifs, ok := m.(*ast.IfStmt)
							if !ok {
								return true
							}
							for _, st := range ifs.Body.List {
								if as, ok := st.(*ast.AssignStmt); ok && len(as.Rhs) == 1 &&
									agSrc(fset, as.Rhs[0]) == "auth.AlwaysPassVerifier" {
									bypass = append(bypass, agSrc(fset, ifs.Cond))
								}
							}
							return true
						})
					}
				}
				return true
			})
			return nil
		})
		if err != nil {
			return err
		}
	}
	if len(bypass) != 1 {
		return fmt.Errorf("server/service.go RegisterControl: expected exactly one `if … { authVerifier = auth.AlwaysPassVerifier }`, found %d", len(bypass))
	}
	if len(sshListenerRefs) == 0 || len(gwListenerUses) == 0 || len(gwRunCalls) == 0 || len(pubkeyCallback) == 0 {
		return fmt.Errorf("ssh gateway anchors missing: sshTunnelListener refs %d, peerServerListener uses %d, TunnelServer.Run calls %d, PublicKeyCallback %d",
			len(sshListenerRefs), len(gwListenerUses), len(gwRunCalls), len(pubkeyCallback))
	}
	if len(internalCalls) == 0 {
		return fmt.Errorf("no HandleListener/handleConnection/RegisterControl calls found in server/")
	}
	sortPairs := func(ps []pair) {
		sort.Slice(ps, func(i, j int) bool {
			if ps[i].a != ps[j].a {
				return ps[i].a < ps[j].a
			}
			return ps[i].b < ps[j].b
		})
	}
	if len(internalParams) == 0 || len(internalIdents) == 0 || len(bypassIdents) == 0 || len(sshCfgLits) == 0 ||
		len(lastPingStores) == 0 || len(handlePingOrder) == 0 || len(authKeySrc) == 0 || len(authKeyUses) == 0 {
		return fmt.Errorf("anchors missing: internalParams %d internalIdents %d bypassIdents %d sshCfgLits %d lastPingStores %d handlePingOrder %d authKeySrc %d authKeyUses %d",
			len(internalParams), len(internalIdents), len(bypassIdents), len(sshCfgLits), len(lastPingStores),
			len(handlePingOrder), len(authKeySrc), len(authKeyUses))
	}
	sortPairs(internalCalls)
	sortPairs(internalParams)
	sortPairs(sshCfgWrites)
	sortPairs(lastPingStores)
	sortPairs(authKeyUses)
	sortPairs(aapWrites)
	sortPairs(gwPutConns)
	uniq := func(xs []string) []string {
		sort.Strings(xs)
		var o []string
		for i, x := range xs {
			if i == 0 || x != xs[i-1] {
				o = append(o, x)
			}
		}
		return o
	}
	var b strings.Builder
	b.WriteString("/- GENERATED by translate/gen_authgatefacts.go from the frp source tree. Do not edit. -/\n")
	b.WriteString("namespace Frp.Gen.AuthGateFacts\n\n")
	fmt.Fprintf(&b, "def bypassCond : String := %s\n\n", agLeanStr(bypass[0]))
	wp := func(name string, ps []pair) {
		fmt.Fprintf(&b, "def %s : List (String × String) :=\n  [", name)
		for i, p := range ps {
			if i > 0 {
				b.WriteString(",\n   ")
			}
			fmt.Fprintf(&b, "(%s, %s)", agLeanStr(p.a), agLeanStr(p.b))
		}
		b.WriteString("]\n\n")
	}
	ws := func(name string, xs []string) {
		fmt.Fprintf(&b, "def %s : List String :=\n  [", name)
		for i, x := range xs {
			if i > 0 {
				b.WriteString(", ")
			}
			b.WriteString(agLeanStr(x))
		}
		b.WriteString("]\n\n")
	}
	wp("internalCalls", internalCalls)
	wp("aapWrites", aapWrites)
	ws("aapReads", uniq(aapReads))
	ws("noClientAuth", uniq(noClientAuth))
	ws("alwaysPassRefs", uniq(alwaysPassRefs))
	ws("putConnFiles", uniq(putConn))
	ws("sshListenerRefs", uniq(sshListenerRefs))
	ws("gwListenerUses", uniq(gwListenerUses))
	wp("gwPutConns", gwPutConns)
	ws("gwRunCalls", gwRunCalls)
	wp("pubkeyCallbackSrc", pubkeyCallback)
	wp("internalParams", internalParams)
	wp("internalIdents", agUniqPairs(internalIdents))
	wp("bypassIdents", bypassIdents)
	ws("connBoolFuncs", uniq(connBoolFuncs))
	ws("workCfgCond", workCfgCond)
	ws("sshCfgLits", uniq(sshCfgLits))
	wp("sshCfgWrites", sshCfgWrites)
	ws("gwPermUses", uniq(gwPermUses))
	wp("gwClientCfgWrites", gwClientCfgWrites)
	wp("lastPingStores", lastPingStores)
	ws("handlePingOrder", handlePingOrder)
	ws("authKeySrc", authKeySrc)
	wp("authKeyUses", authKeyUses)
	b.WriteString("end Frp.Gen.AuthGateFacts\n")
	return os.WriteFile(filepath.Join(out, "AuthGateFacts.lean"), []byte(b.String()), 0o644)
}
