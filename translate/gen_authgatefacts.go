package main

// Generator AuthGateFacts (C04): the facts about WHO can reach the always-pass verifier, read from the
// source with go/ast and written to lean/Frp/Gen/AuthGateFacts.lean:
//
//	bypassCond      condition of the `if` in Service.RegisterControl whose body assigns auth.AlwaysPassVerifier
//	internalCalls   every call of HandleListener / handleConnection / RegisterControl in server/*.go with the
//	                source text of its first-listener/conn argument (HandleListener only) and of its `internal` argument
//	aapWrites       every place in client/ cmd/ pkg/ server/ where the field AlwaysAuthPass is given a value
//	                (composite-literal key or assignment), with the value's source text
//	aapReads        every file that reads `.AlwaysAuthPass`
//	noClientAuth    every value assigned to `.NoClientAuth` in pkg/ssh
//	alwaysPassRefs  every file outside pkg/auth that mentions auth.AlwaysPassVerifier
//	putConnFiles    every non-test file that calls `.PutConn(` (who feeds internal listeners)
//
// Fails ("BROKEN TIE") when an anchor is missing.

import (
	"bytes"
	"fmt"
	"go/ast"
	"go/parser"
	"go/printer"
	"go/token"
	"os"
	"path/filepath"
	"sort"
	"strings"
)

func init() { generators["AuthGateFacts"] = genAuthGateFacts }

func agSrc(fset *token.FileSet, n ast.Node) string {
	var b bytes.Buffer
	_ = printer.Fprint(&b, fset, n)
	return strings.Join(strings.Fields(b.String()), " ")
}

func agLeanStr(s string) string {
	return "\"" + strings.NewReplacer("\\", "\\\\", "\"", "\\\"").Replace(s) + "\""
}

func genAuthGateFacts(repo, out string) error {
	fset := token.NewFileSet()
	type pair struct{ a, b string }
	var internalCalls, aapWrites []pair
	var aapReads, noClientAuth, alwaysPassRefs, putConn []string
	bypass := []string{}

	for _, top := range []string{"client", "cmd", "pkg", "server"} {
		err := filepath.Walk(filepath.Join(repo, top), func(path string, fi os.FileInfo, err error) error {
			if err != nil {
				return err
			}
			if fi.IsDir() || !strings.HasSuffix(path, ".go") || strings.HasSuffix(path, "_test.go") ||
				strings.HasPrefix(fi.Name(), "verif_") {
				return nil
			}
			rel, _ := filepath.Rel(repo, path)
			f, err := parser.ParseFile(fset, path, nil, 0)
			if err != nil {
				return err
			}
			written := map[ast.Node]bool{}
			ast.Inspect(f, func(n ast.Node) bool {
				switch n := n.(type) {
				case *ast.KeyValueExpr:
					if id, ok := n.Key.(*ast.Ident); ok && id.Name == "AlwaysAuthPass" {
						aapWrites = append(aapWrites, pair{rel, agSrc(fset, n.Value)})
					}
				case *ast.AssignStmt:
					for i, l := range n.Lhs {
						if sel, ok := l.(*ast.SelectorExpr); ok && i < len(n.Rhs) {
							switch sel.Sel.Name {
							case "AlwaysAuthPass":
								aapWrites = append(aapWrites, pair{rel, agSrc(fset, n.Rhs[i])})
								written[sel] = true
							case "NoClientAuth":
								if strings.HasPrefix(rel, "pkg/ssh/") {
									noClientAuth = append(noClientAuth, agSrc(fset, n.Rhs[i]))
								}
							}
						}
					}
				case *ast.SelectorExpr:
					if n.Sel.Name == "AlwaysAuthPass" && !written[n] {
						aapReads = append(aapReads, rel)
					}
					if n.Sel.Name == "AlwaysPassVerifier" && !strings.HasPrefix(rel, "pkg/auth/") {
						alwaysPassRefs = append(alwaysPassRefs, rel)
					}
				case *ast.CallExpr:
					if sel, ok := n.Fun.(*ast.SelectorExpr); ok {
						if sel.Sel.Name == "PutConn" {
							putConn = append(putConn, rel)
						}
						if strings.HasPrefix(rel, "server/") && len(n.Args) > 0 {
							last := agSrc(fset, n.Args[len(n.Args)-1])
							switch sel.Sel.Name {
							case "HandleListener":
								internalCalls = append(internalCalls, pair{"HandleListener " + agSrc(fset, n.Args[0]), last})
							case "handleConnection", "RegisterControl":
								internalCalls = append(internalCalls, pair{sel.Sel.Name, last})
							}
						}
					}
				case *ast.FuncDecl:
					if rel == "server/service.go" && n.Name.Name == "RegisterControl" && n.Body != nil {
						ast.Inspect(n.Body, func(m ast.Node) bool {
							ifs, ok := m.(*ast.IfStmt)
							if !ok {
								return true
							}
							for _, st := range ifs.Body.List {
								if as, ok := st.(*ast.AssignStmt); ok && len(as.Rhs) == 1 &&
									agSrc(fset, as.Rhs[0]) == "auth.AlwaysPassVerifier" {
									bypass = append(bypass, agSrc(fset, ifs.Cond))
								}
							}
							return true
						})
					}
				}
				return true
			})
			return nil
		})
		if err != nil {
			return err
		}
	}
	if len(bypass) != 1 {
		return fmt.Errorf("server/service.go RegisterControl: expected exactly one `if … { authVerifier = auth.AlwaysPassVerifier }`, found %d", len(bypass))
	}
	if len(internalCalls) == 0 {
		return fmt.Errorf("no HandleListener/handleConnection/RegisterControl calls found in server/")
	}
	sortPairs := func(ps []pair) {
		sort.Slice(ps, func(i, j int) bool {
			if ps[i].a != ps[j].a {
				return ps[i].a < ps[j].a
			}
			return ps[i].b < ps[j].b
		})
	}
	sortPairs(internalCalls)
	sortPairs(aapWrites)
	uniq := func(xs []string) []string {
		sort.Strings(xs)
		var o []string
		for i, x := range xs {
			if i == 0 || x != xs[i-1] {
				o = append(o, x)
			}
		}
		return o
	}
	var b strings.Builder
	b.WriteString("/- GENERATED by translate/gen_authgatefacts.go from the frp source tree. Do not edit. -/\n")
	b.WriteString("namespace Frp.Gen.AuthGateFacts\n\n")
	fmt.Fprintf(&b, "def bypassCond : String := %s\n\n", agLeanStr(bypass[0]))
	wp := func(name string, ps []pair) {
		fmt.Fprintf(&b, "def %s : List (String × String) :=\n  [", name)
		for i, p := range ps {
			if i > 0 {
				b.WriteString(",\n   ")
			}
			fmt.Fprintf(&b, "(%s, %s)", agLeanStr(p.a), agLeanStr(p.b))
		}
		b.WriteString("]\n\n")
	}
	ws := func(name string, xs []string) {
		fmt.Fprintf(&b, "def %s : List String :=\n  [", name)
		for i, x := range xs {
			if i > 0 {
				b.WriteString(", ")
			}
			b.WriteString(agLeanStr(x))
		}
		b.WriteString("]\n\n")
	}
	wp("internalCalls", internalCalls)
	wp("aapWrites", aapWrites)
	ws("aapReads", uniq(aapReads))
	ws("noClientAuth", uniq(noClientAuth))
	ws("alwaysPassRefs", uniq(alwaysPassRefs))
	ws("putConnFiles", uniq(putConn))
	b.WriteString("end Frp.Gen.AuthGateFacts\n")
	return os.WriteFile(filepath.Join(out, "AuthGateFacts.lean"), []byte(b.String()), 0o644)
}
