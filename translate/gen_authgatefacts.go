package main

// Generator AuthGateFacts (C04): the facts about WHO can reach the always-pass verifier, read from the
// source with go/ast and written to lean/Frp/Gen/AuthGateFacts.lean:
//
//	bypassCond      condition of the `if` in Service.RegisterControl whose body assigns auth.AlwaysPassVerifier
//	internalCalls   every call of HandleListener / handleConnection / RegisterControl in server/*.go with the
//	                source text of its first-listener/conn argument (HandleListener only) and of its `internal` argument
//	aapWrites       every place in client/ cmd/ pkg/ server/ where the field AlwaysAuthPass is given a value
//	                (composite-literal key or assignment), with the value's source text
//	aapReads        every file that reads `.AlwaysAuthPass`
//	noClientAuth    every value assigned to `.NoClientAuth` in pkg/ssh
//	alwaysPassRefs  every file outside pkg/auth that mentions auth.AlwaysPassVerifier
//	putConnFiles    every non-test file that calls `.PutConn(` (who feeds internal listeners)
//	sshListenerRefs every mention of the field sshTunnelListener in server/*.go, as the source text of the
//	                innermost enclosing call / comparison / composite-literal entry (who gets hold of the listener
//	                that is handled with internal = true)
//	gwListenerUses  every mention of peerServerListener in pkg/ssh (what the gateway does with that listener)
//	gwPutConns      the PutConn calls of pkg/ssh and pkg/virtual with their source text
//	gwRunCalls      TunnelServer.Run: the calls ssh.NewServerConn, virtual.NewClient, …PutConn in source order
//	                (the handshake comes first) and the statement that follows the handshake
//	pubkeyCallbackSrc  NewGateway's PublicKeyCallback: the authorized_keys lookup and every return with the
//	                condition of the innermost `if` around it
//
// Fails ("BROKEN TIE") when an anchor is missing.

import (
	"bytes"
	"fmt"
	"go/ast"
	"go/parser"
	"go/printer"
	"go/token"
	"os"
	"path/filepath"
	"sort"
	"strings"
)

func init() { generators["AuthGateFacts"] = genAuthGateFacts }

func agSrc(fset *token.FileSet, n ast.Node) string {
	var b bytes.Buffer
	_ = printer.Fprint(&b, fset, n)
	return strings.Join(strings.Fields(b.String()), " ")
}

func agLeanStr(s string) string {
	return "\"" + strings.NewReplacer("\\", "\\\\", "\"", "\\\"").Replace(s) + "\""
}

func genAuthGateFacts(repo, out string) error {
	fset := token.NewFileSet()
	type pair struct{ a, b string }
	var internalCalls, aapWrites []pair
	var aapReads, noClientAuth, alwaysPassRefs, putConn []string
	var sshListenerRefs, gwListenerUses, gwRunCalls []string
	var gwPutConns, pubkeyCallback []pair
	bypass := []string{}

	// source text of the innermost enclosing call / binary expression / key-value / field of the node on top
	context := func(stack []ast.Node) string {
		for i := len(stack) - 2; i >= 0; i-- {
			switch n := stack[i].(type) {
			case *ast.CallExpr:
				// x.f.Close(): the selector is the callee itself, the call is the context
				return agSrc(fset, n)
			case *ast.Field:
				return "declared " + agSrc(fset, n.Type)
			case *ast.BinaryExpr, *ast.KeyValueExpr, *ast.AssignStmt:
				return agSrc(fset, n)
			}
		}
		return "?"
	}

	for _, top := range []string{"client", "cmd", "pkg", "server"} {
		err := filepath.Walk(filepath.Join(repo, top), func(path string, fi os.FileInfo, err error) error {
			if err != nil {
				return err
			}
			if fi.IsDir() || !strings.HasSuffix(path, ".go") || strings.HasSuffix(path, "_test.go") ||
				strings.HasPrefix(fi.Name(), "verif_") {
				return nil
			}
			rel, _ := filepath.Rel(repo, path)
			f, err := parser.ParseFile(fset, path, nil, 0)
			if err != nil {
				return err
			}
			written := map[ast.Node]bool{}
			var stack []ast.Node
			ast.Inspect(f, func(n ast.Node) bool {
				if n == nil {
					stack = stack[:len(stack)-1]
					return true
				}
				stack = append(stack, n)
				if id, ok := n.(*ast.Ident); ok {
					// covers selectors (x.sshTunnelListener), composite-literal keys and the field declaration
					if id.Name == "sshTunnelListener" && strings.HasPrefix(rel, "server/") {
						sshListenerRefs = append(sshListenerRefs, context(stack))
					}
					if id.Name == "peerServerListener" && strings.HasPrefix(rel, "pkg/ssh/") {
						gwListenerUses = append(gwListenerUses, context(stack))
					}
				}
				switch n := n.(type) {
				case *ast.KeyValueExpr:
					if id, ok := n.Key.(*ast.Ident); ok && id.Name == "AlwaysAuthPass" {
						aapWrites = append(aapWrites, pair{rel, agSrc(fset, n.Value)})
					}
				case *ast.AssignStmt:
					for i, l := range n.Lhs {
						if sel, ok := l.(*ast.SelectorExpr); ok && i < len(n.Rhs) {
							switch sel.Sel.Name {
							case "AlwaysAuthPass":
								aapWrites = append(aapWrites, pair{rel, agSrc(fset, n.Rhs[i])})
								written[sel] = true
							case "NoClientAuth":
								if strings.HasPrefix(rel, "pkg/ssh/") {
									noClientAuth = append(noClientAuth, agSrc(fset, n.Rhs[i]))
								}
							}
						}
					}
				case *ast.SelectorExpr:
					if n.Sel.Name == "AlwaysAuthPass" && !written[n] {
						aapReads = append(aapReads, rel)
					}
					if n.Sel.Name == "AlwaysPassVerifier" && !strings.HasPrefix(rel, "pkg/auth/") {
						alwaysPassRefs = append(alwaysPassRefs, rel)
					}
				case *ast.CallExpr:
					if sel, ok := n.Fun.(*ast.SelectorExpr); ok {
						if sel.Sel.Name == "PutConn" {
							putConn = append(putConn, rel)
							if strings.HasPrefix(rel, "pkg/ssh/") || strings.HasPrefix(rel, "pkg/virtual/") {
								gwPutConns = append(gwPutConns, pair{rel, agSrc(fset, n)})
							}
						}
						if strings.HasPrefix(rel, "server/") && len(n.Args) > 0 {
							last := agSrc(fset, n.Args[len(n.Args)-1])
							switch sel.Sel.Name {
							case "HandleListener":
								internalCalls = append(internalCalls, pair{"HandleListener " + agSrc(fset, n.Args[0]), last})
							case "handleConnection", "RegisterControl":
								internalCalls = append(internalCalls, pair{sel.Sel.Name, last})
							}
						}
					}
				case *ast.FuncDecl:
					if rel == "pkg/ssh/server.go" && n.Name.Name == "Run" && n.Body != nil {
						for i, st := range n.Body.List {
							if as, ok := st.(*ast.AssignStmt); ok && len(as.Rhs) == 1 &&
								strings.HasPrefix(agSrc(fset, as.Rhs[0]), "ssh.NewServerConn(") && i+1 < len(n.Body.List) {
								gwRunCalls = append(gwRunCalls, "after handshake: "+agSrc(fset, n.Body.List[i+1]))
							}
						}
						ast.Inspect(n.Body, func(m ast.Node) bool {
							if c, ok := m.(*ast.CallExpr); ok {
								fn := agSrc(fset, c.Fun)
								if fn == "ssh.NewServerConn" || fn == "virtual.NewClient" || strings.HasSuffix(fn, ".PutConn") {
									gwRunCalls = append(gwRunCalls, fn)
								}
							}
							return true
						})
					}
					if rel == "pkg/ssh/gateway.go" && n.Name.Name == "NewGateway" && n.Body != nil {
						ast.Inspect(n.Body, func(m ast.Node) bool {
							as, ok := m.(*ast.AssignStmt)
							if !ok || len(as.Lhs) != 1 || len(as.Rhs) != 1 || agSrc(fset, as.Lhs[0]) != "sshConfig.PublicKeyCallback" {
								return true
							}
							fl, ok := as.Rhs[0].(*ast.FuncLit)
							if !ok {
								pubkeyCallback = append(pubkeyCallback, pair{"not a function literal", agSrc(fset, as.Rhs[0])})
								return false
							}
							var walk func(list []ast.Stmt, cond string)
							walk = func(list []ast.Stmt, cond string) {
								for _, st := range list {
									switch st := st.(type) {
									case *ast.ReturnStmt:
										var rs []string
										for _, r := range st.Results {
											x := agSrc(fset, r)
											if strings.HasPrefix(x, "fmt.Errorf(") {
												x = "fmt.Errorf(…)"
											}
											rs = append(rs, x)
										}
										pubkeyCallback = append(pubkeyCallback, pair{"return if " + cond, strings.Join(rs, ", ")})
									case *ast.IfStmt:
										walk(st.Body.List, agSrc(fset, st.Cond))
										if st.Else != nil {
											pubkeyCallback = append(pubkeyCallback, pair{"else", agSrc(fset, st.Else)})
										}
									case *ast.AssignStmt:
										pubkeyCallback = append(pubkeyCallback, pair{"assign", agSrc(fset, st)})
									case *ast.ExprStmt:
									default:
										pubkeyCallback = append(pubkeyCallback, pair{"stmt", agSrc(fset, st)})
									}
								}
							}
							walk(fl.Body.List, "")
							return false
						})
					}
					if rel == "server/service.go" && n.Name.Name == "RegisterControl" && n.Body != nil {
						ast.Inspect(n.Body, func(m ast.Node) bool {
							ifs, ok := m.(*ast.IfStmt)
							if !ok {
								return true
							}
							for _, st := range ifs.Body.List {
								if as, ok := st.(*ast.AssignStmt); ok && len(as.Rhs) == 1 &&
									agSrc(fset, as.Rhs[0]) == "auth.AlwaysPassVerifier" {
									bypass = append(bypass, agSrc(fset, ifs.Cond))
								}
							}
							return true
						})
					}
				}
				return true
			})
			return nil
		})
		if err != nil {
			return err
		}
	}
	if len(bypass) != 1 {
		return fmt.Errorf("server/service.go RegisterControl: expected exactly one `if … { authVerifier = auth.AlwaysPassVerifier }`, found %d", len(bypass))
	}
	if len(sshListenerRefs) == 0 || len(gwListenerUses) == 0 || len(gwRunCalls) == 0 || len(pubkeyCallback) == 0 {
		return fmt.Errorf("ssh gateway anchors missing: sshTunnelListener refs %d, peerServerListener uses %d, TunnelServer.Run calls %d, PublicKeyCallback %d",
			len(sshListenerRefs), len(gwListenerUses), len(gwRunCalls), len(pubkeyCallback))
	}
	if len(internalCalls) == 0 {
		return fmt.Errorf("no HandleListener/handleConnection/RegisterControl calls found in server/")
	}
	sortPairs := func(ps []pair) {
		sort.Slice(ps, func(i, j int) bool {
			if ps[i].a != ps[j].a {
				return ps[i].a < ps[j].a
			}
			return ps[i].b < ps[j].b
		})
	}
	sortPairs(internalCalls)
	sortPairs(aapWrites)
	sortPairs(gwPutConns)
	uniq := func(xs []string) []string {
		sort.Strings(xs)
		var o []string
		for i, x := range xs {
			if i == 0 || x != xs[i-1] {
				o = append(o, x)
			}
		}
		return o
	}
	var b strings.Builder
	b.WriteString("/- GENERATED by translate/gen_authgatefacts.go from the frp source tree. Do not edit. -/\n")
	b.WriteString("namespace Frp.Gen.AuthGateFacts\n\n")
	fmt.Fprintf(&b, "def bypassCond : String := %s\n\n", agLeanStr(bypass[0]))
	wp := func(name string, ps []pair) {
		fmt.Fprintf(&b, "def %s : List (String × String) :=\n  [", name)
		for i, p := range ps {
			if i > 0 {
				b.WriteString(",\n   ")
			}
			fmt.Fprintf(&b, "(%s, %s)", agLeanStr(p.a), agLeanStr(p.b))
		}
		b.WriteString("]\n\n")
	}
	ws := func(name string, xs []string) {
		fmt.Fprintf(&b, "def %s : List String :=\n  [", name)
		for i, x := range xs {
			if i > 0 {
				b.WriteString(", ")
			}
			b.WriteString(agLeanStr(x))
		}
		b.WriteString("]\n\n")
	}
	wp("internalCalls", internalCalls)
	wp("aapWrites", aapWrites)
	ws("aapReads", uniq(aapReads))
	ws("noClientAuth", uniq(noClientAuth))
	ws("alwaysPassRefs", uniq(alwaysPassRefs))
	ws("putConnFiles", uniq(putConn))
	ws("sshListenerRefs", uniq(sshListenerRefs))
	ws("gwListenerUses", uniq(gwListenerUses))
	wp("gwPutConns", gwPutConns)
	ws("gwRunCalls", gwRunCalls)
	wp("pubkeyCallbackSrc", pubkeyCallback)
	b.WriteString("end Frp.Gen.AuthGateFacts\n")
	return os.WriteFile(filepath.Join(out, "AuthGateFacts.lean"), []byte(b.String()), 0o644)
}
