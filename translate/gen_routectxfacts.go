package main

// Generator RouteCtxFacts (C06): in which ORDER the request handlers of pkg/util/vhost resolve the route of a
// request and read route information out of the request context.
//
// pkg/util/vhost/http.go keeps the route of a request in the request context (keys RouteInfoKey, RouteConfigKey).
// A context is inherited: every stream of an h2c connection carries the context of the request that opened the
// connection.  Frp/Model/HttpConn.lean models the handlers with the policy `never` — no handler takes the
// inherited values for the request's before it has resolved them itself.  This generator reads that shape from
// the source (go/ast, package pkg/util/vhost, non-test files):
//
//	resolvers   functions / methods that (transitively, through calls inside the package) store one of the keys
//	            with context.WithValue
//	readers     functions / methods that (transitively) read one of the keys with `.Value(key)` and are not
//	            resolvers
//	handlers    the entry points net/http hands a request to: every method `ServeHTTP(http.ResponseWriter,
//	            *http.Request)` declared in the package and every function literal converted with
//	            `http.HandlerFunc(…)` — among them the handler wrapped by `h2c.NewHandler` —; for each, in source
//	            order, the events of its body:
//	              resolve <callee> depth on      a call of a resolver; depth = number of enclosing blocks below the
//	                                             body (0 = unconditional statement of the body); on = the request
//	                                             variables among the arguments
//	              pass ServeHTTP depth on        the request is handed to another handler's ServeHTTP
//	              read <key|callee> depth on     `x.Context().Value(key)` (on = x) or a call of a reader
//	                                             (on = the identifiers among its arguments); the condition of an
//	                                             `if` is at the depth of the `if` itself
//	            and the name of the handler's *http.Request parameter.
//
// BROKEN TIE: package not found; no resolver; no `h2c.NewHandler(http.HandlerFunc(<func literal>), …)` call; no
// ServeHTTP method; a handler without a request parameter.

import (
	"fmt"
	"go/ast"
	"go/parser"
	"go/token"
	"os"
	"path/filepath"
	"sort"
	"strings"
)

func init() { generators["RouteCtxFacts"] = genRouteCtxFacts }

var rcfKeys = map[string]bool{"RouteInfoKey": true, "RouteConfigKey": true}

// `<x>.Value(<key>)` → key, x's root identifier (for `req.Context().Value(k)`: req)
func rcfValueRead(c *ast.CallExpr) (key, on string, ok bool) {
	s, isSel := c.Fun.(*ast.SelectorExpr)
	if !isSel || s.Sel.Name != "Value" || len(c.Args) != 1 {
		return
	}
	id, isID := c.Args[0].(*ast.Ident)
	if !isID || !rcfKeys[id.Name] {
		return
	}
	var root func(e ast.Expr) string
	root = func(e ast.Expr) string {
		switch v := e.(type) {
		case *ast.Ident:
			return v.Name
		case *ast.SelectorExpr:
			return root(v.X)
		case *ast.CallExpr:
			return root(v.Fun)
		case *ast.ParenExpr:
			return root(v.X)
		}
		return "?"
	}
	return id.Name, root(s.X), true
}

// `context.WithValue(_, <key>, _)`
func rcfValueWrite(c *ast.CallExpr) bool {
	if !cfIsSel(c, "context", "WithValue") || len(c.Args) != 3 {
		return false
	}
	id, ok := c.Args[1].(*ast.Ident)
	return ok && rcfKeys[id.Name]
}

func rcfCallee(c *ast.CallExpr) string {
	switch f := c.Fun.(type) {
	case *ast.Ident:
		return f.Name
	case *ast.SelectorExpr:
		return f.Sel.Name
	}
	return ""
}

type rcfEvent struct {
	pos   token.Pos
	kind  string
	what  string
	depth int
	on    string
}

type rcfHandler struct {
	name, file, param string
	events            []rcfEvent
}

func genRouteCtxFacts(repo, out string) error {
	dir := "pkg/util/vhost"
	fset := token.NewFileSet()
	ents, err := os.ReadDir(filepath.Join(repo, dir))
	if err != nil {
		return err
	}
	type fn struct {
		decl *ast.FuncDecl
		file string
	}
	fns := map[string][]fn{} // by name (methods by method name)
	files := map[string]*ast.File{}
	var names []string
	for _, e := range ents {
		if !strings.HasSuffix(e.Name(), ".go") || strings.HasSuffix(e.Name(), "_test.go") {
			continue
		}
		pf, err := parser.ParseFile(fset, filepath.Join(repo, dir, e.Name()), nil, 0)
		if err != nil {
			return err
		}
		files[e.Name()] = pf
		names = append(names, e.Name())
		for _, d := range pf.Decls {
			if fd, ok := d.(*ast.FuncDecl); ok && fd.Body != nil {
				fns[fd.Name.Name] = append(fns[fd.Name.Name], fn{fd, e.Name()})
			}
		}
	}
	sort.Strings(names)
	// direct reads / writes, then the closure over calls inside the package
	reads, writes := map[string]bool{}, map[string]bool{}
	calls := map[string]map[string]bool{}
	for name, ds := range fns {
		calls[name] = map[string]bool{}
		for _, d := range ds {
			ast.Inspect(d.decl.Body, func(x ast.Node) bool {
				if c, ok := x.(*ast.CallExpr); ok {
					if _, _, ok := rcfValueRead(c); ok {
						reads[name] = true
					}
					if rcfValueWrite(c) {
						writes[name] = true
					}
					if cal := rcfCallee(c); cal != "" && fns[cal] != nil && cal != name {
						calls[name][cal] = true
					}
				}
				return true
			})
		}
	}
	for changed := true; changed; {
		changed = false
		for name := range fns {
			for cal := range calls[name] {
				if reads[cal] && !reads[name] {
					reads[name], changed = true, true
				}
				if writes[cal] && !writes[name] {
					writes[name], changed = true, true
				}
			}
		}
	}
	var resolvers, readers []string
	for name := range fns {
		switch {
		case writes[name]:
			resolvers = append(resolvers, name)
		case reads[name]:
			readers = append(readers, name)
		}
	}
	sort.Strings(resolvers)
	sort.Strings(readers)
	if len(resolvers) == 0 {
		return fail("%s: no function stores RouteInfoKey / RouteConfigKey with context.WithValue", dir)
	}

	// the request parameter: the parameter of type *http.Request
	reqParam := func(ft *ast.FuncType) string {
		for _, p := range ft.Params.List {
			if st, ok := p.Type.(*ast.StarExpr); ok && hfIsType(st.X, "http", "Request") && len(p.Names) == 1 {
				return p.Names[0].Name
			}
		}
		return ""
	}
	identArgs := func(c *ast.CallExpr) string {
		var ids []string
		for _, a := range c.Args {
			if id, ok := a.(*ast.Ident); ok {
				ids = append(ids, id.Name)
			}
		}
		return strings.Join(ids, ",")
	}
	// events of a handler body, with block depth; nested function literals are not entered
	var walk func(n ast.Node, depth int, evs *[]rcfEvent)
	exprEvents := func(e ast.Node, depth int, evs *[]rcfEvent) {
		if e == nil {
			return
		}
		ast.Inspect(e, func(x ast.Node) bool {
			switch v := x.(type) {
			case *ast.FuncLit:
				return false
			case *ast.CallExpr:
				if key, on, ok := rcfValueRead(v); ok {
					*evs = append(*evs, rcfEvent{v.Pos(), "read", key, depth, on})
				} else if cal := rcfCallee(v); cal != "" && fns[cal] != nil {
					{
						switch {
						case cal == "ServeHTTP": // the request is handed on to another handler (inside or outside the package)
							*evs = append(*evs, rcfEvent{v.Pos(), "pass", cal, depth, identArgs(v)})
						case writes[cal]:
							*evs = append(*evs, rcfEvent{v.Pos(), "resolve", cal, depth, identArgs(v)})
						case reads[cal]:
							*evs = append(*evs, rcfEvent{v.Pos(), "read", cal, depth, identArgs(v)})
						}
					}
				}
			}
			return true
		})
	}
	walk = func(n ast.Node, depth int, evs *[]rcfEvent) {
		switch s := n.(type) {
		case nil:
		case *ast.BlockStmt:
			for _, st := range s.List {
				walk(st, depth, evs)
			}
		case *ast.IfStmt:
			walk(s.Init, depth, evs)
			exprEvents(s.Cond, depth, evs)
			walk(s.Body, depth+1, evs)
			if s.Else != nil {
				if b, ok := s.Else.(*ast.BlockStmt); ok {
					walk(b, depth+1, evs)
				} else {
					walk(s.Else, depth, evs)
				}
			}
		case *ast.ForStmt:
			walk(s.Init, depth, evs)
			exprEvents(s.Cond, depth, evs)
			walk(s.Body, depth+1, evs)
		case *ast.RangeStmt:
			exprEvents(s.X, depth, evs)
			walk(s.Body, depth+1, evs)
		case *ast.SwitchStmt:
			walk(s.Init, depth, evs)
			exprEvents(s.Tag, depth, evs)
			walk(s.Body, depth+1, evs)
		case *ast.TypeSwitchStmt:
			walk(s.Body, depth+1, evs)
		case *ast.SelectStmt:
			walk(s.Body, depth+1, evs)
		case *ast.CaseClause:
			for _, e := range s.List {
				exprEvents(e, depth, evs)
			}
			for _, st := range s.Body {
				walk(st, depth, evs)
			}
		case *ast.CommClause:
			for _, st := range s.Body {
				walk(st, depth, evs)
			}
		case *ast.LabeledStmt:
			walk(s.Stmt, depth, evs)
		default:
			exprEvents(n, depth, evs)
		}
	}
	var handlers []rcfHandler
	wrapped := 0
	for _, fname := range names {
		pf := files[fname]
		for _, d := range pf.Decls {
			fd, ok := d.(*ast.FuncDecl)
			if !ok || fd.Body == nil {
				continue
			}
			if fd.Name.Name == "ServeHTTP" && fd.Recv != nil {
				recv := "?"
				if st, ok := fd.Recv.List[0].Type.(*ast.StarExpr); ok {
					if id, ok := st.X.(*ast.Ident); ok {
						recv = id.Name
					}
				}
				h := rcfHandler{name: recv + ".ServeHTTP", file: fname, param: reqParam(fd.Type)}
				walk(fd.Body, 0, &h.events)
				handlers = append(handlers, h)
			}
			// function literals handed to http.HandlerFunc(…)
			ast.Inspect(fd.Body, func(x ast.Node) bool {
				c, ok := x.(*ast.CallExpr)
				if !ok {
					return true
				}
				isWrapped := cfIsSel(c, "h2c", "NewHandler")
				for _, a := range c.Args {
					hc, ok := a.(*ast.CallExpr)
					if !ok || !cfIsSel(hc, "http", "HandlerFunc") || len(hc.Args) != 1 {
						continue
					}
					lit, ok := hc.Args[0].(*ast.FuncLit)
					if !ok {
						continue
					}
					name := fd.Name.Name + ":http.HandlerFunc"
					if isWrapped {
						name = fd.Name.Name + ":h2c.NewHandler"
						wrapped++
					}
					h := rcfHandler{name: name, file: fname, param: reqParam(lit.Type)}
					walk(lit.Body, 0, &h.events)
					handlers = append(handlers, h)
				}
				return true
			})
		}
	}
	if wrapped == 0 {
		return fail("%s: no h2c.NewHandler(http.HandlerFunc(<func literal>), …) call", dir)
	}
	serve := false
	for _, h := range handlers {
		if h.param == "" {
			return fail("%s: handler %s has no *http.Request parameter", dir, h.name)
		}
		if strings.HasSuffix(h.name, ".ServeHTTP") {
			serve = true
		}
	}
	if !serve {
		return fail("%s: no ServeHTTP method", dir)
	}
	// handlers that neither resolve nor read are of no interest (e.g. the 404 pages)
	var kept []rcfHandler
	for _, h := range handlers {
		if len(h.events) > 0 {
			sort.SliceStable(h.events, func(i, j int) bool { return h.events[i].pos < h.events[j].pos })
			kept = append(kept, h)
		}
	}

	q := func(ss []string) string {
		o := make([]string, len(ss))
		for i, s := range ss {
			o[i] = fmt.Sprintf("%q", s)
		}
		return "[" + strings.Join(o, ", ") + "]"
	}
	var b strings.Builder
	b.WriteString("/- GENERATED by /verif/translate (generator RouteCtxFacts) from pkg/util/vhost/*.go — do not edit. -/\n")
	b.WriteString("namespace Frp.Gen.RouteCtxFacts\n\n")
	b.WriteString("/-- functions / methods of the package that store RouteInfoKey / RouteConfigKey (transitively) -/\n")
	b.WriteString("def resolvers : List String := " + q(resolvers) + "\n\n")
	b.WriteString("/-- functions / methods that read one of the keys (transitively) and store none -/\n")
	b.WriteString("def readers : List String := " + q(readers) + "\n\n")
	b.WriteString("/-- one event of a handler body: kind = \"resolve\" (call of a resolver) | \"read\" (`.Value(key)` or call of a reader) |\n    \"pass\" (the request is handed to another ServeHTTP);\n    depth = enclosing blocks below the body; on = the variables concerned -/\n")
	b.WriteString("structure Event where\n  kind : String\n  what : String\n  depth : Nat\n  on : List String\nderiving DecidableEq, Repr\n\n")
	b.WriteString("structure Handler where\n  name : String\n  file : String\n  param : String\n  events : List Event\nderiving DecidableEq, Repr\n\n")
	b.WriteString("def handlers : List Handler := [\n")
	for i, h := range kept {
		evs := make([]string, len(h.events))
		for j, e := range h.events {
			on := []string{}
			if e.on != "" {
				on = strings.Split(e.on, ",")
			}
			evs[j] = fmt.Sprintf("{ kind := %q, what := %q, depth := %d, on := %s }", e.kind, e.what, e.depth, q(on))
		}
		sep := ","
		if i == len(kept)-1 {
			sep = ""
		}
		fmt.Fprintf(&b, "  { name := %q, file := %q, param := %q, events := [\n      %s] }%s\n", h.name, h.file, h.param, strings.Join(evs, ",\n      "), sep)
	}
	b.WriteString("]\n\nend Frp.Gen.RouteCtxFacts\n")
	return os.WriteFile(filepath.Join(out, "RouteCtxFacts.lean"), []byte(b.String()), 0o644)
}
