package main

// Generator UdpWire (C03): WHICH MESSAGE TYPES each end of a connection that carries UDPPackets writes with
// msg.WriteMsg, and HOW each end reads (typed: msg.ReadMsg + type switch — which types have a case; untyped:
// msg.ReadMsgInto(conn, &v) — the type byte is not looked at, whatever arrives is unmarshalled into v's type).
// Read from the source with go/ast, written to lean/Frp/Gen/UdpWire.lean.
//
//	ends (file, method)
//	  srvUdp   server/proxy/udp.go   (*UDPProxy).Run            udp work connection, frps end
//	  cliUdp   client/proxy/udp.go   (*UDPProxy).InWorkConn     udp work connection, frpc end
//	  cliSudp  client/proxy/sudp.go  (*SUDPProxy).InWorkConn    sudp work connection, frpc end (frps relays bytes)
//	  visSudp  client/visitor/sudp.go (*SUDPVisitor).worker     sudp visitor connection, visitor end
//
//	writes(end) = union over every `msg.WriteMsg(_, X)` in the method (closures included) of the types X can have:
//	  `&msg.T{…}`                                  → T
//	  identifier declared `*msg.T` / `msg.T`       → T     (parameter, `var v msg.T`)
//	  identifier received from a channel           → the types that flow into the channel (channels are told apart by
//	      (`v := <-ch`, `case v, ok := <-ch`,        their last name, e.g. `sendCh`, within the file):
//	       `for v := range ch`)                        every declaration `chan *msg.T` → T;  `chan msg.Message` → the
//	                                                   values sent into it anywhere in the file (`ch <- &msg.T{}` → T) and
//	                                                   UDPPacket when the channel is handed to udp.Forwarder /
//	                                                   udp.ForwardUserConn as their send channel
//	  anything else                                → BROKEN TIE
//	reader(end): `msg.ReadMsgInto(_, &v)` with `var v msg.T` → untyped T;  `msg.ReadMsg(_)` → typed, handles = the
//	  `case *msg.T:` of the type switches in the same closure
//	forwarderSendsOnly: in pkg/proto/udp/udp.go every `sendCh <- x` sends an x bound by `x := NewUDPPacket(…)`
//
// Fails ("BROKEN TIE") when a method is missing, has no reader / no WriteMsg, or a shape is not one of the above.

import (
	"fmt"
	"go/ast"
	"go/parser"
	"go/token"
	"os"
	"path/filepath"
	"sort"
	"strings"
)

func init() { generators["UdpWire"] = genUdpWire }

type uwEnd struct {
	name, file, recv, method string
	writes, handles          []string
	untyped                  string // "" = typed reader
}

// msgTypeOf: `msg.T` / `*msg.T` → T
func uwMsgType(e ast.Expr) string {
	if s, ok := e.(*ast.StarExpr); ok {
		e = s.X
	}
	if s, ok := e.(*ast.SelectorExpr); ok {
		if id, ok := s.X.(*ast.Ident); ok && id.Name == "msg" {
			return s.Sel.Name
		}
	}
	return ""
}

func uwLastName(e ast.Expr) string {
	switch x := e.(type) {
	case *ast.Ident:
		return x.Name
	case *ast.SelectorExpr:
		return x.Sel.Name
	}
	return ""
}

func uwIsCall(c *ast.CallExpr, pkg, name string) bool {
	s, ok := c.Fun.(*ast.SelectorExpr)
	if !ok || s.Sel.Name != name {
		return false
	}
	id, ok := s.X.(*ast.Ident)
	return ok && id.Name == pkg
}

type uwFile struct {
	f *ast.File
}

// chanElem: the element types declared for channels called `name` in the file ("Message" for msg.Message)
func (u *uwFile) chanElems(name string) map[string]bool {
	out := map[string]bool{}
	note := func(t ast.Expr) {
		if c, ok := t.(*ast.ChanType); ok {
			if m := uwMsgType(c.Value); m != "" {
				out[m] = true
			}
		}
	}
	ast.Inspect(u.f, func(n ast.Node) bool {
		switch x := n.(type) {
		case *ast.Field:
			for _, id := range x.Names {
				if id.Name == name {
					note(x.Type)
				}
			}
		case *ast.AssignStmt:
			for i, l := range x.Lhs {
				if uwLastName(l) == name && i < len(x.Rhs) {
					if c, ok := x.Rhs[i].(*ast.CallExpr); ok {
						if id, ok := c.Fun.(*ast.Ident); ok && id.Name == "make" && len(c.Args) > 0 {
							note(c.Args[0])
						}
					}
				}
			}
		}
		return true
	})
	return out
}

// declared type of identifier `name` (parameter or var) anywhere in fn: msg type or ""
func uwDeclType(fn ast.Node, name string) string {
	res := ""
	ast.Inspect(fn, func(n ast.Node) bool {
		switch x := n.(type) {
		case *ast.Field:
			for _, id := range x.Names {
				if id.Name == name {
					if m := uwMsgType(x.Type); m != "" {
						res = m
					}
				}
			}
		case *ast.ValueSpec:
			for _, id := range x.Names {
				if id.Name == name && x.Type != nil {
					if m := uwMsgType(x.Type); m != "" {
						res = m
					}
				}
			}
		}
		return true
	})
	return res
}

// channel an identifier is received from inside fn ("" = none)
func uwRecvChan(fn ast.Node, name string) ast.Expr {
	var ch ast.Expr
	fromRecv := func(lhs []ast.Expr, rhs []ast.Expr) {
		if len(lhs) == 0 || len(rhs) != 1 || uwLastName(lhs[0]) != name {
			return
		}
		if u, ok := rhs[0].(*ast.UnaryExpr); ok && u.Op == token.ARROW {
			ch = u.X
		}
	}
	ast.Inspect(fn, func(n ast.Node) bool {
		switch x := n.(type) {
		case *ast.AssignStmt:
			fromRecv(x.Lhs, x.Rhs)
		case *ast.RangeStmt:
			if x.Key != nil && uwLastName(x.Key) == name {
				ch = x.X
			}
		}
		return true
	})
	return ch
}

func (u *uwFile) typesOf(fn ast.Node, e ast.Expr, depth int) (map[string]bool, error) {
	out := map[string]bool{}
	if ue, ok := e.(*ast.UnaryExpr); ok && ue.Op == token.AND {
		if cl, ok := ue.X.(*ast.CompositeLit); ok {
			if m := uwMsgType(cl.Type); m != "" {
				out[m] = true
				return out, nil
			}
		}
		if id, ok := ue.X.(*ast.Ident); ok {
			if m := uwDeclType(fn, id.Name); m != "" {
				out[m] = true
				return out, nil
			}
		}
	}
	id, ok := e.(*ast.Ident)
	if !ok || depth > 3 {
		return nil, fail("message expression of unknown shape")
	}
	if ch := uwRecvChan(fn, id.Name); ch != nil {
		return u.chanTypes(ch, depth)
	}
	if m := uwDeclType(fn, id.Name); m != "" && m != "Message" {
		out[m] = true
		return out, nil
	}
	return nil, fail("cannot tell the type of message variable %q", id.Name)
}

func (u *uwFile) chanTypes(ch ast.Expr, depth int) (map[string]bool, error) {
	name := uwLastName(ch)
	if name == "" {
		return nil, fail("channel expression of unknown shape")
	}
	elems := u.chanElems(name)
	if len(elems) == 0 {
		return nil, fail("no declaration of channel %q found", name)
	}
	out := map[string]bool{}
	if !elems["Message"] {
		return elems, nil
	}
	for k := range elems {
		if k != "Message" {
			out[k] = true
		}
	}
	var err error
	ast.Inspect(u.f, func(n ast.Node) bool {
		switch x := n.(type) {
		case *ast.SendStmt:
			if uwLastName(x.Chan) == name {
				ts, e := u.typesOf(u.f, x.Value, depth+1)
				if e != nil {
					err = fail("value sent into %s: %v", name, e)
					return false
				}
				for k := range ts {
					out[k] = true
				}
			}
		case *ast.CallExpr:
			if (uwIsCall(x, "udp", "Forwarder") || uwIsCall(x, "udp", "ForwardUserConn")) && len(x.Args) == 4 &&
				uwLastName(x.Args[2]) == name {
				out["UDPPacket"] = true
			}
		}
		return err == nil
	})
	return out, err
}

func uwSorted(m map[string]bool) []string {
	var s []string
	for k := range m {
		s = append(s, k)
	}
	sort.Strings(s)
	return s
}

func uwAnalyse(repo string, e *uwEnd) error {
	fset := token.NewFileSet()
	f, err := parser.ParseFile(fset, filepath.Join(repo, filepath.FromSlash(e.file)), nil, 0)
	if err != nil {
		return err
	}
	var fn *ast.FuncDecl
	for _, d := range f.Decls {
		fd, ok := d.(*ast.FuncDecl)
		if !ok || fd.Recv == nil || fd.Name.Name != e.method || len(fd.Recv.List) != 1 {
			continue
		}
		if st, ok := fd.Recv.List[0].Type.(*ast.StarExpr); ok {
			if id, ok := st.X.(*ast.Ident); ok && id.Name == e.recv {
				fn = fd
			}
		}
	}
	if fn == nil || fn.Body == nil {
		return fail("%s: method (*%s).%s not found", e.file, e.recv, e.method)
	}
	u := &uwFile{f: f}
	writes := map[string]bool{}
	nWrites := 0
	ast.Inspect(fn, func(n ast.Node) bool {
		c, ok := n.(*ast.CallExpr)
		if !ok || !uwIsCall(c, "msg", "WriteMsg") || len(c.Args) != 2 {
			return err == nil
		}
		nWrites++
		ts, e2 := u.typesOf(fn, c.Args[1], 0)
		if e2 != nil {
			err = fail("%s %s: msg.WriteMsg at %s: %v", e.file, e.method, fset.Position(c.Pos()), e2)
			return false
		}
		for k := range ts {
			writes[k] = true
		}
		return true
	})
	if err != nil {
		return err
	}
	if nWrites == 0 {
		return fail("%s %s: no msg.WriteMsg call", e.file, e.method)
	}
	e.writes = uwSorted(writes)

	// the reader: the closure (or the method) that calls msg.ReadMsgInto / msg.ReadMsg
	found := 0
	var scan func(scope ast.Node)
	scan = func(scope ast.Node) {
		ast.Inspect(scope, func(n ast.Node) bool {
			if fl, ok := n.(*ast.FuncLit); ok && n != scope {
				scan(fl)
				return false
			}
			c, ok := n.(*ast.CallExpr)
			if !ok {
				return true
			}
			switch {
			case uwIsCall(c, "msg", "ReadMsgInto") && len(c.Args) == 2:
				found++
				if ue, ok := c.Args[1].(*ast.UnaryExpr); ok && ue.Op == token.AND {
					if id, ok := ue.X.(*ast.Ident); ok {
						e.untyped = uwDeclType(scope, id.Name)
					}
				}
				if e.untyped == "" {
					err = fail("%s %s: msg.ReadMsgInto into a target whose type cannot be told", e.file, e.method)
				}
			case uwIsCall(c, "msg", "ReadMsg") && len(c.Args) == 1:
				found++
				h := map[string]bool{}
				ast.Inspect(scope, func(m ast.Node) bool {
					if ts, ok := m.(*ast.TypeSwitchStmt); ok {
						for _, cc := range ts.Body.List {
							for _, t := range cc.(*ast.CaseClause).List {
								if mt := uwMsgType(t); mt != "" {
									h[mt] = true
								}
							}
						}
					}
					return true
				})
				e.handles = uwSorted(h)
			}
			return true
		})
	}
	scan(fn)
	if err != nil {
		return err
	}
	if found != 1 {
		return fail("%s %s: expected exactly one msg.ReadMsg / msg.ReadMsgInto call, found %d", e.file, e.method, found)
	}
	return nil
}

// in pkg/proto/udp/udp.go every value put into a send channel is made by NewUDPPacket
func uwForwarderFact(repo string) (bool, error) {
	fset := token.NewFileSet()
	f, err := parser.ParseFile(fset, filepath.Join(repo, "pkg", "proto", "udp", "udp.go"), nil, 0)
	if err != nil {
		return false, err
	}
	ok, n := true, 0
	for _, d := range f.Decls {
		fd, isFn := d.(*ast.FuncDecl)
		if !isFn || fd.Body == nil {
			continue
		}
		ast.Inspect(fd, func(x ast.Node) bool {
			s, isSend := x.(*ast.SendStmt)
			if !isSend || uwLastName(s.Chan) != "sendCh" {
				return true
			}
			n++
			id, isId := s.Value.(*ast.Ident)
			if !isId {
				ok = false
				return true
			}
			bound := false
			ast.Inspect(fd, func(y ast.Node) bool {
				as, isAs := y.(*ast.AssignStmt)
				if isAs && len(as.Lhs) == 1 && len(as.Rhs) == 1 && uwLastName(as.Lhs[0]) == id.Name {
					c, isCall := as.Rhs[0].(*ast.CallExpr)
					if isCall {
						if fid, isF := c.Fun.(*ast.Ident); isF && fid.Name == "NewUDPPacket" {
							bound = true
						} else {
							ok = false
						}
					} else {
						ok = false
					}
				}
				return true
			})
			if !bound {
				ok = false
			}
			return true
		})
	}
	if n == 0 {
		return false, fail("pkg/proto/udp/udp.go: no send into sendCh found")
	}
	return ok, nil
}

func uwList(s []string) string {
	q := make([]string, len(s))
	for i, x := range s {
		q[i] = fmt.Sprintf("%q", x)
	}
	return "[" + strings.Join(q, ", ") + "]"
}

func genUdpWire(repo, out string) error {
	ends := []*uwEnd{
		{name: "srvUdp", file: "server/proxy/udp.go", recv: "UDPProxy", method: "Run"},
		{name: "cliUdp", file: "client/proxy/udp.go", recv: "UDPProxy", method: "InWorkConn"},
		{name: "cliSudp", file: "client/proxy/sudp.go", recv: "SUDPProxy", method: "InWorkConn"},
		{name: "visSudp", file: "client/visitor/sudp.go", recv: "SUDPVisitor", method: "worker"},
	}
	var b strings.Builder
	b.WriteString("/- GENERATED by translate UdpWire from server/proxy/udp.go, client/proxy/udp.go, client/proxy/sudp.go,\n" +
		"   client/visitor/sudp.go, pkg/proto/udp/udp.go — do not edit; regenerated on every run. -/\n" +
		"namespace Frp.Gen.UdpWire\n\n")
	for _, e := range ends {
		if err := uwAnalyse(repo, e); err != nil {
			return err
		}
		fmt.Fprintf(&b, "/-- %s (*%s).%s: message types passed to msg.WriteMsg -/\n", e.file, e.recv, e.method)
		fmt.Fprintf(&b, "def %sWrites : List String := %s\n", e.name, uwList(e.writes))
		if e.untyped != "" {
			fmt.Fprintf(&b, "/-- … its reader is msg.ReadMsgInto into a msg.%s: the type byte is not looked at -/\n", e.untyped)
			fmt.Fprintf(&b, "def %sUntyped : Option String := some %q\n", e.name, e.untyped)
			fmt.Fprintf(&b, "def %sHandles : List String := []\n\n", e.name)
		} else {
			fmt.Fprintf(&b, "/-- … its reader is msg.ReadMsg + a type switch with these cases -/\n")
			fmt.Fprintf(&b, "def %sUntyped : Option String := none\n", e.name)
			fmt.Fprintf(&b, "def %sHandles : List String := %s\n\n", e.name, uwList(e.handles))
		}
	}
	fw, err := uwForwarderFact(repo)
	if err != nil {
		return err
	}
	fmt.Fprintf(&b, "/-- pkg/proto/udp/udp.go: every value put into a send channel is made by NewUDPPacket -/\n"+
		"def forwarderSendsOnlyNewUDPPacket : Bool := %v\n\nend Frp.Gen.UdpWire\n", fw)
	return os.WriteFile(filepath.Join(out, "UdpWire.lean"), []byte(b.String()), 0o644)
}
