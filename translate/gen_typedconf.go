package main

// Generator "TypedConf" (property C18).
//
// Reads, from the frp tree as it is now,
//   pkg/config/v1/visitor.go   VisitorType constants, visitorConfigTypeMap, NewVisitorConfigurerByType,
//                              VisitorBaseConfig.Complete and the Complete of every mapped type,
//                              TypedVisitorConfig.UnmarshalJSON / MarshalJSON
//   pkg/config/v1/proxy.go     TypedProxyConfig.UnmarshalJSON / MarshalJSON
//   both                       the statement sequence of New{Proxy,Visitor}ConfigurerByType (newByTypeSteps) and the
//                              json key of {Proxy,Visitor}BaseConfig.Type
//   pkg/config/load.go         LoadConfigure: what it does with the package-level strict switch of v1
//                              (mutex lock / unlock, the write, the decoding of the document), in execution order
// and writes <out>/TypedConf.lean (+ TypedConf.json): the visitor types, the ordered steps of the visitor
// Complete methods and the statement sequences of the two typed (un)marshallers.
//
// Every statement must have one of the shapes listed at translateVisitorCompleteStmt /
// translateTypedUnmarshalStmt; anything else is an error.

import (
	"encoding/json"
	"fmt"
	"go/ast"
	"go/token"
	"os"
	"path/filepath"
	"reflect"
	"strconv"
	"strings"
)

func init() { generators["TypedConf"] = genTypedConf }

type vStep struct {
	Kind string // emptyOrStr | emptyOrInt | userPrefix | qualify | userPrefixIfSet
	F    string
	G    string // qualify: the qualifying field
	Lit  string
}

type visitorType struct {
	TypeName  string
	Struct    string
	CallsBase bool
	Own       []vStep
}

type typedFacts struct {
	VisitorTypes      []visitorType
	VisitorBase       []vStep
	NewByTypeSetsType bool
	ProxyUnmarshal    []string
	VisitorUnmarshal  []string
	ProxyMarshal      string
	VisitorMarshal    string
	LoadEvents        []string // lock | setFlag | decode | unlock
	ProxyNewByType    []string // statements of NewProxyConfigurerByType
	VisitorNewByType  []string // statements of NewVisitorConfigurerByType
	ProxyTypeKey      string   // json key of ProxyBaseConfig.Type
	VisitorTypeKey    string   // json key of VisitorBaseConfig.Type
}

// ---------------------------------------------------------------- LoadConfigure and the strict switch
//
// lockEvents walks LoadConfigure(b, c, strict) in source (= execution) order and records
//
//	v1.DisallowUnknownFieldsMu.Lock()                     lock
//	v1.DisallowUnknownFieldsMu.Unlock()                   unlock
//	defer v1.DisallowUnknownFieldsMu.Unlock()             unlock, placed at the end of the function that defers it
//	v1.DisallowUnknownFields = <the strict parameter>     setFlag
//	any call that is handed the target parameter c        decode   (consecutive ones — the alternative
//	                                                      return paths — are one event)
//	a call of a function of the same file that mentions the switch: its events, inlined (its own deferred
//	unlock runs when IT returns)
//
// Any other mention of v1.DisallowUnknownFields / v1.DisallowUnknownFieldsMu in pkg/config/load.go (another
// writer, a goroutine, a function literal, a conditional write of something else) is an error.
type lockWalk struct {
	fi     *fileInfo
	events []string
	seen   map[string]bool // functions whose mentions are accounted for
}

func mentionsSwitch(n ast.Node) bool {
	found := false
	ast.Inspect(n, func(x ast.Node) bool {
		if se, ok := x.(*ast.SelectorExpr); ok && strings.HasPrefix(render(se), "v1.DisallowUnknownFields") {
			found = true
		}
		return !found
	})
	return found
}

func boolParams(fd *ast.FuncDecl) []string {
	out := []string{}
	for _, f := range fd.Type.Params.List {
		if render(f.Type) == "bool" {
			for _, n := range f.Names {
				out = append(out, n.Name)
			}
		}
	}
	return out
}

func (w *lockWalk) fn(fd *ast.FuncDecl, strict, target string, depth int) error {
	if depth > 4 {
		return fmt.Errorf("%s: call chain around the strict switch is too deep", fd.Name.Name)
	}
	w.seen[fd.Name.Name] = true
	deferred := 0
	var err error
	fail := func(f string, a ...any) bool {
		if err == nil {
			err = fmt.Errorf("%s: "+f, append([]any{fd.Name.Name}, a...)...)
		}
		return false
	}
	ast.Inspect(fd.Body, func(n ast.Node) bool {
		if err != nil {
			return false
		}
		switch v := n.(type) {
		case *ast.GoStmt:
			if mentionsSwitch(v) {
				return fail("goroutine touching the strict switch: %s", renderStmt(v))
			}
		case *ast.FuncLit:
			if mentionsSwitch(v) {
				return fail("function literal touching the strict switch")
			}
		case *ast.DeferStmt:
			if render(v.Call.Fun) == "v1.DisallowUnknownFieldsMu.Unlock" && len(v.Call.Args) == 0 {
				deferred++
				return false
			}
			if mentionsSwitch(v) {
				return fail("unexpected deferred statement: %s", renderStmt(v))
			}
		case *ast.AssignStmt:
			for _, l := range v.Lhs {
				if strings.HasPrefix(render(l), "v1.DisallowUnknownFields") {
					if len(v.Lhs) != 1 || len(v.Rhs) != 1 || v.Tok != token.ASSIGN || render(l) != "v1.DisallowUnknownFields" ||
						strict == "" || render(v.Rhs[0]) != strict {
						return fail("unexpected write of the strict switch: %s", renderStmt(v))
					}
					w.events = append(w.events, "setFlag")
					return false
				}
			}
		case *ast.CallExpr:
			switch fun := render(v.Fun); {
			case fun == "v1.DisallowUnknownFieldsMu.Lock" && len(v.Args) == 0:
				w.events = append(w.events, "lock")
				return false
			case fun == "v1.DisallowUnknownFieldsMu.Unlock" && len(v.Args) == 0:
				w.events = append(w.events, "unlock")
				return false
			}
			if id, ok := v.Fun.(*ast.Ident); ok {
				if callee, has := w.fi.funcs[id.Name]; has && callee.Body != nil && mentionsSwitch(callee.Body) {
					// which of the callee's parameters receive our strict flag / our target
					cs, ct, i := "", "", 0
					for _, f := range callee.Type.Params.List {
						for _, pn := range f.Names {
							if i < len(v.Args) {
								if a := render(v.Args[i]); a == strict && strict != "" && render(f.Type) == "bool" {
									cs = pn.Name
								} else if a == target && target != "" {
									ct = pn.Name
								}
							}
							i++
						}
					}
					for _, a := range v.Args {
						if mentionsSwitch(a) {
							return fail("the strict switch is passed to %s", id.Name)
						}
					}
					if e := w.fn(callee, cs, ct, depth+1); e != nil {
						err = e
					}
					return false
				}
			}
			for _, a := range v.Args {
				if target != "" && render(a) == target {
					w.events = append(w.events, "decode")
					break
				}
			}
		case *ast.SelectorExpr:
			if strings.HasPrefix(render(v), "v1.DisallowUnknownFields") {
				return fail("unexpected use of the strict switch: %s", render(v))
			}
		}
		return true
	})
	if err != nil {
		return err
	}
	if deferred > 1 {
		return fmt.Errorf("%s: more than one deferred unlock", fd.Name.Name)
	}
	if deferred == 1 {
		w.events = append(w.events, "unlock")
	}
	return nil
}

func loadConfigureEvents(repo string, fset *token.FileSet) ([]string, error) {
	lf, err := loadFile(fset, filepath.Join(repo, "pkg/config/load.go"))
	if err != nil {
		return nil, err
	}
	v1ok := false
	for _, im := range lf.f.Imports {
		if im.Path.Value == `"github.com/fatedier/frp/pkg/config/v1"` && im.Name != nil && im.Name.Name == "v1" {
			v1ok = true
		}
	}
	if !v1ok {
		return nil, fmt.Errorf("pkg/config/load.go does not import pkg/config/v1 as v1")
	}
	lc, ok := lf.funcs["LoadConfigure"]
	if !ok || lc.Body == nil {
		return nil, fmt.Errorf("LoadConfigure not found")
	}
	names := []string{}
	for _, f := range lc.Type.Params.List {
		for _, n := range f.Names {
			names = append(names, n.Name+" "+render(f.Type))
		}
	}
	if strings.Join(names, ", ") != "b []byte, c any, strict bool" {
		return nil, fmt.Errorf("LoadConfigure: unexpected parameters (%s)", strings.Join(names, ", "))
	}
	w := &lockWalk{fi: lf, seen: map[string]bool{}}
	if err := w.fn(lc, "strict", "c", 0); err != nil {
		return nil, err
	}
	for name, fd := range lf.funcs {
		if !w.seen[name] && fd.Body != nil && mentionsSwitch(fd.Body) {
			return nil, fmt.Errorf("%s touches the strict switch outside LoadConfigure", name)
		}
	}
	for name, fd := range lf.methods {
		if fd.Body != nil && mentionsSwitch(fd.Body) {
			return nil, fmt.Errorf("%s touches the strict switch outside LoadConfigure", name)
		}
	}
	out := []string{}
	for _, e := range w.events {
		if e == "decode" && len(out) > 0 && out[len(out)-1] == "decode" {
			continue
		}
		out = append(out, e)
	}
	dec := 0
	for _, e := range out {
		if e == "decode" {
			dec++
		}
	}
	if dec == 0 {
		return nil, fmt.Errorf("LoadConfigure: no call decodes into c")
	}
	return out, nil
}

// statement shapes accepted in a visitor Complete(g) body (receiver c):
//
//	if c.F == "" { c.F = "lit" }                                        emptyOrStr F lit
//	c.F = util.EmptyOr(c.F, "lit")                                      emptyOrStr F lit
//	c.F = util.EmptyOr(c.F, 123)                                        emptyOrInt F 123
//	namePrefix := ""  ;  if g.User != "" { namePrefix = g.User + "." }  (the pair defines namePrefix; no step)
//	c.F = namePrefix + c.F                                              userPrefix F
//	if c.G != "" { c.F = c.G + "." + c.F } else { c.F = namePrefix + c.F }     qualify F by G
//	if c.F != "" { c.F = lo.Ternary(g.User == "", "", g.User + ".") + c.F }    userPrefixIfSet F
func translateVisitorComplete(fd *ast.FuncDecl, typed bool) (bool, []vStep, error) {
	r, g, err := recvParam(fd)
	if err != nil {
		return false, nil, err
	}
	out, base, prefixState := []vStep{}, false, 0
	bad := func(s ast.Stmt) (bool, []vStep, error) {
		return false, nil, fmt.Errorf("untranslatable visitor Complete statement: %s", renderStmt(s))
	}
	for i, s := range fd.Body.List {
		txt := renderStmt(s)
		if typed && txt == r+".VisitorBaseConfig.Complete("+g+")" {
			if i != 0 {
				return false, nil, fmt.Errorf("base Complete call is not the first statement")
			}
			base = true
			continue
		}
		if txt == `namePrefix := ""` && prefixState == 0 {
			prefixState = 1
			continue
		}
		if txt == "if "+g+`.User != "" { namePrefix = `+g+`.User + "."; }` && prefixState == 1 {
			prefixState = 2
			continue
		}
		switch v := s.(type) {
		case *ast.AssignStmt:
			if v.Tok != token.ASSIGN || len(v.Lhs) != 1 || len(v.Rhs) != 1 {
				return bad(s)
			}
			f, ok := pathOn(v.Lhs[0], r)
			if !ok {
				return bad(s)
			}
			if call, ok := v.Rhs[0].(*ast.CallExpr); ok && render(call.Fun) == "util.EmptyOr" && len(call.Args) == 2 {
				if f2, ok := pathOn(call.Args[0], r); !ok || f2 != f {
					return bad(s)
				}
				if lit, ok := strLit(call.Args[1]); ok {
					out = append(out, vStep{Kind: "emptyOrStr", F: f, Lit: lit})
					continue
				}
				if bl, ok := call.Args[1].(*ast.BasicLit); ok && bl.Kind == token.INT {
					out = append(out, vStep{Kind: "emptyOrInt", F: f, Lit: bl.Value})
					continue
				}
				return bad(s)
			}
			if txt == r+"."+f+" = namePrefix + "+r+"."+f && prefixState == 2 {
				out = append(out, vStep{Kind: "userPrefix", F: f})
				continue
			}
			return bad(s)
		case *ast.IfStmt:
			if v.Init != nil || len(v.Body.List) != 1 {
				return bad(s)
			}
			be, ok := v.Cond.(*ast.BinaryExpr)
			if !ok {
				return bad(s)
			}
			cf, ok1 := pathOn(be.X, r)
			lit, ok2 := strLit(be.Y)
			if !ok1 || !ok2 || lit != "" {
				return bad(s)
			}
			inner := renderStmt(v.Body.List[0])
			if be.Op == token.EQL && v.Else == nil {
				as, ok := v.Body.List[0].(*ast.AssignStmt)
				if ok && len(as.Lhs) == 1 && len(as.Rhs) == 1 && render(as.Lhs[0]) == r+"."+cf {
					if d, ok := strLit(as.Rhs[0]); ok {
						out = append(out, vStep{Kind: "emptyOrStr", F: cf, Lit: d})
						continue
					}
				}
				return bad(s)
			}
			if be.Op != token.NEQ {
				return bad(s)
			}
			if v.Else == nil {
				if inner == r+"."+cf+" = lo.Ternary("+g+`.User == "", "", `+g+`.User + ".") + `+r+"."+cf {
					out = append(out, vStep{Kind: "userPrefixIfSet", F: cf})
					continue
				}
				return bad(s)
			}
			eb, ok := v.Else.(*ast.BlockStmt)
			if !ok || len(eb.List) != 1 || prefixState != 2 {
				return bad(s)
			}
			as, ok := v.Body.List[0].(*ast.AssignStmt)
			if !ok || len(as.Lhs) != 1 {
				return bad(s)
			}
			f, ok := pathOn(as.Lhs[0], r)
			if !ok {
				return bad(s)
			}
			if inner == r+"."+f+" = "+r+"."+cf+` + "." + `+r+"."+f &&
				renderStmt(eb.List[0]) == r+"."+f+" = namePrefix + "+r+"."+f {
				out = append(out, vStep{Kind: "qualify", F: f, G: cf})
				continue
			}
			return bad(s)
		}
		return bad(s)
	}
	if prefixState == 1 {
		return false, nil, fmt.Errorf("namePrefix is declared but never derived from g.User")
	}
	return base, out, nil
}

// statement shapes accepted in Typed{Proxy,Visitor}Config.UnmarshalJSON(b) (receiver c), K = Proxy | Visitor:
func translateTypedUnmarshalStmt(s ast.Stmt, kind string) (string, error) {
	txt := renderStmt(s)
	switch {
	case txt == `if len(b) == 4 && string(b) == "null" { return errors.New("type is required"); }`:
		return "nullIsError", nil
	case txt == "typeStruct := struct{…}{…}" || strings.HasPrefix(txt, "typeStruct := <*ast.StructType>"):
		return "declTypeStruct", nil
	case txt == "if err := json.Unmarshal(b, &typeStruct); err != nil { return err; }":
		return "peekType", nil
	case txt == "c.Type = typeStruct.Type":
		return "storeType", nil
	case txt == "configurer := New"+kind+"ConfigurerByType("+kind+"Type(typeStruct.Type))":
		return "newByType", nil
	case strings.HasPrefix(txt, "if configurer == nil { return fmt.Errorf(\"unknown "+strings.ToLower(kind)+" type: %s\", typeStruct.Type); }"):
		return "unknownTypeErr", nil
	case txt == "decoder := json.NewDecoder(bytes.NewBuffer(b))":
		return "newDecoder", nil
	case txt == "if DisallowUnknownFields { decoder.DisallowUnknownFields(); }":
		return "strictSwitch", nil
	case txt == "if err := decoder.Decode(configurer); err != nil { return fmt.Errorf(\"unmarshal "+kind+"Config error: %v\", err); }":
		return "decode", nil
	case txt == "c."+kind+"Configurer = configurer":
		return "storeConfigurer", nil
	case txt == "return nil":
		return "ret", nil
	}
	return "", fmt.Errorf("untranslatable Typed%sConfig.UnmarshalJSON statement: %s", kind, txt)
}

// statement shapes accepted in New{Proxy,Visitor}ConfigurerByType(p) (the type map is indexed with the parameter
// itself — no folding, trimming or aliasing of the key — and the parameter is what lands in the Type field):
func newByTypeSteps(fi *fileInfo, kind string) ([]string, error) {
	fd, ok := fi.funcs["New"+kind+"ConfigurerByType"]
	if !ok || fd.Body == nil {
		return nil, fmt.Errorf("New%sConfigurerByType not found", kind)
	}
	if fd.Type.Params == nil || len(fd.Type.Params.List) != 1 || len(fd.Type.Params.List[0].Names) != 1 ||
		render(fd.Type.Params.List[0].Type) != kind+"Type" {
		return nil, fmt.Errorf("New%sConfigurerByType: expected exactly one parameter of type %sType", kind, kind)
	}
	p := fd.Type.Params.List[0].Names[0].Name
	tm := strings.ToLower(kind) + "ConfigTypeMap"
	steps := []string{}
	var cfgVar string
	for _, s := range fd.Body.List {
		txt := renderStmt(s)
		switch {
		case txt == "v, ok := "+tm+"["+p+"]":
			steps = append(steps, "lookupExact")
		case txt == "if !ok { return nil; }":
			steps = append(steps, "nilIfAbsent")
		case cfgVar == "" && isNewOfStruct(s, kind) != "":
			cfgVar = isNewOfStruct(s, kind)
			steps = append(steps, "newOfStruct")
		case cfgVar != "" && txt == cfgVar+".GetBaseConfig().Type = string("+p+")":
			steps = append(steps, "setTypeFromArg")
		case cfgVar != "" && txt == "return "+cfgVar:
			steps = append(steps, "ret")
		default:
			return nil, fmt.Errorf("untranslatable New%sConfigurerByType statement: %s", kind, txt)
		}
	}
	return steps, nil
}

// isNewOfStruct: `x := reflect.New(v).Interface().(<kind>Configurer)` → "x"
func isNewOfStruct(s ast.Stmt, kind string) string {
	as, ok := s.(*ast.AssignStmt)
	if !ok || as.Tok != token.DEFINE || len(as.Lhs) != 1 || len(as.Rhs) != 1 {
		return ""
	}
	ta, ok := as.Rhs[0].(*ast.TypeAssertExpr)
	if !ok || render(ta.Type) != kind+"Configurer" || render(ta.X) != "reflect.New(v).Interface()" {
		return ""
	}
	return render(as.Lhs[0])
}

// the json key of <kind>BaseConfig.Type: the key of the document the decoder writes into the configurer's own Type
func baseTypeKey(fi *fileInfo, kind string) (string, error) {
	st, ok := fi.structs[kind+"BaseConfig"]
	if !ok {
		return "", fmt.Errorf("%sBaseConfig not found", kind)
	}
	for _, f := range st.Fields.List {
		for _, n := range f.Names {
			if n.Name != "Type" {
				continue
			}
			if render(f.Type) != "string" || f.Tag == nil {
				return "", fmt.Errorf("%sBaseConfig.Type: expected a tagged string field", kind)
			}
			tag, err := strconv.Unquote(f.Tag.Value)
			if err != nil {
				return "", err
			}
			key := strings.Split(reflect.StructTag(tag).Get("json"), ",")[0]
			if key == "" || key == "-" {
				return "", fmt.Errorf("%sBaseConfig.Type has no json key", kind)
			}
			return key, nil
		}
	}
	return "", fmt.Errorf("%sBaseConfig.Type not found", kind)
}

func typedUnmarshal(fi *fileInfo, kind string) ([]string, string, error) {
	um, ok := fi.methods["Typed"+kind+"Config.UnmarshalJSON"]
	if !ok || um.Body == nil {
		return nil, "", fmt.Errorf("Typed%sConfig.UnmarshalJSON not found", kind)
	}
	if r, p, err := recvParam(um); err != nil || r != "c" || p != "b" {
		return nil, "", fmt.Errorf("Typed%sConfig.UnmarshalJSON: expected receiver c and parameter b", kind)
	}
	steps := []string{}
	for _, s := range um.Body.List {
		// the anonymous struct literal carries the json tag that names the discriminator key
		if as, ok := s.(*ast.AssignStmt); ok && as.Tok == token.DEFINE && len(as.Lhs) == 1 && render(as.Lhs[0]) == "typeStruct" {
			cl, ok := as.Rhs[0].(*ast.CompositeLit)
			if !ok || len(cl.Elts) != 0 {
				return nil, "", fmt.Errorf("Typed%sConfig.UnmarshalJSON: typeStruct is not an empty composite literal", kind)
			}
			st, ok := cl.Type.(*ast.StructType)
			if !ok || len(st.Fields.List) != 1 || len(st.Fields.List[0].Names) != 1 || st.Fields.List[0].Names[0].Name != "Type" ||
				render(st.Fields.List[0].Type) != "string" || st.Fields.List[0].Tag == nil || st.Fields.List[0].Tag.Value != "`json:\"type\"`" {
				return nil, "", fmt.Errorf("Typed%sConfig.UnmarshalJSON: typeStruct is not struct{ Type string `json:\"type\"` }", kind)
			}
			steps = append(steps, "declTypeStruct")
			continue
		}
		st, err := translateTypedUnmarshalStmt(s, kind)
		if err != nil {
			return nil, "", err
		}
		steps = append(steps, st)
	}
	mm, ok := fi.methods["Typed"+kind+"Config.MarshalJSON"]
	if !ok || mm.Body == nil || len(mm.Body.List) != 1 {
		return nil, "", fmt.Errorf("Typed%sConfig.MarshalJSON not found or not a single statement", kind)
	}
	m := ""
	if renderStmt(mm.Body.List[0]) == "return json.Marshal(c."+kind+"Configurer)" {
		m = "marshalConfigurer"
	} else {
		return nil, "", fmt.Errorf("Typed%sConfig.MarshalJSON: unexpected body: %s", kind, renderStmt(mm.Body.List[0]))
	}
	return steps, m, nil
}

func extractTypedConf(repo string) (*typedFacts, error) {
	fset := token.NewFileSet()
	vf, err := loadFile(fset, filepath.Join(repo, "pkg/config/v1/visitor.go"))
	if err != nil {
		return nil, err
	}
	pf, err := loadFile(fset, filepath.Join(repo, "pkg/config/v1/proxy.go"))
	if err != nil {
		return nil, err
	}
	fx := &typedFacts{}
	bc, ok := vf.methods["VisitorBaseConfig.Complete"]
	if !ok || bc.Body == nil {
		return nil, fmt.Errorf("VisitorBaseConfig.Complete not found")
	}
	if _, fx.VisitorBase, err = translateVisitorComplete(bc, false); err != nil {
		return nil, fmt.Errorf("VisitorBaseConfig.Complete: %v", err)
	}
	tm, ok := vf.vars["visitorConfigTypeMap"].(*ast.CompositeLit)
	if !ok {
		return nil, fmt.Errorf("visitorConfigTypeMap composite literal not found")
	}
	for _, el := range tm.Elts {
		kv, ok := el.(*ast.KeyValueExpr)
		if !ok {
			return nil, fmt.Errorf("visitorConfigTypeMap: unexpected element %s", render(el))
		}
		key, ok := kv.Key.(*ast.Ident)
		if !ok {
			return nil, fmt.Errorf("visitorConfigTypeMap: unexpected key %s", render(kv.Key))
		}
		tname, ok := vf.consts[key.Name]
		if !ok {
			return nil, fmt.Errorf("visitorConfigTypeMap: constant %s not found", key.Name)
		}
		val := render(kv.Value)
		if !strings.HasPrefix(val, "reflect.TypeOf(") || !strings.HasSuffix(val, "{…})") {
			return nil, fmt.Errorf("visitorConfigTypeMap: unexpected value %s", val)
		}
		sname := strings.TrimSuffix(strings.TrimPrefix(val, "reflect.TypeOf("), "{…})")
		vt := visitorType{TypeName: tname, Struct: sname}
		if cm, has := vf.methods[sname+".Complete"]; has {
			if vt.CallsBase, vt.Own, err = translateVisitorComplete(cm, true); err != nil {
				return nil, fmt.Errorf("%s.Complete: %v", sname, err)
			}
			if !vt.CallsBase {
				return nil, fmt.Errorf("%s.Complete does not call the base Complete: not modelled", sname)
			}
		} else {
			vt.CallsBase, vt.Own = true, []vStep{} // the promoted base method
		}
		fx.VisitorTypes = append(fx.VisitorTypes, vt)
	}
	if len(fx.VisitorTypes) == 0 {
		return nil, fmt.Errorf("visitorConfigTypeMap is empty")
	}
	nb, ok := vf.funcs["NewVisitorConfigurerByType"]
	if !ok {
		return nil, fmt.Errorf("NewVisitorConfigurerByType not found")
	}
	for _, s := range nb.Body.List {
		if renderStmt(s) == "vc.GetBaseConfig().Type = string(t)" {
			fx.NewByTypeSetsType = true
		}
	}
	if fx.ProxyUnmarshal, fx.ProxyMarshal, err = typedUnmarshal(pf, "Proxy"); err != nil {
		return nil, err
	}
	if fx.VisitorUnmarshal, fx.VisitorMarshal, err = typedUnmarshal(vf, "Visitor"); err != nil {
		return nil, err
	}
	if fx.LoadEvents, err = loadConfigureEvents(repo, fset); err != nil {
		return nil, err
	}
	if fx.ProxyNewByType, err = newByTypeSteps(pf, "Proxy"); err != nil {
		return nil, err
	}
	if fx.VisitorNewByType, err = newByTypeSteps(vf, "Visitor"); err != nil {
		return nil, err
	}
	if fx.ProxyTypeKey, err = baseTypeKey(pf, "Proxy"); err != nil {
		return nil, err
	}
	if fx.VisitorTypeKey, err = baseTypeKey(vf, "Visitor"); err != nil {
		return nil, err
	}
	return fx, nil
}

func leanVStep(s vStep) string {
	switch s.Kind {
	case "emptyOrStr":
		return fmt.Sprintf(".emptyOrStr %s %s  -- %s ← %q when empty", leanBytes(s.F), leanBytes(s.Lit), s.F, s.Lit)
	case "emptyOrInt":
		return fmt.Sprintf(".emptyOrInt %s %s  -- %s ← %s when zero", leanBytes(s.F), s.Lit, s.F, s.Lit)
	case "userPrefix":
		return fmt.Sprintf(".userPrefix %s  -- %s", leanBytes(s.F), s.F)
	case "userPrefixIfSet":
		return fmt.Sprintf(".userPrefixIfSet %s  -- %s", leanBytes(s.F), s.F)
	case "qualify":
		return fmt.Sprintf(".qualify %s %s  -- %s by %s", leanBytes(s.F), leanBytes(s.G), s.F, s.G)
	}
	panic("vstep " + s.Kind)
}

func leanCommented(items []string, indent string) string {
	if len(items) == 0 {
		return "[]"
	}
	var b strings.Builder
	b.WriteString("[\n")
	for i, line := range items {
		j := strings.Index(line, "  -- ")
		sep := ","
		if i == len(items)-1 {
			sep = " ]"
		}
		if j < 0 {
			b.WriteString(indent + line + sep + "\n")
		} else {
			b.WriteString(indent + line[:j] + sep + line[j:] + "\n")
		}
	}
	return strings.TrimRight(b.String(), "\n")
}

func emitTypedConfLean(fx *typedFacts) string {
	var b strings.Builder
	w := func(f string, a ...any) { fmt.Fprintf(&b, f, a...) }
	w("/-\n  GENERATED by `translate TypedConf` — do not edit.\n")
	w("  Source: pkg/config/v1/visitor.go (visitorConfigTypeMap, NewVisitorConfigurerByType, the Complete methods,\n")
	w("  TypedVisitorConfig.UnmarshalJSON/MarshalJSON), pkg/config/v1/proxy.go (TypedProxyConfig.UnmarshalJSON/MarshalJSON),\n")
	w("  pkg/config/load.go (LoadConfigure: the strict switch and its mutex).\n-/\n")
	w("import Frp.Model.Str\nnamespace Frp\nnamespace Gen\nnamespace TypedConf\n\n")
	w("/-- visitor types (keys of `visitorConfigTypeMap`) -/\ninductive VT\n")
	for _, t := range fx.VisitorTypes {
		w("  | %s\n", t.TypeName)
	}
	w("  deriving DecidableEq, Repr\n\n")
	names := []string{}
	for _, t := range fx.VisitorTypes {
		names = append(names, "."+t.TypeName)
	}
	w("def VT.all : List VT := [%s]\n\n", strings.Join(names, ", "))
	w("def VT.name : VT → String\n")
	for _, t := range fx.VisitorTypes {
		w("  | .%s => %q\n", t.TypeName, t.TypeName)
	}
	w("\ndef VT.bytes : VT → Str\n")
	for _, t := range fx.VisitorTypes {
		w("  | .%s => %s\n", t.TypeName, leanBytes(t.TypeName))
	}
	w(`
/-- statements of a visitor Complete(g) method -/
inductive VStep
  | emptyOrStr (f : Str) (dflt : Str)     -- if c.F == "" { c.F = dflt }  /  c.F = util.EmptyOr(c.F, dflt)
  | emptyOrInt (f : Str) (dflt : Int)     -- c.F = util.EmptyOr(c.F, dflt)
  | userPrefix (f : Str)                  -- c.F = namePrefix + c.F          (namePrefix = g.User == "" ? "" : g.User + ".")
  | qualify (f : Str) (by_ : Str)         -- if c.G != "" { c.F = c.G + "." + c.F } else { c.F = namePrefix + c.F }
  | userPrefixIfSet (f : Str)             -- if c.F != "" { c.F = namePrefix + c.F }
  deriving DecidableEq, Repr

`)
	items := []string{}
	for _, s := range fx.VisitorBase {
		items = append(items, leanVStep(s))
	}
	w("/-- VisitorBaseConfig.Complete, in statement order -/\ndef visitorBaseComplete : List VStep := %s\n\n", leanCommented(items, "  "))
	w("/-- the statements a type's own Complete adds after calling the base one ([] = the promoted base method) -/\ndef visitorOwnComplete : VT → List VStep\n")
	for _, t := range fx.VisitorTypes {
		items = nil
		for _, s := range t.Own {
			items = append(items, leanVStep(s))
		}
		w("  | .%s => %s\n", t.TypeName, leanCommented(items, "      "))
	}
	w("\n/-- NewVisitorConfigurerByType stores the type string in the new configurer's base Type field -/\n")
	w("def newVisitorByTypeSetsType : Bool := %v\n", fx.NewByTypeSetsType)
	w(`
/-- statements of Typed{Proxy,Visitor}Config.UnmarshalJSON -/
inductive UStep
  | nullIsError        -- if len(b) == 4 && string(b) == "null" { return errors.New("type is required") }
  | declTypeStruct     -- typeStruct := struct{ Type string `+"`json:\"type\"`"+` }{}
  | peekType           -- if err := json.Unmarshal(b, &typeStruct); err != nil { return err }
  | storeType          -- c.Type = typeStruct.Type
  | newByType          -- configurer := New…ConfigurerByType(…Type(typeStruct.Type))
  | unknownTypeErr     -- if configurer == nil { return fmt.Errorf("unknown … type: %%s", typeStruct.Type) }
  | newDecoder         -- decoder := json.NewDecoder(bytes.NewBuffer(b))
  | strictSwitch       -- if DisallowUnknownFields { decoder.DisallowUnknownFields() }
  | decode             -- if err := decoder.Decode(configurer); err != nil { return … }
  | storeConfigurer    -- c.…Configurer = configurer
  | ret                -- return nil
  deriving DecidableEq, Repr

`)
	ul := func(xs []string) string {
		p := []string{}
		for _, x := range xs {
			p = append(p, "."+x)
		}
		return "[" + strings.Join(p, ", ") + "]"
	}
	w("def proxyUnmarshalJSON : List UStep := %s\n", ul(fx.ProxyUnmarshal))
	w("def visitorUnmarshalJSON : List UStep := %s\n\n", ul(fx.VisitorUnmarshal))
	w("/-- Typed…Config.MarshalJSON is `return json.Marshal(c.…Configurer)` -/\n")
	w("def proxyMarshalsConfigurer : Bool := %v\ndef visitorMarshalsConfigurer : Bool := %v\n\n", fx.ProxyMarshal == "marshalConfigurer", fx.VisitorMarshal == "marshalConfigurer")
	w(`/-- what LoadConfigure(b, c, strict) does with the package-level strict switch of v1, in execution order
    (calls of same-file helpers inlined; a deferred unlock placed where it runs) -/
inductive LEv
  | lock      -- v1.DisallowUnknownFieldsMu.Lock()
  | setFlag   -- v1.DisallowUnknownFields = strict
  | decode    -- the document is decoded into c (json / yaml decoder; the nested UnmarshalJSON methods read the switch)
  | unlock    -- v1.DisallowUnknownFieldsMu.Unlock()
  deriving DecidableEq, Repr

`)
	w("def loadConfigureEvents : List LEv := %s\n\n", ul(fx.LoadEvents))
	w(`/-- statements of New{Proxy,Visitor}ConfigurerByType(t) -/
inductive NStep
  | lookupExact      -- v, ok := …ConfigTypeMap[t]        (the map is indexed with the argument as it is)
  | nilIfAbsent      -- if !ok { return nil }
  | newOfStruct      -- x := reflect.New(v).Interface().(…Configurer)
  | setTypeFromArg   -- x.GetBaseConfig().Type = string(t)
  | ret              -- return x
  deriving DecidableEq, Repr

`)
	w("def proxyNewByType : List NStep := %s\n", ul(fx.ProxyNewByType))
	w("def visitorNewByType : List NStep := %s\n\n", ul(fx.VisitorNewByType))
	w("/-- the document key UnmarshalJSON peeks the discriminator from (tag of typeStruct.Type) -/\n")
	w("def peekKey : Str := %s  -- %q\n", leanBytes("type"), "type")
	w("/-- the document key the decoder writes into {Proxy,Visitor}BaseConfig.Type (its json tag) -/\n")
	w("def proxyBaseTypeKey : Str := %s  -- %q\n", leanBytes(fx.ProxyTypeKey), fx.ProxyTypeKey)
	w("def visitorBaseTypeKey : Str := %s  -- %q\n\n", leanBytes(fx.VisitorTypeKey), fx.VisitorTypeKey)
	w("end TypedConf\nend Gen\nend Frp\n")
	return b.String()
}

func genTypedConf(repo, out string) error {
	fx, err := extractTypedConf(repo)
	if err != nil {
		return err
	}
	src := emitTypedConfLean(fx)
	if err := os.MkdirAll(out, 0o755); err != nil {
		return err
	}
	target := filepath.Join(out, "TypedConf.lean")
	if old, err := os.ReadFile(target); err != nil || string(old) != src {
		if err := os.WriteFile(target, []byte(src), 0o644); err != nil {
			return err
		}
	}
	js, _ := json.MarshalIndent(fx, "", " ")
	return os.WriteFile(filepath.Join(out, "TypedConf.json"), js, 0o644)
}
