package main

// Generator ReplaceFacts (C10): the shape of "a login replaces a session" that Frp/Model/SessReplace.lean mirrors,
// read from the source with go/ast and written to lean/Frp/Gen/ReplaceFacts.lean.  `verifhook.At(…)` statements
// (empty without the build tag) are left out of every list.
//
//	regCtlSeq         server/service.go (*Service).RegisterControl: the top-level statements from the one that calls
//	                  svr.ctlManager.Add up to and including `ctl.Start()`, classified:
//	                  "ifOld" (`if oldCtl := svr.ctlManager.Add(…); oldCtl != nil {…}` without else) | "start" | "other:<node>"
//	oldBody           the statements of that if-body: "call:oldCtl.<M>" (a bare call statement without arguments on the
//	                  old control) | "callargs:oldCtl.<M>" | "other:<node>" (if / select / go / assignment / return …)
//	waitCallee        <M> of the first such call
//	waitCalleeParams  number of parameters of server/control.go (*Control).<M>
//	waitCalleeBody    its statements: "recv:ctl.doneCh" (the bare receive `<-ctl.doneCh`) | "other:<node>"
//	doneChClosers     every function of package server (non-test files) containing close(<x>.doneCh), as file:func
//	doneChMakers      every function that creates the channel (`doneCh: make(…)` in a literal or `<x>.doneCh = …`)
//	doneCloseAfterWalk  in (*Control).worker close(ctl.doneCh) is a TOP-LEVEL statement (no branch, no defer, no go)
//	                  placed after the `for … range ctl.proxies` statement
//	walkClosesInline  the body of that range statement has the bare statements pxy.Close() and ctl.pxyManager.Del(…)
//	                  (not inside go / if / defer)
//	workerSpawns      functions containing `go ctl.worker()`; dispatcherRunIn: functions containing
//	                  `go ctl.msgDispatcher.Run()` — no message of a session is handled before its Start()
//
// Fails ("BROKEN TIE") only when an anchor (RegisterControl, the Add call, Start, worker, the range) is missing.

import (
	"fmt"
	"go/ast"
	"go/parser"
	"go/token"
	"os"
	"path/filepath"
	"sort"
	"strings"
)

func init() { generators["ReplaceFacts"] = genReplaceFacts }

func rfNode(n ast.Node) string {
	return "other:" + strings.TrimPrefix(fmt.Sprintf("%T", n), "*ast.")
}

func rfIsHook(st ast.Stmt) bool {
	if es, ok := st.(*ast.ExprStmt); ok {
		if c, ok := es.X.(*ast.CallExpr); ok {
			return sfSelIs(c.Fun, "verifhook", "At")
		}
	}
	return false
}

// x.a.b as "x.a.b"
func rfPath(e ast.Expr) string {
	switch x := e.(type) {
	case *ast.Ident:
		return x.Name
	case *ast.SelectorExpr:
		if p := rfPath(x.X); p != "" {
			return p + "." + x.Sel.Name
		}
	}
	return ""
}

func rfContainsCall(n ast.Node, path string) bool {
	found := false
	ast.Inspect(n, func(x ast.Node) bool {
		if c, ok := x.(*ast.CallExpr); ok && rfPath(c.Fun) == path {
			found = true
		}
		return true
	})
	return found
}

func rfFuncName(file string, fd *ast.FuncDecl) string { return file + ":" + fd.Name.Name }

func genReplaceFacts(repo, out string) error {
	fset := token.NewFileSet()
	dir := filepath.Join(repo, "server")
	ents, err := os.ReadDir(dir)
	if err != nil {
		return err
	}
	files := map[string]*ast.File{}
	var names []string
	for _, e := range ents {
		if e.IsDir() || !strings.HasSuffix(e.Name(), ".go") || strings.HasSuffix(e.Name(), "_test.go") {
			continue
		}
		f, err := parser.ParseFile(fset, filepath.Join(dir, e.Name()), nil, 0)
		if err != nil {
			return err
		}
		files[e.Name()] = f
		names = append(names, e.Name())
	}
	sort.Strings(names)
	svc, ctlf := files["service.go"], files["control.go"]
	if svc == nil || ctlf == nil {
		return fail("server/service.go or server/control.go not found")
	}
	// ---- RegisterControl
	rc := sfMethod(svc, "Service", "RegisterControl")
	if rc == nil {
		return fail("server/service.go: (*Service).RegisterControl not found")
	}
	var seq, oldBody []string
	waitCallee := ""
	state := 0 // 0 before Add, 1 between, 2 after Start
	for _, st := range rc.Body.List {
		if state == 2 {
			break
		}
		if state == 0 && !rfContainsCall(st, "svr.ctlManager.Add") {
			continue
		}
		if rfIsHook(st) {
			continue
		}
		if state == 0 {
			state = 1
			is, ok := st.(*ast.IfStmt)
			shape := ok && is.Else == nil && is.Init != nil
			oldVar := ""
			if shape {
				as, ok := is.Init.(*ast.AssignStmt)
				shape = ok && as.Tok == token.DEFINE && len(as.Lhs) == 1 && len(as.Rhs) == 1
				if shape {
					id, ok1 := as.Lhs[0].(*ast.Ident)
					c, ok2 := as.Rhs[0].(*ast.CallExpr)
					shape = ok1 && ok2 && rfPath(c.Fun) == "svr.ctlManager.Add"
					if shape {
						oldVar = id.Name
					}
				}
			}
			if shape {
				be, ok := is.Cond.(*ast.BinaryExpr)
				shape = ok && be.Op == token.NEQ && rfPath(be.X) == oldVar && rfPath(be.Y) == "nil"
			}
			if !shape {
				seq = append(seq, rfNode(st))
				continue
			}
			seq = append(seq, "ifOld")
			for _, b := range is.Body.List {
				if rfIsHook(b) {
					continue
				}
				es, ok := b.(*ast.ExprStmt)
				if !ok {
					oldBody = append(oldBody, rfNode(b))
					continue
				}
				c, ok := es.X.(*ast.CallExpr)
				sel, ok2 := (ast.Expr)(nil), false
				if ok {
					sel, ok2 = c.Fun, true
				}
				if !ok || !ok2 {
					oldBody = append(oldBody, rfNode(es.X))
					continue
				}
				s, isSel := sel.(*ast.SelectorExpr)
				if !isSel || rfPath(s.X) != oldVar {
					oldBody = append(oldBody, "other:call:"+rfPath(c.Fun))
					continue
				}
				kind := "call"
				if len(c.Args) != 0 {
					kind = "callargs"
				}
				oldBody = append(oldBody, kind+":oldCtl."+s.Sel.Name)
				if waitCallee == "" {
					waitCallee = s.Sel.Name
				}
			}
			continue
		}
		if es, ok := st.(*ast.ExprStmt); ok {
			if c, ok := es.X.(*ast.CallExpr); ok && rfPath(c.Fun) == "ctl.Start" && len(c.Args) == 0 {
				seq = append(seq, "start")
				state = 2
				continue
			}
		}
		seq = append(seq, rfNode(st))
	}
	if state == 0 {
		return fail("server/service.go: RegisterControl does not call svr.ctlManager.Add")
	}
	if state != 2 {
		return fail("server/service.go: RegisterControl has no top-level statement ctl.Start() after svr.ctlManager.Add")
	}
	// ---- the callee of the wait
	var calleeBody []string
	calleeParams := 0
	if waitCallee != "" {
		fd := sfMethod(ctlf, "Control", waitCallee)
		if fd == nil || fd.Body == nil {
			calleeBody = []string{"other:missing"}
		} else {
			for _, p := range fd.Type.Params.List {
				if len(p.Names) == 0 {
					calleeParams++
				}
				calleeParams += len(p.Names)
			}
			for _, st := range fd.Body.List {
				if rfIsHook(st) {
					continue
				}
				if es, ok := st.(*ast.ExprStmt); ok {
					if u, ok := es.X.(*ast.UnaryExpr); ok && u.Op == token.ARROW && rfPath(u.X) == "ctl.doneCh" {
						calleeBody = append(calleeBody, "recv:ctl.doneCh")
						continue
					}
				}
				calleeBody = append(calleeBody, rfNode(st))
			}
		}
	}
	// ---- who closes / creates doneCh, who spawns the worker and the dispatcher
	var closers, makers, spawns, dispRun []string
	for _, fn := range names {
		for _, d := range files[fn].Decls {
			fd, ok := d.(*ast.FuncDecl)
			if !ok || fd.Body == nil {
				continue
			}
			cl, mk, sp, dr := false, false, false, false
			ast.Inspect(fd.Body, func(n ast.Node) bool {
				switch x := n.(type) {
				case *ast.CallExpr:
					if id, ok := x.Fun.(*ast.Ident); ok && id.Name == "close" && len(x.Args) == 1 && strings.HasSuffix(rfPath(x.Args[0]), ".doneCh") {
						cl = true
					}
				case *ast.KeyValueExpr:
					if id, ok := x.Key.(*ast.Ident); ok && id.Name == "doneCh" {
						mk = true
					}
				case *ast.AssignStmt:
					for _, l := range x.Lhs {
						if strings.HasSuffix(rfPath(l), ".doneCh") {
							mk = true
						}
					}
				case *ast.GoStmt:
					switch rfPath(x.Call.Fun) {
					case "ctl.worker":
						sp = true
					case "ctl.msgDispatcher.Run":
						dr = true
					}
				}
				return true
			})
			if cl {
				closers = append(closers, rfFuncName(fn, fd))
			}
			if mk {
				makers = append(makers, rfFuncName(fn, fd))
			}
			if sp {
				spawns = append(spawns, rfFuncName(fn, fd))
			}
			if dr {
				dispRun = append(dispRun, rfFuncName(fn, fd))
			}
		}
	}
	// ---- worker: the walk, then close(doneCh) at top level
	worker := sfMethod(ctlf, "Control", "worker")
	if worker == nil {
		return fail("server/control.go: (*Control).worker not found")
	}
	walkIdx, closeIdx := -1, -1
	walkInline := false
	for i, st := range worker.Body.List {
		if rs, ok := st.(*ast.RangeStmt); ok && rfPath(rs.X) == "ctl.proxies" && walkIdx < 0 {
			walkIdx = i
			hasClose, hasDel := false, false
			for _, b := range rs.Body.List {
				if es, ok := b.(*ast.ExprStmt); ok {
					if c, ok := es.X.(*ast.CallExpr); ok {
						switch rfPath(c.Fun) {
						case "pxy.Close":
							hasClose = true
						case "ctl.pxyManager.Del":
							hasDel = true
						}
					}
				}
			}
			walkInline = hasClose && hasDel
		}
		if es, ok := st.(*ast.ExprStmt); ok {
			if c, ok := es.X.(*ast.CallExpr); ok {
				if id, ok := c.Fun.(*ast.Ident); ok && id.Name == "close" && len(c.Args) == 1 && rfPath(c.Args[0]) == "ctl.doneCh" {
					closeIdx = i
				}
			}
		}
	}
	if walkIdx < 0 {
		return fail("server/control.go: worker() has no top-level `for … range ctl.proxies`")
	}

	var b strings.Builder
	b.WriteString("/- GENERATED by translate/gen_replacefacts.go from the frp source tree. Do not edit. -/\n")
	b.WriteString("namespace Frp.Gen.ReplaceFacts\n\n")
	list := func(name string, l []string) {
		q := make([]string, len(l))
		for i, s := range l {
			q[i] = fmt.Sprintf("%q", s)
		}
		fmt.Fprintf(&b, "def %s : List String := [%s]\n", name, strings.Join(q, ", "))
	}
	list("regCtlSeq", seq)
	list("oldBody", oldBody)
	fmt.Fprintf(&b, "def waitCallee : String := %q\n", waitCallee)
	fmt.Fprintf(&b, "def waitCalleeParams : Nat := %d\n", calleeParams)
	list("waitCalleeBody", calleeBody)
	list("doneChClosers", closers)
	list("doneChMakers", makers)
	fmt.Fprintf(&b, "def doneCloseAfterWalk : Bool := %s\n", sfBool(closeIdx > walkIdx))
	fmt.Fprintf(&b, "def walkClosesInline : Bool := %s\n", sfBool(walkInline))
	list("workerSpawns", spawns)
	list("dispatcherRunIn", dispRun)
	b.WriteString("\nend Frp.Gen.ReplaceFacts\n")
	return os.WriteFile(filepath.Join(out, "ReplaceFacts.lean"), []byte(b.String()), 0o644)
}
