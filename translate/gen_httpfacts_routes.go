package main

// Generator HttpFacts, second part (C02): two more syntactic facts
//
//	notFoundSites   every place of pkg/util/vhost/http.go that answers with the not-found page: a call of
//	                getNotFoundPageContent() or of a function of package vhost that (transitively) calls it.
//	                Per site: (enclosing function, helper called or "", readsBody) where readsBody = the innermost
//	                block around the call, or the body of a helper on the way to getNotFoundPageContent, contains a
//	                selector `.Body` (req.Body / newreq.Body / r.Body …: the only way to touch what is left of the
//	                request body).  Frp/Model/HttpErr.lean: `Handler.drains`.
//	routeConfigFields  the fields of vhost.RouteConfig (pkg/util/vhost/vhost.go) in declaration order
//	groupCarried / groupReplaced   server/group/http.go, (*HTTPGroup).Register: the *vhost.RouteConfig handed to
//	                vhostRouter.Add(…) for the first member — which fields of the member's RouteConfig it carries
//	                unchanged and which it sets to something else.  Shapes understood: a local variable defined as a
//	                copy of the RouteConfig parameter (`tmp := routeConfig`; carried = every field of the struct that
//	                is not assigned afterwards), a `vhost.RouteConfig{…}` literal (carried = the keys K whose value
//	                is `<param>.K`), either of them directly or returned by a function / method of the same file
//	                that is called with the parameter.  Frp/Model/HttpGroup.lean: `groupRoute`.
//
// BROKEN TIE: no site at all, no Register method, not exactly one vhostRouter.Add call in it, a fourth argument
// of another shape.

import (
	"fmt"
	"go/ast"
	"go/parser"
	"go/token"
	"path/filepath"
	"sort"
	"strings"
)

type hfSite struct {
	fn, via   string
	line      int
	readsBody bool
}

func hfHasBodySel(n ast.Node) bool {
	found := false
	ast.Inspect(n, func(x ast.Node) bool {
		if s, ok := x.(*ast.SelectorExpr); ok && s.Sel.Name == "Body" {
			found = true
		}
		return !found
	})
	return found
}

// name of a called package-level function (`f(…)`) or "" ; methods are reported by their selector name with a dot
func hfCallee(c *ast.CallExpr) string {
	switch f := c.Fun.(type) {
	case *ast.Ident:
		return f.Name
	}
	return ""
}

func hfNotFoundSites(fset *token.FileSet, parsed map[string]*ast.File) ([]hfSite, error) {
	const dir, root = "pkg/util/vhost", "getNotFoundPageContent"
	decls := map[string]*ast.FuncDecl{} // package-level functions of package vhost
	for name, pf := range parsed {
		if !strings.HasPrefix(name, dir+"/") {
			continue
		}
		for _, d := range pf.Decls {
			if fd, ok := d.(*ast.FuncDecl); ok && fd.Recv == nil && fd.Body != nil {
				decls[fd.Name.Name] = fd
			}
		}
	}
	if decls[root] == nil {
		return nil, fail("%s/resource.go: func %s not found", dir, root)
	}
	// helpers: functions that reach the page content; reads[h] = some body on h's way to it has a `.Body` selector
	helper := map[string]bool{root: true}
	reads := map[string]bool{root: hfHasBodySel(decls[root].Body)}
	for changed := true; changed; {
		changed = false
		for name, fd := range decls {
			if helper[name] {
				continue
			}
			var via []string
			ast.Inspect(fd.Body, func(x ast.Node) bool {
				if c, ok := x.(*ast.CallExpr); ok && helper[hfCallee(c)] {
					via = append(via, hfCallee(c))
				}
				return true
			})
			if len(via) > 0 {
				helper[name] = true
				r := hfHasBodySel(fd.Body)
				for _, v := range via {
					r = r || reads[v]
				}
				reads[name] = r
				changed = true
			}
		}
	}
	pf := parsed[dir+"/http.go"]
	var sites []hfSite
	for _, d := range pf.Decls {
		fd, ok := d.(*ast.FuncDecl)
		if !ok || fd.Body == nil {
			continue
		}
		var stack []ast.Node
		ast.Inspect(fd, func(x ast.Node) bool {
			if x == nil {
				stack = stack[:len(stack)-1]
				return true
			}
			stack = append(stack, x)
			c, ok := x.(*ast.CallExpr)
			if !ok || !helper[hfCallee(c)] {
				return true
			}
			var blk ast.Node = fd.Body
			for i := len(stack) - 1; i >= 0; i-- {
				if b, ok := stack[i].(*ast.BlockStmt); ok {
					blk = b
					break
				}
			}
			via := hfCallee(c)
			s := hfSite{fn: fd.Name.Name, line: fset.Position(c.Pos()).Line, readsBody: hfHasBodySel(blk) || reads[via]}
			if via != root {
				s.via = via
			}
			sites = append(sites, s)
			return true
		})
	}
	if len(sites) == 0 {
		return nil, fail("%s/http.go: no call that answers with the not-found page", dir)
	}
	return sites, nil
}

func hfRouteConfigFields(pf *ast.File) ([]string, error) {
	var out []string
	for _, d := range pf.Decls {
		gd, ok := d.(*ast.GenDecl)
		if !ok {
			continue
		}
		for _, sp := range gd.Specs {
			ts, ok := sp.(*ast.TypeSpec)
			if !ok || ts.Name.Name != "RouteConfig" {
				continue
			}
			st, ok := ts.Type.(*ast.StructType)
			if !ok {
				return nil, fail("vhost.RouteConfig is not a struct")
			}
			for _, f := range st.Fields.List {
				if len(f.Names) == 0 {
					return nil, fail("vhost.RouteConfig: embedded field")
				}
				for _, n := range f.Names {
					out = append(out, n.Name)
				}
			}
		}
	}
	if len(out) == 0 {
		return nil, fail("pkg/util/vhost/vhost.go: type RouteConfig not found")
	}
	return out, nil
}

func hfIsRouteConfigType(e ast.Expr) bool {
	if st, ok := e.(*ast.StarExpr); ok {
		e = st.X
	}
	return hfIsType(e, "vhost", "RouteConfig")
}

// the parameter of fd whose type is vhost.RouteConfig / *vhost.RouteConfig
func hfRouteParam(fd *ast.FuncDecl) string {
	for _, f := range fd.Type.Params.List {
		if hfIsRouteConfigType(f.Type) && len(f.Names) == 1 {
			return f.Names[0].Name
		}
	}
	return ""
}

// which fields of `param` does the RouteConfig value `e` (evaluated inside fd) carry unchanged, which does it replace
func hfResolveRoute(pf *ast.File, fd *ast.FuncDecl, param string, e ast.Expr, all []string, depth int) (carried, replaced []string, err error) {
	if depth > 3 {
		return nil, nil, fail("server/group/http.go: helper chain too deep")
	}
	if u, ok := e.(*ast.UnaryExpr); ok && u.Op == token.AND {
		e = u.X
	}
	switch v := e.(type) {
	case *ast.CompositeLit:
		if !hfIsRouteConfigType(v.Type) {
			return nil, nil, fail("server/group/http.go: the group's route is a literal of another type")
		}
		for _, el := range v.Elts {
			kv, ok := el.(*ast.KeyValueExpr)
			if !ok {
				return nil, nil, fail("server/group/http.go: positional vhost.RouteConfig literal")
			}
			k := kv.Key.(*ast.Ident).Name
			if s, ok := kv.Value.(*ast.SelectorExpr); ok && s.Sel.Name == k {
				if id, ok := s.X.(*ast.Ident); ok && id.Name == param {
					carried = append(carried, k)
					continue
				}
			}
			replaced = append(replaced, k)
		}
		return carried, replaced, nil
	case *ast.Ident:
		if v.Name == param {
			return append([]string{}, all...), nil, nil
		}
		// a local variable: its (single) definition and the fields assigned afterwards
		var def ast.Expr
		ndef := 0
		assigned := map[string]bool{}
		ast.Inspect(fd.Body, func(x ast.Node) bool {
			switch a := x.(type) {
			case *ast.AssignStmt:
				for i, l := range a.Lhs {
					if id, ok := l.(*ast.Ident); ok && id.Name == v.Name && len(a.Rhs) == len(a.Lhs) {
						def = a.Rhs[i]
						ndef++
					}
					if s, ok := l.(*ast.SelectorExpr); ok {
						if id, ok := s.X.(*ast.Ident); ok && id.Name == v.Name {
							assigned[s.Sel.Name] = true
						}
					}
				}
			case *ast.ValueSpec:
				for i, n := range a.Names {
					if n.Name == v.Name {
						ndef++
						if i < len(a.Values) {
							def = a.Values[i]
						}
					}
				}
			}
			return true
		})
		if ndef != 1 || def == nil {
			return nil, nil, fail("server/group/http.go: variable %s of the group's route has %d definitions", v.Name, ndef)
		}
		c, r, err := hfResolveRoute(pf, fd, param, def, all, depth+1)
		if err != nil {
			return nil, nil, err
		}
		for _, k := range c {
			if assigned[k] {
				r = append(r, k)
			} else {
				carried = append(carried, k)
			}
		}
		for k := range assigned {
			found := false
			for _, x := range r {
				found = found || x == k
			}
			if !found {
				r = append(r, k)
			}
		}
		return carried, r, nil
	case *ast.CallExpr:
		name := ""
		switch f := v.Fun.(type) {
		case *ast.Ident:
			name = f.Name
		case *ast.SelectorExpr:
			name = f.Sel.Name
		}
		// the argument that is the parameter tells which parameter of the helper stands for it
		argIdx := -1
		for i, a := range v.Args {
			if id, ok := a.(*ast.Ident); ok && id.Name == param {
				argIdx = i
			}
		}
		if argIdx < 0 {
			return nil, nil, fail("server/group/http.go: %s(…) is not called with the member's RouteConfig", name)
		}
		for _, d := range pf.Decls {
			h, ok := d.(*ast.FuncDecl)
			if !ok || h.Name.Name != name || h.Body == nil {
				continue
			}
			var names []string
			for _, f := range h.Type.Params.List {
				for _, n := range f.Names {
					names = append(names, n.Name)
				}
			}
			if argIdx >= len(names) {
				break
			}
			var rets []ast.Expr
			ast.Inspect(h.Body, func(x ast.Node) bool {
				if _, ok := x.(*ast.FuncLit); ok {
					return false
				}
				if r, ok := x.(*ast.ReturnStmt); ok && len(r.Results) == 1 {
					rets = append(rets, r.Results[0])
				}
				return true
			})
			if len(rets) != 1 {
				return nil, nil, fail("server/group/http.go: helper %s has %d return statements", name, len(rets))
			}
			return hfResolveRoute(pf, h, names[argIdx], rets[0], all, depth+1)
		}
		return nil, nil, fail("server/group/http.go: helper %s not found in the file", name)
	}
	return nil, nil, fail("server/group/http.go: the group's route has a shape the translator does not understand")
}

func hfGroupRoute(repo string, fset *token.FileSet, all []string) (carried, replaced []string, err error) {
	pf, err := parser.ParseFile(fset, filepath.Join(repo, "server/group/http.go"), nil, 0)
	if err != nil {
		return nil, nil, err
	}
	for _, d := range pf.Decls {
		fd, ok := d.(*ast.FuncDecl)
		if !ok || fd.Name.Name != "Register" || fd.Recv == nil || fd.Body == nil {
			continue
		}
		if st, ok := fd.Recv.List[0].Type.(*ast.StarExpr); !ok || fmt.Sprint(st.X) != "HTTPGroup" {
			continue
		}
		param := hfRouteParam(fd)
		if param == "" {
			return nil, nil, fail("server/group/http.go: (*HTTPGroup).Register has no vhost.RouteConfig parameter")
		}
		var adds []*ast.CallExpr
		ast.Inspect(fd.Body, func(x ast.Node) bool {
			if c, ok := x.(*ast.CallExpr); ok && len(c.Args) == 4 {
				if s, ok := c.Fun.(*ast.SelectorExpr); ok && s.Sel.Name == "Add" {
					if in, ok := s.X.(*ast.SelectorExpr); ok && in.Sel.Name == "vhostRouter" {
						adds = append(adds, c)
					}
				}
			}
			return true
		})
		if len(adds) != 1 {
			return nil, nil, fail("server/group/http.go: (*HTTPGroup).Register has %d vhostRouter.Add calls (expected one)", len(adds))
		}
		c, r, err := hfResolveRoute(pf, fd, param, adds[0].Args[3], all, 0)
		if err != nil {
			return nil, nil, err
		}
		// declaration order for the carried ones, sorted names for the replaced ones
		idx := map[string]int{}
		for i, f := range all {
			idx[f] = i
		}
		sort.Slice(c, func(i, j int) bool { return idx[c[i]] < idx[c[j]] })
		sort.Strings(r)
		return c, r, nil
	}
	return nil, nil, fail("server/group/http.go: method (*HTTPGroup).Register not found")
}

func hfQuoteList(xs []string) string {
	q := make([]string, len(xs))
	for i, x := range xs {
		q[i] = fmt.Sprintf("%q", x)
	}
	return "[" + strings.Join(q, ", ") + "]"
}

// the Lean text of the second part
func hfRoutesLean(repo string, fset *token.FileSet, parsed map[string]*ast.File) (string, error) {
	sites, err := hfNotFoundSites(fset, parsed)
	if err != nil {
		return "", err
	}
	vf := parsed["pkg/util/vhost/vhost.go"]
	if vf == nil {
		return "", fail("pkg/util/vhost/vhost.go not found")
	}
	all, err := hfRouteConfigFields(vf)
	if err != nil {
		return "", err
	}
	carried, replaced, err := hfGroupRoute(repo, fset, all)
	if err != nil {
		return "", err
	}
	var b strings.Builder
	b.WriteString("/-- where pkg/util/vhost/http.go answers with the not-found page (getNotFoundPageContent, directly or through\n    a function of the package that reaches it); `readsBody`: the block around the call or a helper on the way has\n    a `.Body` selector\n")
	for _, s := range sites {
		fmt.Fprintf(&b, "      pkg/util/vhost/http.go:%d in %s\n", s.line, s.fn)
	}
	b.WriteString("-/\nstructure NotFoundSite where\n  fn : String\n  via : String\n  readsBody : Bool\nderiving DecidableEq, Repr\n\n")
	b.WriteString("def notFoundSites : List NotFoundSite := [\n")
	for i, s := range sites {
		sep := ","
		if i == len(sites)-1 {
			sep = ""
		}
		fmt.Fprintf(&b, "  { fn := %q, via := %q, readsBody := %v }%s\n", s.fn, s.via, s.readsBody, sep)
	}
	b.WriteString("]\n\n")
	b.WriteString("/-- the fields of vhost.RouteConfig (pkg/util/vhost/vhost.go), declaration order -/\n")
	fmt.Fprintf(&b, "def routeConfigFields : List String := %s\n\n", hfQuoteList(all))
	b.WriteString("/-- server/group/http.go (*HTTPGroup).Register: the route handed to vhostRouter.Add for the first member carries\n    these fields of the member's RouteConfig unchanged … -/\n")
	fmt.Fprintf(&b, "def groupCarried : List String := %s\n\n", hfQuoteList(carried))
	b.WriteString("/-- … and sets these to something else -/\n")
	fmt.Fprintf(&b, "def groupReplaced : List String := %s\n\n", hfQuoteList(replaced))
	return b.String(), nil
}
