package main

// Part of generator SessFacts (C14): which code refreshes the liveness clocks, and the shape of the client's
// teardown path.  Called from genSessFacts (gen_sessfacts.go); writes further definitions into SessFacts.lean.
//
// Liveness clocks (server/control.go Control.lastPing, client/control.go Control.lastPong):
//
//	<side>ClockRefresh   for every message type registered in registerMsgHandlers: the handler may store the clock --
//	                     a direct `<recv>.<clock>.Store/Swap/CompareAndSwap(..)` in the handler method, in a method of
//	                     Control it calls or mentions (`ctl.f(..)`, `ctl.f` as a value; fixpoint), or in a local func
//	                     literal of registerMsgHandlers that wraps the handler
//	<side>BeatEarly      in the heartbeat handler (Ping / Pong) a store is reached before, or inside, the last top-level
//	                     `if … { …; return }` of the method (the rejection branch), or there is no such branch
//	<side>BeatChecks     the calls made before that branch, out of pluginManager.Ping / VerifyPing (server); whether the
//	                     branch tests `.Error` (client)
//	<side>ClockWriters   every function of the package with a direct store ("file.go:Func")
//	<side>ClockStray     those of them that are neither NewControl nor reachable from a registered handler nor a wrapper
//	                     literal of registerMsgHandlers (a timer, another goroutine, another file …)
//
// Client teardown (client/control.go worker → proxy.Manager.Close → Wrapper.Stop → Wrapper.close → transporter Send):
//
//	wrapperStopWaits       (*Wrapper).Stop contains a channel receive, a select or a `.Wait()` call (it holds pw.mu)
//	wrapperStopLocks       (*Wrapper).Stop starts with pw.mu.Lock()
//	checkWorkerLocks       (*Wrapper).checkWorker takes pw.mu
//	checkWorkerSleepsFirst (*Wrapper).checkWorker sleeps before its loop when a monitor exists
//	stopSendsClose         Stop calls pw.close(), which calls pw.handler(..)
//	transportSendBare      (*transporterImpl).Send is a bare channel send (no select)
//	sendLoopStopsOnDone    (*Dispatcher).sendLoop returns when doneCh is closed
//	sendChCap              the capacity of the dispatcher's send channel
//	workerClosesAfterDone  client (*Control).worker calls ctl.pm.Close() after <-ctl.msgDispatcher.Done()
//	workerDrainsSendCh     … and before that call starts a goroutine that receives from …SendChannel()

import (
	"fmt"
	"go/ast"
	"go/parser"
	"go/token"
	"os"
	"path/filepath"
	"sort"
	"strconv"
	"strings"
)

type sfClockInfo struct {
	refresh   [][2]string // (message type, "true"/"false")
	beatEarly bool
	beatWrite bool
	checks    []string
	writers   []string
	stray     []string
}

// a direct store on the clock field: X.<field>.Store(..) / Swap / CompareAndSwap
func sfIsClockWrite(c *ast.CallExpr, field string) bool {
	s, ok := c.Fun.(*ast.SelectorExpr)
	if !ok || (s.Sel.Name != "Store" && s.Sel.Name != "Swap" && s.Sel.Name != "CompareAndSwap") {
		return false
	}
	in, ok := s.X.(*ast.SelectorExpr)
	return ok && in.Sel.Name == field
}

func sfRecvName(fd *ast.FuncDecl) string {
	if fd.Recv == nil || len(fd.Recv.List) != 1 || len(fd.Recv.List[0].Names) != 1 {
		return ""
	}
	return fd.Recv.List[0].Names[0].Name
}

func sfRecvType(fd *ast.FuncDecl) string {
	if fd.Recv == nil || len(fd.Recv.List) != 1 {
		return ""
	}
	t := fd.Recv.List[0].Type
	if st, ok := t.(*ast.StarExpr); ok {
		t = st.X
	}
	if id, ok := t.(*ast.Ident); ok {
		return id.Name
	}
	return ""
}

// sfClock analyses one side.  file = <dir>/control.go; beatMsg = "Ping" | "Pong"
func sfClock(fset *token.FileSet, repo, dir, field, beatMsg string) (*sfClockInfo, error) {
	rel := dir + "/control.go"
	pkgs, err := parser.ParseDir(fset, filepath.Join(repo, dir), func(fi os.FileInfo) bool {
		return !strings.HasSuffix(fi.Name(), "_test.go")
	}, 0)
	if err != nil {
		return nil, err
	}
	var ctlFile *ast.File
	files := map[string]*ast.File{}
	for _, p := range pkgs {
		for name, f := range p.Files {
			files[filepath.Base(name)] = f
			if filepath.Base(name) == "control.go" {
				ctlFile = f
			}
		}
	}
	if ctlFile == nil {
		return nil, fail("%s not found", rel)
	}
	// methods of Control (in control.go) and their direct stores
	methods := map[string]*ast.FuncDecl{}
	for _, d := range ctlFile.Decls {
		if fd, ok := d.(*ast.FuncDecl); ok && fd.Body != nil && sfRecvType(fd) == "Control" {
			methods[fd.Name.Name] = fd
		}
	}
	direct := func(n ast.Node) bool {
		found := false
		ast.Inspect(n, func(x ast.Node) bool {
			if c, ok := x.(*ast.CallExpr); ok && sfIsClockWrite(c, field) {
				found = true
			}
			return true
		})
		return found
	}
	writes := map[string]bool{}
	for name, fd := range methods {
		writes[name] = direct(fd.Body)
	}
	// mentions of `<recv>.g` (called, passed, started with go) inside a node
	mentions := func(n ast.Node, recv string) []string {
		var out []string
		ast.Inspect(n, func(x ast.Node) bool {
			if s, ok := x.(*ast.SelectorExpr); ok {
				if id, ok := s.X.(*ast.Ident); ok && id.Name == recv {
					if _, isM := methods[s.Sel.Name]; isM {
						out = append(out, s.Sel.Name)
					}
				}
			}
			return true
		})
		return out
	}
	for changed := true; changed; {
		changed = false
		for name, fd := range methods {
			if writes[name] {
				continue
			}
			for _, g := range mentions(fd.Body, sfRecvName(fd)) {
				if writes[g] {
					writes[name] = true
					changed = true
					break
				}
			}
		}
	}
	nodeWrites := func(n ast.Node, recv string) bool {
		if direct(n) {
			return true
		}
		for _, g := range mentions(n, recv) {
			if writes[g] {
				return true
			}
		}
		return false
	}
	// ---- registerMsgHandlers: handler expressions, local wrapper literals
	reg := methods["registerMsgHandlers"]
	if reg == nil {
		return nil, fail("%s: (*Control).registerMsgHandlers not found", rel)
	}
	recv := sfRecvName(reg)
	lits := map[string]*ast.FuncLit{}
	info := &sfClockInfo{}
	reachable := map[string]bool{} // methods reachable from a registered handler
	var mark func(name string)
	mark = func(name string) {
		if reachable[name] {
			return
		}
		reachable[name] = true
		if fd := methods[name]; fd != nil {
			for _, g := range mentions(fd.Body, sfRecvName(fd)) {
				mark(g)
			}
		}
	}
	var exprWrites func(e ast.Expr) (bool, string, error)
	exprWrites = func(e ast.Expr) (bool, string, error) { // (may store the clock, handler method name)
		switch h := e.(type) {
		case *ast.SelectorExpr:
			name := sfHandlerName(h)
			if name == "" || methods[name] == nil {
				return false, "", fail("%s: registerMsgHandlers: handler is not a method ctl.handleX", rel)
			}
			mark(name)
			return writes[name], name, nil
		case *ast.FuncLit:
			for _, g := range mentions(h.Body, recv) {
				mark(g)
			}
			return nodeWrites(h.Body, recv), "", nil
		case *ast.CallExpr:
			if len(h.Args) != 1 {
				return false, "", fail("%s: registerMsgHandlers: wrapper with %d arguments", rel, len(h.Args))
			}
			w, name, err := exprWrites(h.Args[0])
			if err != nil {
				return false, "", err
			}
			if sfSelIs(h.Fun, "msg", "AsyncHandler") {
				return w, name, nil
			}
			if id, ok := h.Fun.(*ast.Ident); ok && lits[id.Name] != nil {
				for _, g := range mentions(lits[id.Name].Body, recv) {
					mark(g)
				}
				return w || nodeWrites(lits[id.Name].Body, recv), name, nil
			}
			return false, "", fail("%s: registerMsgHandlers: handler wrapped by something unknown", rel)
		}
		return false, "", fail("%s: registerMsgHandlers: handler has an unknown shape", rel)
	}
	beatHandler := ""
	for _, st := range reg.Body.List {
		if as, ok := st.(*ast.AssignStmt); ok && len(as.Lhs) == 1 && len(as.Rhs) == 1 {
			id, ok1 := as.Lhs[0].(*ast.Ident)
			fl, ok2 := as.Rhs[0].(*ast.FuncLit)
			if ok1 && ok2 {
				lits[id.Name] = fl
				continue
			}
		}
		es, ok := st.(*ast.ExprStmt)
		if !ok {
			return nil, fail("%s: registerMsgHandlers: statement is neither a RegisterHandler call nor a local func literal", rel)
		}
		call, ok := es.X.(*ast.CallExpr)
		if !ok || len(call.Args) != 2 {
			return nil, fail("%s: registerMsgHandlers: unexpected statement", rel)
		}
		if s, ok := call.Fun.(*ast.SelectorExpr); !ok || s.Sel.Name != "RegisterHandler" {
			return nil, fail("%s: registerMsgHandlers: call is not RegisterHandler", rel)
		}
		ty := sfMsgType(call.Args[0])
		if ty == "" {
			return nil, fail("%s: registerMsgHandlers: first argument is not &msg.X{}", rel)
		}
		w, name, err := exprWrites(call.Args[1])
		if err != nil {
			return nil, err
		}
		info.refresh = append(info.refresh, [2]string{ty, sfBool(w)})
		if ty == beatMsg {
			beatHandler = name
		}
	}
	if beatHandler == "" {
		return nil, fail("%s: no plain method registered for %s", rel, beatMsg)
	}
	// ---- the heartbeat handler: position of the first store relative to the rejection branch
	bh := methods[beatHandler]
	brecv := sfRecvName(bh)
	guardIdx, firstWrite := -1, -1
	var guard *ast.IfStmt
	for i, st := range bh.Body.List {
		if is, ok := st.(*ast.IfStmt); ok && is.Else == nil && len(is.Body.List) > 0 {
			if _, isRet := is.Body.List[len(is.Body.List)-1].(*ast.ReturnStmt); isRet {
				guardIdx, guard = i, is
			}
		}
		if firstWrite < 0 && nodeWrites(st, brecv) {
			firstWrite = i
		}
	}
	info.beatWrite = firstWrite >= 0
	info.beatEarly = guardIdx < 0 || (firstWrite >= 0 && firstWrite <= guardIdx)
	if guard != nil {
		for _, st := range bh.Body.List[:guardIdx] {
			ast.Inspect(st, func(x ast.Node) bool {
				if c, ok := x.(*ast.CallExpr); ok {
					if s, ok := c.Fun.(*ast.SelectorExpr); ok {
						if s.Sel.Name == "VerifyPing" {
							info.checks = append(info.checks, "VerifyPing")
						}
						if s.Sel.Name == "Ping" && sfSelIs(s.X, brecv, "pluginManager") {
							info.checks = append(info.checks, "pluginManager.Ping")
						}
					}
				}
				return true
			})
		}
		ast.Inspect(guard.Cond, func(x ast.Node) bool {
			if s, ok := x.(*ast.SelectorExpr); ok && s.Sel.Name == "Error" {
				info.checks = append(info.checks, "Error")
			}
			return true
		})
	}
	sort.Strings(info.checks)
	// ---- every function of the package with a direct store
	var fnames []string
	for n := range files {
		fnames = append(fnames, n)
	}
	sort.Strings(fnames)
	for _, fn := range fnames {
		for _, d := range files[fn].Decls {
			fd, ok := d.(*ast.FuncDecl)
			if !ok || fd.Body == nil || !direct(fd.Body) {
				continue
			}
			w := fn + ":" + fd.Name.Name
			info.writers = append(info.writers, w)
			inCtl := fn == "control.go"
			switch {
			case inCtl && fd.Name.Name == "NewControl" && fd.Recv == nil:
			case inCtl && fd.Name.Name == "registerMsgHandlers":
			case inCtl && sfRecvType(fd) == "Control" && reachable[fd.Name.Name]:
			default:
				info.stray = append(info.stray, w)
			}
		}
	}
	return info, nil
}

// &msg.X{} -> "X"
func sfMsgType(e ast.Expr) string {
	un, ok := e.(*ast.UnaryExpr)
	if !ok {
		return ""
	}
	cl, ok := un.X.(*ast.CompositeLit)
	if !ok {
		return ""
	}
	ty, ok := cl.Type.(*ast.SelectorExpr)
	if !ok {
		return ""
	}
	return ty.Sel.Name
}

func sfStrList(b *strings.Builder, name string, l []string) {
	fmt.Fprintf(b, "def %s : List String := [", name)
	for i, s := range l {
		if i > 0 {
			b.WriteString(", ")
		}
		fmt.Fprintf(b, "%q", s)
	}
	b.WriteString("]\n")
}

func sfHasCall(n ast.Node, pred func(*ast.CallExpr) bool) token.Pos {
	pos := token.NoPos
	ast.Inspect(n, func(x ast.Node) bool {
		if c, ok := x.(*ast.CallExpr); ok && pos == token.NoPos && pred(c) {
			pos = c.Pos()
		}
		return true
	})
	return pos
}

// x.y.z(...) with the last two selectors named a, b
func sfCallSel2(c *ast.CallExpr, a, b string) bool {
	s, ok := c.Fun.(*ast.SelectorExpr)
	if !ok || s.Sel.Name != b {
		return false
	}
	in, ok := s.X.(*ast.SelectorExpr)
	return ok && in.Sel.Name == a
}

func sfTeardown(fset *token.FileSet, repo string, b *strings.Builder) error {
	parse := func(rel string) (*ast.File, error) { return parser.ParseFile(fset, filepath.Join(repo, rel), nil, 0) }
	// ---- client/proxy/proxy_wrapper.go
	pw, err := parse("client/proxy/proxy_wrapper.go")
	if err != nil {
		return err
	}
	stop := sfMethod(pw, "Wrapper", "Stop")
	cw := sfMethod(pw, "Wrapper", "checkWorker")
	cl := sfMethod(pw, "Wrapper", "close")
	if stop == nil || cw == nil || cl == nil {
		return fail("client/proxy/proxy_wrapper.go: (*Wrapper).Stop / checkWorker / close not found")
	}
	stopWaits := false
	ast.Inspect(stop.Body, func(x ast.Node) bool {
		switch n := x.(type) {
		case *ast.UnaryExpr:
			if n.Op == token.ARROW {
				stopWaits = true
			}
		case *ast.SelectStmt:
			stopWaits = true
		case *ast.CallExpr:
			if s, ok := n.Fun.(*ast.SelectorExpr); ok && s.Sel.Name == "Wait" {
				stopWaits = true
			}
		}
		return true
	})
	isMuLock := func(c *ast.CallExpr) bool { return sfCallSel2(c, "mu", "Lock") }
	stopLocks := false
	if len(stop.Body.List) > 0 {
		if es, ok := stop.Body.List[0].(*ast.ExprStmt); ok {
			if c, ok := es.X.(*ast.CallExpr); ok && isMuLock(c) {
				stopLocks = true
			}
		}
	}
	cwLocks := sfHasCall(cw.Body, isMuLock) != token.NoPos
	sleepsFirst := false
	for _, st := range cw.Body.List {
		if _, isFor := st.(*ast.ForStmt); isFor {
			break
		}
		if is, ok := st.(*ast.IfStmt); ok {
			if sfHasCall(is.Body, func(c *ast.CallExpr) bool { return sfSelIs(c.Fun, "time", "Sleep") }) != token.NoPos {
				sleepsFirst = true
			}
		}
	}
	stopSends := sfHasCall(stop.Body, func(c *ast.CallExpr) bool { return sfSelIs(c.Fun, sfRecvName(stop), "close") }) != token.NoPos &&
		sfHasCall(cl.Body, func(c *ast.CallExpr) bool { return sfSelIs(c.Fun, sfRecvName(cl), "handler") }) != token.NoPos
	// ---- pkg/transport/message.go
	tm, err := parse("pkg/transport/message.go")
	if err != nil {
		return err
	}
	snd := sfMethod(tm, "transporterImpl", "Send")
	if snd == nil {
		return fail("pkg/transport/message.go: (*transporterImpl).Send not found")
	}
	hasSend, hasSelect := false, false
	ast.Inspect(snd.Body, func(x ast.Node) bool {
		switch x.(type) {
		case *ast.SendStmt:
			hasSend = true
		case *ast.SelectStmt:
			hasSelect = true
		}
		return true
	})
	if !hasSend {
		return fail("pkg/transport/message.go: Send contains no channel send")
	}
	// ---- pkg/msg/handler.go
	mh, err := parse("pkg/msg/handler.go")
	if err != nil {
		return err
	}
	sl := sfMethod(mh, "Dispatcher", "sendLoop")
	nd := sfMethod(mh, "", "NewDispatcher")
	if sl == nil || nd == nil {
		return fail("pkg/msg/handler.go: sendLoop / NewDispatcher not found")
	}
	stopsOnDone := false
	ast.Inspect(sl.Body, func(x ast.Node) bool {
		cc, ok := x.(*ast.CommClause)
		if !ok || cc.Comm == nil {
			return true
		}
		if es, ok := cc.Comm.(*ast.ExprStmt); ok {
			if u, ok := es.X.(*ast.UnaryExpr); ok && u.Op == token.ARROW {
				if s, ok := u.X.(*ast.SelectorExpr); ok && s.Sel.Name == "doneCh" {
					for _, st := range cc.Body {
						if _, isRet := st.(*ast.ReturnStmt); isRet {
							stopsOnDone = true
						}
					}
				}
			}
		}
		return true
	})
	capacity := -1
	ast.Inspect(nd.Body, func(x ast.Node) bool {
		kv, ok := x.(*ast.KeyValueExpr)
		if !ok {
			return true
		}
		if id, ok := kv.Key.(*ast.Ident); !ok || id.Name != "sendCh" {
			return true
		}
		if c, ok := kv.Value.(*ast.CallExpr); ok {
			if id, ok := c.Fun.(*ast.Ident); ok && id.Name == "make" {
				capacity = 0
				if len(c.Args) == 2 {
					if bl, ok := c.Args[1].(*ast.BasicLit); ok {
						if n, err := strconv.Atoi(bl.Value); err == nil {
							capacity = n
						}
					}
				}
			}
		}
		return true
	})
	if capacity < 0 {
		return fail("pkg/msg/handler.go: NewDispatcher: sendCh: make(chan Message, N) not found")
	}
	// ---- client/control.go worker()
	cc, err := parse("client/control.go")
	if err != nil {
		return err
	}
	wk := sfMethod(cc, "Control", "worker")
	if wk == nil {
		return fail("client/control.go: (*Control).worker not found")
	}
	donePos, closePos, drainPos := token.NoPos, token.NoPos, token.NoPos
	ast.Inspect(wk.Body, func(x ast.Node) bool {
		switch n := x.(type) {
		case *ast.UnaryExpr:
			if n.Op == token.ARROW && donePos == token.NoPos {
				if c, ok := n.X.(*ast.CallExpr); ok {
					if s, ok := c.Fun.(*ast.SelectorExpr); ok && s.Sel.Name == "Done" {
						donePos = n.Pos()
					}
				}
			}
		case *ast.CallExpr:
			if sfCallSel2(n, "pm", "Close") && closePos == token.NoPos {
				closePos = n.Pos()
			}
		case *ast.GoStmt:
			recvFromSendCh := false
			ast.Inspect(n, func(y ast.Node) bool {
				if u, ok := y.(*ast.UnaryExpr); ok && u.Op == token.ARROW {
					if c, ok := u.X.(*ast.CallExpr); ok {
						if s, ok := c.Fun.(*ast.SelectorExpr); ok && s.Sel.Name == "SendChannel" {
							recvFromSendCh = true
						}
					}
				}
				return true
			})
			if recvFromSendCh && drainPos == token.NoPos {
				drainPos = n.Pos()
			}
		}
		return true
	})
	if closePos == token.NoPos {
		return fail("client/control.go: worker() does not call ctl.pm.Close()")
	}
	fmt.Fprintf(b, "def wrapperStopWaits : Bool := %s\n", sfBool(stopWaits))
	fmt.Fprintf(b, "def wrapperStopLocks : Bool := %s\n", sfBool(stopLocks))
	fmt.Fprintf(b, "def checkWorkerLocks : Bool := %s\n", sfBool(cwLocks))
	fmt.Fprintf(b, "def checkWorkerSleepsFirst : Bool := %s\n", sfBool(sleepsFirst))
	fmt.Fprintf(b, "def stopSendsClose : Bool := %s\n", sfBool(stopSends))
	fmt.Fprintf(b, "def transportSendBare : Bool := %s\n", sfBool(hasSend && !hasSelect))
	fmt.Fprintf(b, "def sendLoopStopsOnDone : Bool := %s\n", sfBool(stopsOnDone))
	fmt.Fprintf(b, "def sendChCap : Nat := %d\n", capacity)
	fmt.Fprintf(b, "def workerClosesAfterDone : Bool := %s\n", sfBool(donePos != token.NoPos && donePos < closePos))
	fmt.Fprintf(b, "def workerDrainsSendCh : Bool := %s\n", sfBool(drainPos != token.NoPos && drainPos < closePos))
	return nil
}

func sfClockEmit(b *strings.Builder, side string, ci *sfClockInfo) {
	fmt.Fprintf(b, "def %sClockRefresh : List (String × Bool) :=\n  [", side)
	for i, h := range ci.refresh {
		if i > 0 {
			b.WriteString(",\n   ")
		}
		fmt.Fprintf(b, "(\"%s\", %s)", h[0], h[1])
	}
	b.WriteString("]\n\n")
	fmt.Fprintf(b, "def %sBeatEarly : Bool := %s\n", side, sfBool(ci.beatEarly))
	fmt.Fprintf(b, "def %sBeatRefreshes : Bool := %s\n", side, sfBool(ci.beatWrite))
	sfStrList(b, side+"BeatChecks", ci.checks)
	sfStrList(b, side+"ClockWriters", ci.writers)
	sfStrList(b, side+"ClockStray", ci.stray)
	b.WriteString("\n")
}
