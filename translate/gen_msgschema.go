package main

// Generator MsgSchema: reads pkg/msg/msg.go and emits Frp/Gen/MsgSchema.lean (+ MsgSchema.json):
//   * registry: the (typeByte, structName) pairs of `var msgTypeMap = map[byte]any{ TypeX: X{}, … }`
//     sorted by type byte, the type byte resolved through the `const ( TypeX = 'c' … )` block;
//   * structs: for every struct type reachable from the registry, sorted by name, its fields
//     sorted by JSON name as (goField, jsonName, goType, omitempty) read from the `json:"…"` tag.
// Anything with another shape (computed key, non-char constant, embedded field, missing tag on an
// exported field, key constant not found) is an error.

import (
	"bytes"
	"encoding/json"
	"fmt"
	"go/ast"
	"go/parser"
	"go/printer"
	"go/token"
	"os"
	"path/filepath"
	"reflect"
	"sort"
	"strconv"
	"strings"
)

type fieldInfo struct {
	GoField   string `json:"go_field"`
	JSONName  string `json:"json_name"`
	GoType    string `json:"go_type"`
	OmitEmpty bool   `json:"omitempty"`
}

type structInfo struct {
	Name   string      `json:"name"`
	Fields []fieldInfo `json:"fields"`
}

type regEntry struct {
	TypeByte int    `json:"type_byte"`
	Const    string `json:"const"`
	Struct   string `json:"struct"`
}

func init() { generators["MsgSchema"] = genMsgSchema }

func typeString(fset *token.FileSet, e ast.Expr) string {
	var b bytes.Buffer
	_ = printer.Fprint(&b, fset, e)
	return b.String()
}

func leanStr(s string) string { return strconv.Quote(s) } // Go quoting of ASCII == Lean quoting

func genMsgSchema(repoDir, outDir string) error {
	src := filepath.Join(repoDir, "pkg", "msg", "msg.go")
	fset := token.NewFileSet()
	f, err := parser.ParseFile(fset, src, nil, parser.ParseComments)
	if err != nil {
		return fail("cannot parse %s: %v", src, err)
	}
	consts := map[string]int{}
	var registry []regEntry
	var structs []structInfo
	foundMap := false
	for _, d := range f.Decls {
		gd, ok := d.(*ast.GenDecl)
		if !ok {
			continue
		}
		switch gd.Tok {
		case token.CONST:
			for _, sp := range gd.Specs {
				vs := sp.(*ast.ValueSpec)
				for i, n := range vs.Names {
					if !strings.HasPrefix(n.Name, "Type") {
						continue
					}
					if i >= len(vs.Values) {
						return fail("const %s has no explicit value", n.Name)
					}
					lit, ok := vs.Values[i].(*ast.BasicLit)
					if !ok || lit.Kind != token.CHAR {
						return fail("const %s is not a character literal", n.Name)
					}
					r, _, _, err := strconv.UnquoteChar(lit.Value[1:len(lit.Value)-1], '\'')
					if err != nil || r > 255 {
						return fail("const %s: cannot read char literal %s", n.Name, lit.Value)
					}
					consts[n.Name] = int(r)
				}
			}
		case token.VAR:
			for _, sp := range gd.Specs {
				vs := sp.(*ast.ValueSpec)
				for i, n := range vs.Names {
					if n.Name != "msgTypeMap" {
						continue
					}
					foundMap = true
					if i >= len(vs.Values) {
						return fail("msgTypeMap has no initialiser")
					}
					cl, ok := vs.Values[i].(*ast.CompositeLit)
					if !ok {
						return fail("msgTypeMap initialiser is not a composite literal")
					}
					mt, ok := cl.Type.(*ast.MapType)
					if !ok || typeString(fset, mt.Key) != "byte" {
						return fail("msgTypeMap is not a map[byte]…")
					}
					for _, el := range cl.Elts {
						kv, ok := el.(*ast.KeyValueExpr)
						if !ok {
							return fail("msgTypeMap element is not key: value")
						}
						var tb int
						var cname string
						switch k := kv.Key.(type) {
						case *ast.Ident:
							v, ok := consts[k.Name]
							if !ok {
								return fail("msgTypeMap key %s is not a Type* char constant declared before it", k.Name)
							}
							tb, cname = v, k.Name
						case *ast.BasicLit:
							if k.Kind != token.CHAR {
								return fail("msgTypeMap key %s is not a char", k.Value)
							}
							r, _, _, err := strconv.UnquoteChar(k.Value[1:len(k.Value)-1], '\'')
							if err != nil || r > 255 {
								return fail("msgTypeMap key %s unreadable", k.Value)
							}
							tb, cname = int(r), k.Value
						default:
							return fail("msgTypeMap key has unsupported shape %T", kv.Key)
						}
						vl, ok := kv.Value.(*ast.CompositeLit)
						if !ok {
							return fail("msgTypeMap value for %s is not a composite literal", cname)
						}
						id, ok := vl.Type.(*ast.Ident)
						if !ok || len(vl.Elts) != 0 {
							return fail("msgTypeMap value for %s is not `Struct{}`", cname)
						}
						registry = append(registry, regEntry{TypeByte: tb, Const: cname, Struct: id.Name})
					}
				}
			}
		case token.TYPE:
			for _, sp := range gd.Specs {
				ts := sp.(*ast.TypeSpec)
				st, ok := ts.Type.(*ast.StructType)
				if !ok {
					continue
				}
				si := structInfo{Name: ts.Name.Name, Fields: []fieldInfo{}}
				for _, fl := range st.Fields.List {
					if len(fl.Names) == 0 {
						return fail("struct %s has an embedded field (not translated)", si.Name)
					}
					for _, fn := range fl.Names {
						if !fn.IsExported() {
							continue // invisible to encoding/json
						}
						fi := fieldInfo{GoField: fn.Name, JSONName: fn.Name, GoType: typeString(fset, fl.Type)}
						if fl.Tag != nil {
							raw, err := strconv.Unquote(fl.Tag.Value)
							if err != nil {
								return fail("struct %s field %s: bad tag", si.Name, fn.Name)
							}
							if tag, ok := reflect.StructTag(raw).Lookup("json"); ok {
								parts := strings.Split(tag, ",")
								if parts[0] == "-" && len(parts) == 1 {
									continue
								}
								if parts[0] != "" {
									fi.JSONName = parts[0]
								}
								for _, o := range parts[1:] {
									switch o {
									case "omitempty":
										fi.OmitEmpty = true
									default:
										return fail("struct %s field %s: json option %q not translated", si.Name, fn.Name, o)
									}
								}
							}
						}
						si.Fields = append(si.Fields, fi)
					}
				}
				structs = append(structs, si)
			}
		}
	}
	if !foundMap {
		return fail("anchor `var msgTypeMap` not found in %s", src)
	}
	if len(registry) == 0 {
		return fail("msgTypeMap has no entries")
	}
	byName := map[string]*structInfo{}
	for i := range structs {
		byName[structs[i].Name] = &structs[i]
	}
	// keep only the structs reachable from the registry (through field types), so that an unrelated
	// helper type added to msg.go does not change the wire table; canonical order: registry by type
	// byte, structs by name, fields by JSON name (Go map-literal order, declaration order and JSON
	// object member order carry no protocol meaning).
	reach := map[string]bool{}
	var visit func(name string) error
	visit = func(name string) error {
		if reach[name] {
			return nil
		}
		s, ok := byName[name]
		if !ok {
			return nil
		}
		reach[name] = true
		for _, fi := range s.Fields {
			t := fi.GoType
			for {
				switch {
				case strings.HasPrefix(t, "*"):
					t = t[1:]
				case strings.HasPrefix(t, "[]"):
					t = t[2:]
				case strings.HasPrefix(t, "map[string]"):
					t = t[len("map[string]"):]
				default:
					goto done
				}
			}
		done:
			if err := visit(t); err != nil {
				return err
			}
		}
		return nil
	}
	for _, r := range registry {
		if byName[r.Struct] == nil {
			return fail("msgTypeMap value %s is not a struct declared in msg.go", r.Struct)
		}
		if err := visit(r.Struct); err != nil {
			return err
		}
	}
	var kept []structInfo
	for _, s := range structs {
		if reach[s.Name] {
			sort.SliceStable(s.Fields, func(i, j int) bool { return s.Fields[i].JSONName < s.Fields[j].JSONName })
			kept = append(kept, s)
		}
	}
	structs = kept
	sort.SliceStable(structs, func(i, j int) bool { return structs[i].Name < structs[j].Name })
	sort.SliceStable(registry, func(i, j int) bool { return registry[i].TypeByte < registry[j].TypeByte })

	var b strings.Builder
	b.WriteString("/- GENERATED by translate MsgSchema from pkg/msg/msg.go — do not edit; regenerated on every run. -/\n")
	b.WriteString("namespace Frp.Gen.MsgSchema\n\n")
	b.WriteString("/-- (goField, jsonName, goType, omitempty) -/\n")
	b.WriteString("abbrev Field := String × String × String × Bool\n\n")
	b.WriteString("/-- `msgTypeMap`: (type byte, struct name), sorted by type byte -/\n")
	b.WriteString("def registry : List (Nat × String) :=\n  [ ")
	for i, r := range registry {
		if i > 0 {
			b.WriteString("\n  , ")
		}
		fmt.Fprintf(&b, "(%d, %s)", r.TypeByte, leanStr(r.Struct))
	}
	b.WriteString(" ]\n\n")
	b.WriteString("/-- every struct of msg.go reachable from the registry, sorted by name: (name, fields sorted by JSON name) -/\n")
	b.WriteString("def structs : List (String × List Field) :=\n  [ ")
	for i, s := range structs {
		if i > 0 {
			b.WriteString("\n  , ")
		}
		fmt.Fprintf(&b, "(%s,\n      [", leanStr(s.Name))
		for j, fi := range s.Fields {
			if j > 0 {
				b.WriteString(",\n       ")
			}
			fmt.Fprintf(&b, "(%s, %s, %s, %v)", leanStr(fi.GoField), leanStr(fi.JSONName), leanStr(fi.GoType), fi.OmitEmpty)
		}
		b.WriteString("])")
	}
	b.WriteString(" ]\n\nend Frp.Gen.MsgSchema\n")
	if err := os.MkdirAll(outDir, 0o755); err != nil {
		return err
	}
	if err := writeIfChanged(filepath.Join(outDir, "MsgSchema.lean"), []byte(b.String())); err != nil {
		return err
	}
	js, _ := json.MarshalIndent(map[string]any{"registry": registry, "structs": structs}, "", " ")
	return writeIfChanged(filepath.Join(outDir, "MsgSchema.json"), append(js, '\n'))
}

// keep mtime stable when nothing changed so that `lake build` stays a no-op
func writeIfChanged(path string, data []byte) error {
	if old, err := os.ReadFile(path); err == nil && bytes.Equal(old, data) {
		return nil
	}
	return os.WriteFile(path, data, 0o644)
}
