NOT_BUILT_REASON = "check not built yet in this round (planned in DESIGN.md §6; no technique switch) — not claimed until its model, theorems and tie exist"
HOOK_COMMITS = ["a8ec8bc"]
META = {
    "C06": {
        "engine": "lean+harness(router)",
        "design_ref": "DESIGN.md §6 C06",
        "technique": "Lean 4 invariant + refinement-to-spec proof over all add/del histories; differential correspondence with the real vhost.Routers / getVhost / Muxer.getListener",
        "text": "Proof: for every reachable route table (any history of registrations/removals) and every host, path, user, the modelled lookup returns a registered matching route that is at least as specific (host pattern, then user restriction, then location length) as every other registered matching route, and none iff nothing matches; duplicates are refused leaving the table unchanged; removal affects only the removed triple. Kernel-checked, axioms propext/Classical.choice/Quot.sound only. The model is hand-written and tied to the code by replaying 20k (quick) generated operations per run on the real Routers/HTTPReverseProxy/Muxer and on the model, with the Lean property predicate evaluated on the implementation's own answers.",
        "note": "Trusted: Lean kernel; the hand-written model of router.go/getVhost/getListener/CanonicalHost and the correspondence harness generators (ASCII hosts; non-ASCII skipped and counted). Not covered by the theorem: reuse of pooled keep-alive backend connections across re-registration (net/http Transport), the golib mux dispatch when the vhost port is shared with the control port.",
    },
}
