NOT_BUILT_REASON = "check not built yet in this round (planned in DESIGN.md §6; no technique switch) — not claimed until its model, theorems and tie exist"
HOOK_COMMITS = ["a8ec8bc", "7940221", "8e91bb8", "7833f85", "8231a69", "4de7b06", "9feb3d7", "6bf0c0c", "75a0848"]
FIX_COMMITS = ["015f090", "41db3ad", "75a9f5a", "4587203", "e4ec556", "eab68f8", "e97ad21", "9437e84", "8556715", "5c99d8a", "cada90e", "305e9a5", "f51e354", "8d80cd3", "b3dd5ae", "7ed0301"]
# properties that are deliberately not claimed, with the reason (overrides NOT_BUILT_REASON)
NA_REASONS = {}
