#!/usr/bin/env python3
"""resolve_design.py <ID>: DESIGN.md §0.2 row conflicts after merging a builder's workspace: keep our rows, take the builder's row for <ID>."""
import re, sys
pid = sys.argv[1]
p = '/verif/DESIGN.md'; s = open(p).read()
def fix(m):
    ours = m.group(1).splitlines(); th = m.group(2).splitlines()
    tmap = {l.split('|')[1].strip(): l for l in th if l.startswith('| C')}
    out = [(tmap.get(pid, l) if l.startswith('| %s ' % pid) else l) for l in ours]
    return '\n'.join(out) + '\n'
s, n = re.subn(r'<<<<<<< ours\n(.*?)=======\n(.*?)>>>>>>> theirs\n', fix, s, flags=re.S)
open(p, 'w').write(s); print('resolved', n)
