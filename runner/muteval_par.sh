#!/bin/bash
# muteval_par.sh <what> <prefix...>: one parallel slot per prefix (private copy of /verif + scratch worktree each),
# results merged into runner/matrix.json. Never touches /repo or /verif's build.
what=$1; shift
cd /verif
base=${MUT_SLOT_BASE:-0}; i=$base
for p in "$@"; do i=$((i+1)); ( MUT_SLOT=$i python3 runner/muteval.py $what ${p//,/ } > /tmp/mv_$i.log 2>&1 ) & done
wait
python3 - "$base" "$i" <<'PY'
import json,sys,os
m=json.load(open('/verif/runner/matrix.json')) if os.path.exists('/verif/runner/matrix.json') else {}
for i in range(int(sys.argv[1])+1,int(sys.argv[2])+1):
    f='/tmp/mv_%d/matrix.json'%i
    if os.path.exists(f): m.update(json.load(open(f)))
json.dump(m,open('/verif/runner/matrix.json','w'),indent=1,sort_keys=True)
PY
for j in $(seq $((base+1)) $i); do cat /tmp/mv_$j.log; rm -rf /tmp/mv_$j /tmp/mv_$j.log; done
