#!/usr/bin/env python3
"""merge_strengthen.py <ID> [base]: bring the commits a strengthening builder made in /tmp/s_<ID>/verif into /verif.

The builder's workspace is a copy of /verif including .git; everything it committed (and anything still
uncommitted) relative to <base> (default: the merge-base with /verif's HEAD found by commit id) is applied
with a 3-way `git apply`, leaving out files that are generated or rewritten per run (MANIFEST.json,
evidence/, harness/go.sum, harness/go.mod). Nothing is committed here; look at `git status`, run the checks,
then commit.
"""
import subprocess, sys
pid = sys.argv[1]
W = "/tmp/s_%s/verif" % pid
V = "/verif"


def out(cmd, cwd):
    return subprocess.run(cmd, cwd=cwd, stdout=subprocess.PIPE, stderr=subprocess.STDOUT, text=True).stdout


if len(sys.argv) > 2:
    base = sys.argv[2]
else:
    ours = set(out(["git", "rev-list", "HEAD"], V).split())
    base = next(c for c in out(["git", "rev-list", "HEAD"], W).split() if c in ours)
print("base", base)
subprocess.run(["git", "add", "-A"], cwd=W)
diff = subprocess.run(["git", "diff", "--cached", "--binary", base, "--", ".", ":!MANIFEST.json", ":!evidence",
                       ":!harness/go.sum", ":!harness/go.mod"], cwd=W, stdout=subprocess.PIPE).stdout
open("/tmp/s_%s/merge.diff" % pid, "wb").write(diff)
print(out(["git", "apply", "--stat", "/tmp/s_%s/merge.diff" % pid], V))
p = subprocess.run(["git", "apply", "-3", "/tmp/s_%s/merge.diff" % pid], cwd=V, stdout=subprocess.PIPE, stderr=subprocess.STDOUT, text=True)
print(p.stdout)
print("rc", p.returncode)
