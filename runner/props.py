"""Per-property configuration of ./check (what to regenerate, which theorems, which engines)."""

COMMON_TRUST = [
    "correspondence harness /verif/harness (generators, canonicalisation) links /repo with -tags verif",
    "Lean compiler for *running* the model in the driver (not for the theorems)",
]


def router_nontrivial(tok, res):
    if tok[0] in ("get", "mget"):
        return res != "none"
    if tok[0] in ("add", "madd"):
        return res == "conflict"
    return False


PROPS = {
    "C06": {
        "level": "proof",
        "gens": [],
        "theorems": [
            "Frp.C06.inv_reachable", "Frp.C06.get_longest", "Frp.C06.get_none",
            "Frp.C06.getVhost_some", "Frp.C06.getVhost_none", "Frp.C06.getVhost_case",
            "Frp.C06.add_conflict_iff", "Frp.C06.add_conflict_unchanged", "Frp.C06.add_ok_mem",
            "Frp.C06.del_mem", "Frp.C06.del_get_other", "Frp.C06.del_not_returned",
            "Frp.C06.wildLevels_eq", "Frp.C06.holdsOn_sound", "Frp.C06.model_holdsOn",
        ],
        "engines": [
            {"name": "router", "quick_n": 20000, "thorough_n": 100000, "thorough_seeds": 6,
             "nontrivial": router_nontrivial,
             "result_class": lambda r: "hit" if r.isdigit() else r[:10]},
        ],
        "rule": "router engine: generated add/del/get histories over an overlap-rich alphabet; a case is "
                "non-trivial when a lookup returns a route or a registration is refused as duplicate; "
                "distinct = distinct (op line, result) pairs",
        "trusted": COMMON_TRUST + [
            "model Frp/Model/Router.lean, Frp/Model/Host.lean written by hand; tied by the router engine "
            "(real vhost.Routers via HTTPReverseProxy.Register/UnRegister/GetRouteConfig and vhost.Muxer.Listen/getListener, CanonicalHost)",
        ],
        "assumptions": [
            "strings.ToLower is modelled for ASCII only; non-ASCII hosts are counted and skipped",
            "keep-alive reuse of pooled backend connections is not covered by the router model",
        ],
    },
}
