#!/usr/bin/env python3
"""
muteval.py [mutants|seeded|all] [ID-prefix ...]     detection matrix of the own mutant suite and the seeded changes

Never touches /repo: every patch is applied in a scratch worktree ($MUT_REPO, default /tmp/muteval_repo, created
from /repo's HEAD and removed at the end) and the checks run with VERIF_REPO pointing at it.
For mutants/<P>-name.patch the property is the file name's prefix; for seeded/<P>-<k>/patch.diff it is <P> plus
whatever meta.json lists under "checks". Result: runner/matrix.json + a table on stdout.
"""
import glob, json, os, re, subprocess, sys, time

HOME = os.path.dirname(os.path.dirname(os.path.abspath(__file__)))
SLOT = os.environ.get("MUT_SLOT")            # parallel slot: checks run in a private copy of /verif
V = "/tmp/mv_%s/verif" % SLOT if SLOT else HOME
MUT = os.environ.get("MUT_REPO", "/tmp/mv_%s/repo" % SLOT if SLOT else "/tmp/muteval_repo")
TIER = os.environ.get("MUT_TIER", "quick")


def sh(cmd, cwd=None, env=None, timeout=7200):
    p = subprocess.run(cmd, cwd=cwd, env=env, stdout=subprocess.PIPE, stderr=subprocess.STDOUT, text=True,
                       errors="replace", timeout=timeout)
    return p.returncode, p.stdout


def main():
    what = sys.argv[1] if len(sys.argv) > 1 else "all"
    if SLOT:
        os.makedirs("/tmp/mv_%s" % SLOT, exist_ok=True)
        sh(["rsync", "-a", "--delete", "--exclude", ".work/sweep", HOME + "/", V + "/"])
        if os.path.exists("/tmp/mv_%s/matrix.json" % SLOT):
            os.remove("/tmp/mv_%s/matrix.json" % SLOT)
    pref = sys.argv[2:]
    items = []
    if what in ("mutants", "all"):
        for f in sorted(glob.glob(os.path.join(V, "mutants", "*.patch"))):
            pid = os.path.basename(f).split("-")[0]
            items.append((os.path.basename(f)[:-6], f, [pid]))
    if what in ("seeded", "all"):
        for d in sorted(glob.glob(os.path.join(V, "seeded", "*"))):
            f = os.path.join(d, "patch.diff")
            if not os.path.exists(f):
                continue
            # a change cut against an older HEAD that a later fix: commit touched was re-created by hand on HEAD
            if os.path.exists(os.path.join(d, "patch-rebased.diff")):
                f = os.path.join(d, "patch-rebased.diff")
            pid = os.path.basename(d).split("-")[0]
            props = [pid]
            try:
                for c in json.load(open(os.path.join(d, "meta.json"))).get("checks", {}):
                    c = c.split(":")[0]
                    if c not in props:
                        props.append(c)
            except Exception:
                pass
            items.append(("seeded/" + os.path.basename(d), f, props))
    if pref:
        items = [i for i in items if any(i[0].startswith(p) or i[0].startswith("seeded/" + p) for p in pref)]
    sys.path.insert(0, os.path.join(V, "runner"))
    from props import PROPS
    head = sh(["git", "-C", "/repo", "rev-parse", "HEAD"])[1].strip()
    sh(["git", "-C", "/repo", "worktree", "remove", "--force", MUT])
    rc, o = sh(["git", "-C", "/repo", "worktree", "add", "--detach", MUT, head])
    if rc != 0:
        sys.exit("cannot create scratch worktree: " + o)
    mpath = os.path.join(V, "runner", "matrix.json") if not SLOT else "/tmp/mv_%s/matrix.json" % SLOT
    matrix = json.load(open(mpath)) if os.path.exists(mpath) else {}
    env = dict(os.environ, VERIF_REPO=MUT)
    try:
        for name, patch, props in items:
            sh(["git", "reset", "--hard", "-q", head], cwd=MUT); sh(["git", "clean", "-fdq"], cwd=MUT)
            rc, o = sh(["git", "apply", patch], cwd=MUT)
            if rc != 0:
                rc, o = sh(["git", "apply", "-3", patch], cwd=MUT)
                if rc != 0 or "<<<<<<<" in sh(["git", "diff"], cwd=MUT)[1]:
                    rc = 1
                    sh(["git", "reset", "--hard", "-q", head], cwd=MUT)
            if rc != 0:
                matrix[name] = {"applies": False, "note": o[-300:]}
                print("%-45s does not apply to HEAD" % name); continue
            row = {"applies": True, "head": head[:7], "checks": {}}
            for p in props:
                if p not in PROPS:
                    row["checks"][p] = {"detected": None, "note": "check not built"}; continue
                t0 = time.time()
                rc, o = sh(["./check", p, TIER], cwd=V, env=env)
                vio = [l for l in o.splitlines() if l.startswith("VIOLATION")]
                row["checks"][p] = {"detected": rc == 1 and bool(vio), "rc": rc, "lines": [l[:200] for l in vio][:3],
                                    "concrete_replay": bool(vio) and not any("no-failing-input-found" in l for l in vio),
                                    "wall_s": round(time.time() - t0, 1)}
            matrix[name] = row
            print("%-45s %s" % (name, "  ".join("%s:%s" % (p, "DETECTED" + ("" if r.get("concrete_replay") else "(nfi)") if r["detected"] else ("-" if r["detected"] is None else "missed")) for p, r in row["checks"].items())), flush=True)
            json.dump(matrix, open(mpath, "w"), indent=1, sort_keys=True)
    finally:
        sh(["git", "-C", "/repo", "worktree", "remove", "--force", MUT])
        if not SLOT:    # leave /verif's generated files and harness built from /repo again
            sh(["./check", "--setup"], cwd=V)


if __name__ == "__main__":
    main()
