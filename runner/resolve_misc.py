#!/usr/bin/env python3
"""resolve_misc.py: union-resolve the registry conflicts after merging a builder's workspace
(lean/Frp.lean, lean/Frp/Engines/All.lean: keep both sides; KNOWN_FINDINGS.json: keep both lists of entries)."""
import re, json
for p in ['/verif/lean/Frp/Engines/All.lean', '/verif/lean/Frp.lean']:
    s = open(p).read()
    s2 = re.sub(r'<<<<<<< ours\n(.*?)=======\n(.*?)>>>>>>> theirs\n', lambda m: m.group(1) + m.group(2), s, flags=re.S)
    if s2 != s:
        open(p, 'w').write(s2); print('resolved', p)
p = '/verif/KNOWN_FINDINGS.json'; s = open(p).read()
m = re.search(r'<<<<<<< ours\n(.*?)=======\n(.*?)>>>>>>> theirs\n', s, re.S)
if m:
    ours = m.group(1).rstrip('\n'); th = m.group(2)
    for sep in ['\n  },\n  {\n', '\n  ,\n', '\n']:
        t = s[:m.start()] + ours + sep + th + s[m.end():]
        try:
            json.loads(t); open(p, 'w').write(t); print('resolved', p); break
        except Exception as e:
            pass
    else:
        print('COULD NOT resolve', p)
