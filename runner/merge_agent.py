#!/usr/bin/env python3
"""merge_agent.py <ID>: copy an agent workspace's new files into /verif and merge the shared registries."""
import json, os, re, shutil, sys
pid = sys.argv[1]
W = "/tmp/w_%s/verif" % pid
V = "/verif"
SHARED = {"KNOWN_FINDINGS.json", "MANIFEST.json", "check", "lean/Frp.lean", "lean/Frp/Engines/All.lean",
          "harness/go.mod", "harness/go.sum", "translate/main.go", "translate/go.mod", "docs/AGENT_BRIEF.md",
          "docs/CONVENTIONS.md", "DESIGN.md", "properties.jsonl", ".gitignore", "lean/lakefile.toml", "lean/Driver.lean"}
copied = []
for dp, dn, fs in os.walk(W):
    rel = os.path.relpath(dp, W)
    if rel.startswith(("lean/.lake", ".work", "replays", "evidence", "runner/__pycache__", "runner/props/__pycache__")):
        continue
    for f in fs:
        r = os.path.normpath(os.path.join(rel, f))
        if r in SHARED or r.endswith(".pyc"):
            continue
        src, dst = os.path.join(W, r), os.path.join(V, r)
        if os.path.exists(dst) and open(src, "rb").read() == open(dst, "rb").read():
            continue
        if os.path.exists(dst):
            print("DIFFERS (not overwritten):", r)
            continue
        os.makedirs(os.path.dirname(dst), exist_ok=True)
        shutil.copy2(src, dst)
        copied.append(r)
print("copied:", copied)
# merge registries: union of lines
def merge_lines(rel, pat):
    a = open(os.path.join(V, rel)).read()
    b = open(os.path.join(W, rel)).read()
    new = [l for l in b.splitlines() if re.match(pat, l) and l not in a.splitlines()]
    return a, new
a, new = merge_lines("lean/Frp.lean", r"import ")
if new:
    open(os.path.join(V, "lean/Frp.lean"), "w").write(a.rstrip("\n") + "\n" + "\n".join(new) + "\n")
    print("Frp.lean +", new)
a, new = merge_lines("lean/Frp/Engines/All.lean", r"import ")
a2, newreg = merge_lines("lean/Frp/Engines/All.lean", r"\s*,\s*\(\"")
if new or newreg:
    lines = a.splitlines()
    li = max(i for i, l in enumerate(lines) if l.startswith("import "))
    lines[li + 1:li + 1] = new
    ri = max(i for i, l in enumerate(lines) if re.match(r"\s*[\[,]\s*\(\"", l))
    lines[ri + 1:ri + 1] = newreg
    open(os.path.join(V, "lean/Frp/Engines/All.lean"), "w").write("\n".join(lines) + "\n")
    print("All.lean +", new, newreg)
ka = json.load(open(os.path.join(V, "KNOWN_FINDINGS.json")))
kb = json.load(open(os.path.join(W, "KNOWN_FINDINGS.json")))
ids = {e["id"] for e in ka["findings"]}
for e in kb["findings"]:
    if e["id"] not in ids:
        ka["findings"].append(e); print("finding +", e["id"])
json.dump(ka, open(os.path.join(V, "KNOWN_FINDINGS.json"), "w"), indent=1)
