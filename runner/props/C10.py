from props import COMMON_TRUST


def nontrivial(tok, res):
    if tok[0] == "reg":
        return True
    if tok[0] == "view":
        return res != "http[]https[]tcpmux[]visitor[]nathole[]names[]"
    return tok[0] == "endsess"


PROP = {
    "level": "proof",
    "gens": [],
    "theorems": [
        "Frp.C10.inv_reachable", "Frp.C10.register_conflict_restores", "Frp.C10.register_exists_unchanged",
        "Frp.C10.close_spec", "Frp.C10.close_releases", "Frp.C10.close_foreign_noop",
        "Frp.C10.register_close_roundtrip", "Frp.C10.reregister_after_close", "Frp.C10.retry_after_failure",
        "Frp.C10.sessionEnd_spec", "Frp.C10.sessionEnd_frees_names",
        "Frp.C10.port_released_on_close", "Frp.C10.port_kept_on_failure",
        # concurrent registrations of several sessions, quota counter (Frp/Model/RegSteps.lean)
        "Frp.C10.Conc.inv_reachable", "Frp.C10.Conc.quota_exact_idle", "Frp.C10.Conc.begin_refused_unchanged",
        "Frp.C10.Conc.step_failure_releases", "Frp.C10.Conc.run_conflict_restores", "Frp.C10.Conc.close_spec",
        "Frp.C10.Conc.sessionEnd_spec", "Frp.C10.Conc.retry_succeeds", "Frp.C10.Conc.quiescent_clean",
        "Frp.C10.Conc.accounted_sound",
        # work connections of http / udp proxies: close propagation (over C01's close graphs) and lifecycle
        # (Frp/Model/WorkConns.lean, Frp/Props/C10Xport.lean)
        "Frp.C10.Xport.http_workconn_closed_once", "Frp.C10.Xport.udp_workconn_closed", "Frp.C10.Xport.reached_spec",
        "Frp.C10.Xport.reached_pos", "Frp.C10.Xport.var_capture_never_closes",
        "Frp.C10.Xport.var_capture_harmless_without_limit", "Frp.C10.Xport.reached_current",
        "Frp.C10.Xport.winv_reachable", "Frp.C10.Xport.released_closed", "Frp.C10.Xport.idle_all_closed",
        "Frp.C10.Xport.session_end_closes",
        # UDPProxy.Close racing its own reader (Frp/Model/UdpCloseRace.lean): defect witness, bound, repaired clause
        "Frp.C10.Xport.late_workconn_witness", "Frp.C10.Xport.late_workconn_full_fails",
        "Frp.C10.Xport.late_workconn_bound", "Frp.C10.Xport.repaired_no_late_workconn",
        # session end racing the session's own registration (Frp/Model/SessDrop.lean, Frp/Props/C10Drop.lean)
        "Frp.C10.Drop.dinv_reachable", "Frp.C10.Drop.drop_idle_spec", "Frp.C10.Drop.drop_pending_unchanged",
        "Frp.C10.Drop.gone_clean", "Frp.C10.Drop.gone_within_two", "Frp.C10.Drop.quiescent_empty",
        # http proxies with and without a load-balancing group under sessions (Frp/Model/GroupRelease.lean over
        # C06's Frp/Model/VhostReg.lean; Frp/Lemmas/GroupRelease.lean, Frp/Props/C10Group.lean)
        "Frp.C10.Group.ginv_reachable", "Frp.C10.Group.table_eq_live_reachable", "Frp.C10.Group.routes_eq_live",
        "Frp.C10.Group.members_eq_live", "Frp.C10.Group.register_ok_of_can", "Frp.C10.Group.can_register_of_sublive",
        "Frp.C10.Group.reregister_after_close", "Frp.C10.Group.reregister_after_session_end",
        "Frp.C10.Group.register_refused_unchanged", "Frp.C10.Group.refused_keeps_routes", "Frp.C10.Group.close_owner",
        "Frp.C10.Group.close_foreign_noop", "Frp.C10.Group.sessionEnd_owner", "Frp.C10.Group.quiescent_clean",
    ],
    "extra_targets": ["Frp.Props.C10Xport", "Frp.Props.C10Drop", "Frp.Props.C10Group"],
    "engines": [
        {"name": "release", "quick_n": 6000, "thorough_n": 30000, "thorough_seeds": 5,
         "nontrivial": nontrivial,
         "result_class": lambda r: "view" if r.startswith("http[") else r[:14]},
        {"name": "grprel", "quick_n": 4000, "thorough_n": 20000, "thorough_seeds": 5,
         "nontrivial": lambda tok, res: tok[0] in ("reg", "race", "endsess")
         or (tok[0] == "view" and res != "http[]names[]groups[]"),
         "result_class": lambda r: "view" if r.startswith("http[") else r[:14]},
        {"name": "ports", "quick_n": 2000, "thorough_n": 10000, "thorough_seeds": 3,
         "nontrivial": lambda tok, res: tok[0] == "reg",
         "result_class": lambda r: "view" if r.startswith("tcp[") else r.split(":")[0]},
        {"name": "regrace", "quick_n": 6000, "thorough_n": 30000, "thorough_seeds": 5,
         "nontrivial": lambda tok, res: (tok[0] in ("begin", "step") and res not in ("noflight", "busy"))
         or (tok[0] == "view" and res != "tcp[]udp[]http[]visitor[]names[]quota[1=0,2=0,3=0]"),
         "result_class": lambda r: "view" if r.startswith("tcp[") else r[:14]},
        {"name": "xport", "quick_n": 320, "thorough_n": 1600, "thorough_seeds": 3,
         "nontrivial": lambda tok, res: (tok[0] in ("req", "drop") and "c=-" not in res and res != "none")
         or (tok[0] == "census" and res != "idle=0") or tok[0] == "udpx" and res == "got=1",
         "result_class": lambda r: "census" if "idle=" in r else r[:14]},
        {"name": "xprace", "quick_n": 2, "thorough_n": 12, "thorough_seeds": 2,
         "nontrivial": lambda tok, res: tok[0] == "closerace",
         "result_class": lambda r: r[:14]},
    ],
    "rule": "release engine: generated histories of register (http with several domains x locations, https, "
            "tcpmux, stcp, sudp, xtcp; duplicate and conflicting routes so that registrations fail at the 1st, "
            "2nd, ... claim; duplicate names) / close (own and foreign session) / session end (control "
            "connection dropped, waits for Control.worker) through the real Control on a hand-assembled "
            "ResourceController; `view` dumps all route tables, visitor and NAT-hole listener tables and the "
            "proxy name table. ports engine: the same for tcp/udp ports (see C09). regrace engine: registrations of "
            "3 sessions run CONCURRENTLY through the real Control.RegisterProxy (tcp/udp on explicit ports, http, "
            "stcp; MaxPortsPerClient 0..3), parked at the gates reg.checked / reg.ran and released one section "
            "at a time in generated interleavings (free mix; name races: 2..3 sessions register the same name at "
            "once, then the owners close and the registrations are re-submitted verbatim), plus close / session "
            "end; every failure step is hit (quota, exists, conflict inside Run, name taken at Add); `view` dumps "
            "port tables, routes, visitor listeners, name table with owners and every session's quota counter "
            "(Control.portsUsedNum); each answer is also judged on a record built from the implementation's own "
            "answers (tables and counters = what the record accounts for — nothing of an ended session —; every refusal "
            "justified by it). xport engine: real http proxies (custom domain) behind a real http.Server + "
            "vhost.HTTPReverseProxy and real udp proxies (server-chosen port) of two real Control sessions, all 8 "
            "combinations of useEncryption / useCompression / server-side bandwidth limit; the harness is frpc: it answers "
            "every ReqWorkConn with a loopback TCP work connection (Control.RegisterWorkConn) whose frps end COUNTS the "
            "Close() calls reaching it, reads StartWorkConn, mirrors the client stack and plays the backend; exchanges "
            "ending in six ways (Content-Length + Connection: close; body ended by EOF; keep-alive then idle close by the "
            "backend; 101 upgrade + echo; CONNECT + echo through io.Join; user aborts an unanswered request), datagrams "
            "echoed through the udp work connection, udp work connections dropped by frpc (replacement), close by owner / "
            "foreign session, re-registration, session end; every answer carries what reached the work connection within a "
            "bounded wait (0 / 1 / n / + for a stack without close-once wrapper) and `census` lists every work connection "
            "ever handed to a proxy plus pooled ones of ended sessions; judged on the implementation's own answer: let-go "
            "connections closed, exactly once when guarded. xprace engine: k udp proxies closed explicitly while frpc keeps "
            "their work connections: does frps take a work connection for a closed proxy and leave it open (known finding "
            "C10-udp-close-late-workconn, relational). grprel engine: http proxies with and without a load-balancing group "
            "(custom domains in several spellings, subdomain, locations, route user, 3 group names, several keys) of three "
            "real Control sessions on the release engine's ResourceController: fresh configurations, configurations "
            "derived from a LIVE proxy that differ in exactly one respect (identical = fellow member, wrong key, other "
            "domain / spelling, other location, other route user, a second domain / location / subdomain of a grouped "
            "proxy, same route in another group or without group, name taken), verbatim re-submission of registrations "
            "whose proxy was closed or whose session ended (same / other session), close by owner / foreign session, "
            "session end, and `race`: CloseProxy is started and HELD inside vhost.Routers.Del (the harness keeps a read "
            "lock on the route table, as a request being routed does; event: a pending writer refuses TryRLock), "
            "RegisterProxy of another session is started, the lock is dropped once the registration passed the gate "
            "httpgroup.register.lookedup or after 10 ms — the join racing the leave of the last member; either order may "
            "take effect (relational); `view` dumps the http route table, the name table and HTTPGroupController.groups "
            "(members per group, by reflection); judged on the implementation's own answers: a refusal must be justified "
            "by a live proxy (C10.Group.CanRegister), route table and group table = what the proxies it lists as live "
            "stand for. "
            "Non-trivial = every registration attempt / section, session end and non-empty view; distinct = "
            "distinct (op line, result)",
    "trusted": COMMON_TRUST + [
        "models Frp/Model/Release.lean and Frp/Model/Ports.lean written by hand; tied by the release and ports engines",
        "read-only dump hooks (tag verif): vhost.Routers/Muxer.VerifDump, visitor.Manager.VerifNames, "
        "proxy.Manager.VerifNames, nathole.Controller.VerifClients, ports.Manager.VerifDump",
        "model Frp/Model/RegSteps.lean written by hand; tied by the regrace engine through the gates reg.checked / "
        "reg.ran / reg.added (verifhook, tag verif) and proxy.Manager.VerifDump; Control.portsUsedNum is read through reflection",
        "models Frp/Model/SessDrop.lean (Dispatcher.readLoop runs handleNewProxy synchronously, so worker's teardown follows "
        "the registration), Frp/Model/WorkConns.lean (lifecycle bookkeeping of top closes; graphs from C01's "
        "Frp/Model/CloseGraph.lean) and Frp/Model/UdpCloseRace.lean written by hand; tied by the regrace / xport / xprace engines",
        "model Frp/Model/GroupRelease.lean (sessions over C06's hand-written Frp/Model/VhostReg.lean: HTTPGroupController.Register / "
        "UnRegister and Routers.Add / Del are one critical section each, so a close and a registration running at the same "
        "time take effect in one of the two orders); tied by the grprel engine; HTTPGroupController.groups / pxyNames / "
        "createFuncs and Routers.mutex are reached through reflect + unsafe (field names of the linked tree); gate "
        "httpgroup.register.lookedup (verifhook, tag verif) is observed, not parked at",
        "xport: the scripted frpc end (stack mirrored with golib's real WithEncryption / WithCompression) and the counting "
        "net.Conn handed to Control.RegisterWorkConn; bounded waits of 1.5 s for a close that must happen",
    ],
    "assumptions": [
        "goroutine / file-descriptor footprint over repeated cycles is not measured by this check (runtime, not logic)",
        "release of tcp / tcpmux group membership is covered by C13's model (tcp groups' ports: Ports model, ports engine; http "
        "groups: here, Frp/Props/C10Group.lean + grprel); grprel schedules ONE window of the close (inside Routers.Del, where the "
        "last member's leave and a plain proxy's close both pass) against a whole registration, not every pair of lock sections; pooled "
        "work connections by C11's (xport only counts pooled connections of ended sessions still open); idle backend "
        "connections of the HTTP transport by C02's (xport ends every exchange so that the connection is not kept idle); "
        "close graphs of the tcp-like proxy types, the client side and the visitor leg by C01's",
        "xport: a udp proxy is closed / its session ended only after its current work connection is attached (it carried a "
        "datagram): the window between StartWorkConn and the unsynchronised assignment of pxy.workConn is not scheduled "
        "(no gate there); a work connection frps takes for an already closed udp proxy is closed by the frpc end as the "
        "real frpc does — that defect is exhibited separately by xprace (KNOWN_FINDINGS C10-udp-close-late-workconn)",
        "registration and closure of one session are sequential (Control handles its messages one at a time); "
        "registrations of DIFFERENT sessions interleave section by section (quota+Exist | Run | Add): the "
        "cross-session name race is inside this check, and so is session end while the session's own RegisterProxy "
        "is parked between two sections (SessDrop); a new login replacing the session at that moment is C12's",
        "regrace: ports are requested explicitly and nobody else binds them (the port manager with random "
        "ports and foreign sockets is the ports engine's)",
    ],
}

META = {
    "engine": "lean+harness(release, grprel, ports, regrace, xport, xprace)",
    "design_ref": "DESIGN.md §6 C10",
    "technique": "Lean 4 invariant + exact-state theorems (register∘close = id; failed registration = id; session end = filter; deferred session end; close-graph counts) over all histories / schedules + differential correspondence with the real Control / ResourceController tables and counted work connections of real http / udp proxies",
    "text": "Proof: in the model of the server's exclusive-key tables (http/https/tcpmux routes, visitor and NAT-hole listeners, proxy names) and of the port manager, for every reachable state: a registration that conflicts at any claim leaves the state exactly as before; explicit close removes exactly the closing proxy's keys and only for the owning session; register followed by close is the identity on the whole state (no table growth, identical re-registration succeeds on any session); session end removes exactly the keys and names of that session's proxies and nothing of other sessions; ports are free immediately after close and all accounting is unchanged by a failed registration (C09 theorems). For registrations of several sessions running concurrently (small-step model: quota charge + Exist | Run | Add, every interleaving by induction over op lists): tables stay consistent and every session's quota counter equals the ports of what it owns plus its registration in flight; a registration failing at Run or at Add (name taken concurrently) leaves no key, no name and no quota charge behind and touches no other holder or counter; an immediately refused one changes nothing; close and session end give back exactly the proxy's / session's keys, names and ports; the identical registration submitted afterwards goes through all sections whenever name and keys are free and the ports fit on top of what the session really owns; with no proxy and no registration left all tables are empty and all counters 0. When a session's control connection drops while its own registration is parked between two sections (every schedule): nothing changes until the registration returned, the teardown then runs within at most two more sections and leaves nothing of the session — no proxy, name, key, flight, counter 0 — whatever the registration's outcome, other sessions untouched; no teardown is pending once no registration is in flight. Work connections of http and udp proxies (the two types whose only handle is the top of the wrapper stack; close graphs from C01): for every combination of encryption, compression and server-side limit and any number k ≥ 1 of Close() calls on the top, the work connection is closed exactly once (udp without any wrapper: every call reaches it); the stack whose limiter closure reads the reassigned variable never closes it under a server-side limit; for every history of register / exchange / take / I-O error / close / session end every connection a proxy let go of is closed (exactly once when guarded), a connection still current belongs to a live udp proxy of the same session, and with no proxy left every connection ever handed out is closed. Http proxies with and without a load-balancing group under sessions (model of HTTPProxy.Run / Close, HTTPGroupController, HTTPGroup and Routers, every history of register / close / session end with arbitrary configurations): the route table is exactly the set of routes the live proxies' configurations stand for and the members of every group are exactly the live proxies configured for it; a refused registration (name taken, route conflict at any route, wrong key, other domain / location / route user, repeated member, second route of a grouped proxy) leaves live proxies, routes and memberships as they were; a registration goes through whenever no LIVE proxy stands against it (name free; without group: its routes distinct and held by no live proxy; with group: one route, and either no live member and the route free, or all live members have that route, route user and key) — so after close by the owner and after session end the identical registration succeeds on any session, whatever was refused, closed or left in the group table before; with no live proxy left there is no route, no member, no running instance. DEFECT (known finding, witness + bound + repaired clause proved): UDPProxy.Close can be overtaken by its own reader goroutine, frps then installs one more work connection on the closed proxy and leaves it open. Partial: runtime footprint (goroutines, descriptors) and the resources modelled by C01/C02/C11/C13 are outside this check. Tie: 6000+4000+2000+6000 generated ops per quick run on the real code with full table (and quota counter) dumps, plus 320 xport ops (about 20 scenarios of real http/udp proxies with counted work connections) and the udp close race.",
    "note": "Trusted: Lean kernel; hand-written models; release/ports/regrace/xport/xprace engines (scripted frpc end, counting work connections, bounded waits; grprel: reflection on the group controller, read lock on the route table), the verif dump hooks and the reg.checked/reg.ran/reg.added gates. Known finding: C10-udp-close-late-workconn (repair proposed in hooks/C10-fix-udp-late-workconn.patch). Not covered here: goroutine/fd footprint, tcp / tcpmux group membership (C13), pooled work connections of live sessions (C11), idle HTTP backend connections (C02), close graphs of the tcp-like types / client / visitor leg (C01), a close inside the hand-over window of a udp work connection.",
}
