from props import COMMON_TRUST


def nontrivial(tok, res):
    if tok[0] == "reg":
        return True
    if tok[0] == "view":
        return res != "http[]https[]tcpmux[]visitor[]nathole[]names[]"
    return tok[0] == "endsess"


PROP = {
    "level": "proof",
    "gens": [],
    "theorems": [
        "Frp.C10.inv_reachable", "Frp.C10.register_conflict_restores", "Frp.C10.register_exists_unchanged",
        "Frp.C10.close_spec", "Frp.C10.close_releases", "Frp.C10.close_foreign_noop",
        "Frp.C10.register_close_roundtrip", "Frp.C10.reregister_after_close", "Frp.C10.retry_after_failure",
        "Frp.C10.sessionEnd_spec", "Frp.C10.sessionEnd_frees_names",
        "Frp.C10.port_released_on_close", "Frp.C10.port_kept_on_failure",
        # concurrent registrations of several sessions, quota counter (Frp/Model/RegSteps.lean)
        "Frp.C10.Conc.inv_reachable", "Frp.C10.Conc.quota_exact_idle", "Frp.C10.Conc.begin_refused_unchanged",
        "Frp.C10.Conc.step_failure_releases", "Frp.C10.Conc.run_conflict_restores", "Frp.C10.Conc.close_spec",
        "Frp.C10.Conc.sessionEnd_spec", "Frp.C10.Conc.retry_succeeds", "Frp.C10.Conc.quiescent_clean",
        "Frp.C10.Conc.accounted_sound",
    ],
    "engines": [
        {"name": "release", "quick_n": 6000, "thorough_n": 30000, "thorough_seeds": 5,
         "nontrivial": nontrivial,
         "result_class": lambda r: "view" if r.startswith("http[") else r[:14]},
        {"name": "ports", "quick_n": 2000, "thorough_n": 10000, "thorough_seeds": 3,
         "nontrivial": lambda tok, res: tok[0] == "reg",
         "result_class": lambda r: "view" if r.startswith("tcp[") else r.split(":")[0]},
        {"name": "regrace", "quick_n": 6000, "thorough_n": 30000, "thorough_seeds": 5,
         "nontrivial": lambda tok, res: (tok[0] in ("begin", "step") and res not in ("noflight", "busy"))
         or (tok[0] == "view" and res != "tcp[]udp[]http[]visitor[]names[]quota[1=0,2=0,3=0]"),
         "result_class": lambda r: "view" if r.startswith("tcp[") else r[:14]},
    ],
    "rule": "release engine: generated histories of register (http with several domains x locations, https, "
            "tcpmux, stcp, sudp, xtcp; duplicate and conflicting routes so that registrations fail at the 1st, "
            "2nd, ... claim; duplicate names) / close (own and foreign session) / session end (control "
            "connection dropped, waits for Control.worker) through the real Control on a hand-assembled "
            "ResourceController; `view` dumps all route tables, visitor and NAT-hole listener tables and the "
            "proxy name table. ports engine: the same for tcp/udp ports (see C09). regrace engine: registrations of "
            "3 sessions run CONCURRENTLY through the real Control.RegisterProxy (tcp/udp on explicit ports, http, "
            "stcp; MaxPortsPerClient 0..3), parked at the gates reg.checked / reg.ran and released one section "
            "at a time in generated interleavings (free mix; name races: 2..3 sessions register the same name at "
            "once, then the owners close and the registrations are re-submitted verbatim), plus close / session "
            "end; every failure step is hit (quota, exists, conflict inside Run, name taken at Add); `view` dumps "
            "port tables, routes, visitor listeners, name table with owners and every session's quota counter "
            "(Control.portsUsedNum); each answer is also judged on a record built from the implementation's own "
            "answers (tables and counters = what the record accounts for; every refusal justified by it). "
            "Non-trivial = every registration attempt / section, session end and non-empty view; distinct = "
            "distinct (op line, result)",
    "trusted": COMMON_TRUST + [
        "models Frp/Model/Release.lean and Frp/Model/Ports.lean written by hand; tied by the release and ports engines",
        "read-only dump hooks (tag verif): vhost.Routers/Muxer.VerifDump, visitor.Manager.VerifNames, "
        "proxy.Manager.VerifNames, nathole.Controller.VerifClients, ports.Manager.VerifDump",
        "model Frp/Model/RegSteps.lean written by hand; tied by the regrace engine through the gates reg.checked / "
        "reg.ran (verifhook, tag verif) and proxy.Manager.VerifDump; Control.portsUsedNum is read through reflection",
    ],
    "assumptions": [
        "goroutine / file-descriptor footprint over repeated cycles is not measured by this check (runtime, not logic)",
        "group membership release is covered by C13's model; pooled work connections by C11's; idle backend "
        "connections of the HTTP transport by C02's; wrapped transports (close graph) by C01's",
        "registration and closure of one session are sequential (Control handles its messages one at a time); "
        "registrations of DIFFERENT sessions interleave section by section (quota+Exist | Run | Add): the "
        "cross-session name race is inside this check; session end while the session's own RegisterProxy is "
        "still running is C12's",
        "regrace: ports are requested explicitly and nobody else binds them (the port manager with random "
        "ports and foreign sockets is the ports engine's)",
    ],
}

META = {
    "engine": "lean+harness(release, ports, regrace)",
    "design_ref": "DESIGN.md §6 C10",
    "technique": "Lean 4 invariant + exact-state theorems (register∘close = id; failed registration = id; session end = filter) over all histories + differential correspondence with the real Control / ResourceController tables",
    "text": "Proof: in the model of the server's exclusive-key tables (http/https/tcpmux routes, visitor and NAT-hole listeners, proxy names) and of the port manager, for every reachable state: a registration that conflicts at any claim leaves the state exactly as before; explicit close removes exactly the closing proxy's keys and only for the owning session; register followed by close is the identity on the whole state (no table growth, identical re-registration succeeds on any session); session end removes exactly the keys and names of that session's proxies and nothing of other sessions; ports are free immediately after close and all accounting is unchanged by a failed registration (C09 theorems). For registrations of several sessions running concurrently (small-step model: quota charge + Exist | Run | Add, every interleaving by induction over op lists): tables stay consistent and every session's quota counter equals the ports of what it owns plus its registration in flight; a registration failing at Run or at Add (name taken concurrently) leaves no key, no name and no quota charge behind and touches no other holder or counter; an immediately refused one changes nothing; close and session end give back exactly the proxy's / session's keys, names and ports; the identical registration submitted afterwards goes through all sections whenever name and keys are free and the ports fit on top of what the session really owns; with no proxy and no registration left all tables are empty and all counters 0. Partial: runtime footprint (goroutines, descriptors) and the resources modelled by C01/C02/C11/C13 are outside this check. Tie: 6000+2000+6000 generated ops per quick run on the real code with full table (and quota counter) dumps.",
    "note": "Trusted: Lean kernel; hand-written models; release/ports/regrace engines, the verif dump hooks and the reg.checked/reg.ran gates. Not covered here: goroutine/fd footprint, group membership (C13), pooled work connections (C11), idle HTTP backend connections (C02), wrapper close graphs (C01).",
}
