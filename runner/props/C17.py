from props import COMMON_TRUST


def codec_nontrivial(tok, res):
    # a case is non-trivial when it exercised a decision of the decoder other than "tiny valid frame":
    # any error class, a nil message, a round trip (rt), a live first-message probe
    if tok[0] == "rt":
        return True
    if tok[0] in ("rd", "into"):
        return not res.startswith("msg:ReqWorkConn")
    return tok[0] in ("first", "later", "gold")


def codec_class(r):
    w = r.split(" ")
    if r.startswith("B"):            # rt: outcome + eq flag
        return "rt:" + (w[2].split(":")[0] + ":" + w[2].split(":")[1] if w[2].startswith("err") else "msg") + ":" + w[5] + (":obj" if len(w) > 6 and w[6] != "O-" else "")
    if w[0].startswith("msg:"):
        return "msg"
    return " ".join(w[:1] if w[0][:3] in ("err", "nil", "ok") else w)[:24]


PROP = {
        "level": "proof",
        "gens": ["MsgSchema"],
        "theorems": [
            "Frp.C17.be64_roundtrip", "Frp.C17.be64_surj",
            "Frp.C17.decode_encode", "Frp.C17.decode_encode_res", "Frp.C17.decode_ignores_rest",
            "Frp.C17.decode_ok_iff", "Frp.C17.decode_bounded", "Frp.C17.decode_ok_sound",
            "Frp.C17.decode_unknown_type", "Frp.C17.decode_negative", "Frp.C17.decode_oversize",
            "Frp.C17.decode_truncated",
            "Frp.C17.registry_size", "Frp.C17.registry_bytes_nodup", "Frp.C17.registry_structs_nodup",
            "Frp.C17.registry_bijection", "Frp.C17.schema_wellformed", "Frp.C17.schema_eq_golden",
            "Frp.C17.holdsOn_sound", "Frp.C17.modelHoldsFull", "Frp.C17.readMsg_never_nil", "Frp.C17.null_is_error",
            "Frp.C17.modelObs_eq_golib",
            # JSON object level (Model/MsgObj driven by the regenerated table)
            "Frp.C17.schema_kinds_known", "Frp.C17.schema_depth_ok", "Frp.C17.schema_names_nodup",
            "Frp.C17.fromObj_toObj", "Frp.C17.fromObj_toObj_exact",
            # the decoder before the fix 5c99d8a (documentation of finding C17-null-body)
            "Frp.C17.model_null_witness", "Frp.C17.golibHoldsFull_false", "Frp.C17.golib_holdsOn_partial",
        ],
        "engines": [
            {"name": "codec", "quick_n": 20000, "thorough_n": 80000, "thorough_seeds": 5, "search_n": 6000, "search_seeds": 3,
             "nontrivial": codec_nontrivial, "result_class": codec_class},
        ],
        "rule": "codec engine: rt = generated values of all 18 message types through real WriteMsg->ReadMsg "
                "(frame bytes vs model encode of the real JSON body, DeepEqual after the stated normalisation; object level: "
                "the real JSON body parsed into a canonical tree must equal the model's toObj of the Go value, and the Go "
                "value that comes back must equal the model's norm2 of it); "
                "rd/into = structured, mutated and random byte strings into real ReadMsg/ReadMsgInto through a "
                "counting reader (error class, bytes consumed, body allocation); gold = 18 pinned frames of the released "
                "protocol read and re-written by the real code; later = framing errors sent by a logged-in second client "
                "on its control stream (must end that session only); first = bytes sent as the first "
                "message to a live frps while an established session is pinged. Non-trivial = every case except a "
                "plain empty-object frame; distinct = distinct (op line, result) pairs",
        "trusted": COMMON_TRUST + [
            "encoding/json (which bodies parse into which struct, how values print) is trusted: the JSON verdict "
            "of each run is taken from the implementation as an oracle bit; only the literal `null` is modelled. "
            "The object level (which members with which values; Frp/Model/MsgObj.lean) IS modelled and tied; JSON text "
            "syntax (escaping, number text, member order) and net.IP text form stay trusted",
            "model Frp/Model/Frame.lean written by hand from golib@v0.5.1 msg/json {process,pack,msg}.go; tied by the codec engine",
            "translator /verif/translate (go/ast) for Frp/Gen/MsgSchema.lean; golden table Frp/Props/C17Golden.lean pinned by hand",
        ],
        "assumptions": [
            "round trip is claimed for messages whose JSON body is at most 10240 bytes: WriteMsg does not enforce the "
            "bound, ReadMsg does (oversize values are generated and must come back as ErrMaxMsgLength)",
            "equality after round trip is modulo: empty map/slice == nil (omitempty), 4-byte IP == 16-byte form; "
            "strings are valid UTF-8 (encoding/json replaces invalid bytes); IPs have length 0, 4 or 16",
            "the reader delivers at least one byte per Read or an error (io.Reader contract)",
            "first-message probes: tcpMux off, plain TCP; first bytes 0x16/0x17/'G' are taken by the TLS/websocket "
            "sniffers and skipped; Login/NewWorkConn/NewVisitorConn first messages need the session model and are skipped",
        ],
    }

META = {
        "engine": "lean+translate(MsgSchema)+harness(codec)",
        "design_ref": "DESIGN.md §6 C17",
        "technique": "Lean 4 proofs about the framing model for all byte strings (exact characterisation of accepted "
                     "inputs, bounds, error cases), kernel evaluation of the message table regenerated from "
                     "pkg/msg/msg.go against a pinned golden table, differential correspondence with the real "
                     "msg.WriteMsg/ReadMsg/ReadMsgInto and a live frps",
        "text": "Proof: the modelled decoder returns ok(t, body, rest) exactly when the input is type byte t (registered) "
                "+ 8-byte big-endian length + body + rest with |body| <= max; it then consumed exactly 9+|body| bytes and "
                "allocated |body|; in every case the body allocation is <= max and nothing beyond the input is consumed; "
                "unknown type, top-bit (negative) length, oversize length and every proper prefix of a frame are errors "
                "(one theorem each); the 8-byte length field is a bijection on uint64. The registry regenerated from the "
                "source has 18 entries, distinct bytes, distinct structs, is a bijection, JSON names are distinct per "
                "struct, and the whole table (type bytes, JSON names, Go types, omitempty) equals the golden table of "
                "the released protocol. The model is tied to the code by thousands of generated values/byte strings per "
                "run with the Lean predicate evaluated on the implementation's own results.",
        "note": "Finding C17-null-body (fixed by 5c99d8a): a frame whose JSON body is the literal null made ReadMsg "
                "return (nil, nil) - neither a message nor an error; pkg/msg/ctl.go now turns that into an error. The model "
                "is of the repaired ReadMsg and the full statement is proved for it (modelHoldsFull); the witness against "
                "the vendored golib decoder alone stays as model_null_witness / golibHoldsFull_false. ReadMsgInto accepts "
                "a null body as it accepts {} (encoding/json leaves the caller's struct untouched). Trusted: encoding/json; "
                "the hand-written framing and object models; the translator. Not covered: first messages of type "
                "Login/NewWorkConn/NewVisitorConn on the live server (session model, C04/C12).",
    }
