from props import COMMON_TRUST


def codec_nontrivial(tok, res):
    # a case is non-trivial when it exercised a decision of the decoder other than "tiny valid frame":
    # any error class, a nil message, a round trip (rt), a live first-message probe
    if tok[0] == "rt":
        return True
    if tok[0] in ("rd", "into"):
        return not res.startswith("msg:ReqWorkConn")
    if tok[0] == "disp":            # the dispatcher decided something: a handler call or the end of the session
        return " C[] alive" not in res
    if tok[0] == "lane":            # a message reached a waiting Do call
        return "t>" in res
    if tok[0] in ("prd", "pinto"):   # a decode in a process in which services were constructed with a configuration profile
        return True
    if tok[0] == "fwd":             # at least one datagram came through a forwarder
        return "/" in res.split(" I", 1)[-1]
    return tok[0] in ("first", "later", "gold", "sess", "nh", "batch", "pfirst", "psess", "pcli")


def codec_class(r):
    w = r.split(" ")
    if len(w) >= 7 and w[0][:1] == "t" and w[0][1:].isdigit() and w[1].startswith("B"):   # batch: items, all retained values unchanged?
        return "batch:%s:%s" % ("udp" if w[3].startswith("Vp") else "msg",
                                 "kept" if all(x == "L=" for x in w[5::7]) else "changed")
    if w[0].startswith("Vp") and len(w) % 2 == 0:   # fwd: per packet the address family / zone that went in and whether it came out
        def fam(v):
            a = v.split("/")[-1]
            if a == "n":
                return "nil"
            ip, _, zone = a.split(".")
            return {0: "noip", 8: "v4", 32: "v6"}.get(len(ip), "ip?") + ("%z" if zone else "")
        return "fwd:" + ",".join(sorted({fam(v) + ("=" if i[1:] == v[1:] or i[1:].split("/")[1:] == v[1:].split("/")[1:] else
                                                   ("-" if i in ("Ilost", "Inobind", "Inosend") else "~")) for v, i in zip(w[0::2], w[1::2])}))
    if r.startswith("P"):            # nh: outcome, eq
        return "nh:" + " ".join(w[2:4])
    if r[:1] in ("r", "f", "c") and (len(w[0]) == 1 or w[0].startswith(("c:", "t>"))):   # lane
        return "lane:" + ("deliv" if "t>" in r else "nodeliv")
    if r.startswith("T["):           # disp: state / calls? / after-close ; sess: replies, closed?, alive?
        if len(w) > 1 and w[1].startswith("C["):
            return "%s:%s:%s" % (w[2].split("@")[0], "calls" if len(w[1]) > 3 else "nocall", w[3])
        return " ".join(x.split("=")[0] + ("=" + str(len([y for y in x.split("=")[1].split(",") if y])) if "=" in x else "") for x in w[1:])
    if r.startswith("B"):            # rt: outcome + eq flag
        return "rt:" + (w[2].split(":")[0] + ":" + w[2].split(":")[1] if w[2].startswith("err") else "msg") + ":" + w[5] + (":obj" if len(w) > 6 and w[6] != "O-" else "")
    if w[0].startswith("msg:"):
        return "msg"
    return " ".join(w[:1] if w[0][:3] in ("err", "nil", "ok") else w)[:24]


PROP = {
        "level": "proof",
        "gens": ["MsgSchema", "MsgLimit", "UdpAddr"],
        "theorems": [
            "Frp.C17.be64_roundtrip", "Frp.C17.be64_surj",
            "Frp.C17.decode_encode", "Frp.C17.decode_encode_res", "Frp.C17.decode_ignores_rest",
            "Frp.C17.decode_ok_iff", "Frp.C17.decode_bounded", "Frp.C17.decode_ok_sound",
            "Frp.C17.decode_unknown_type", "Frp.C17.decode_negative", "Frp.C17.decode_oversize",
            "Frp.C17.decode_truncated",
            "Frp.C17.registry_size", "Frp.C17.registry_bytes_nodup", "Frp.C17.registry_structs_nodup",
            "Frp.C17.registry_bijection", "Frp.C17.schema_wellformed", "Frp.C17.schema_eq_golden",
            "Frp.C17.holdsOn_sound", "Frp.C17.modelHoldsFull", "Frp.C17.readMsg_never_nil", "Frp.C17.null_is_error",
            "Frp.C17.modelObs_eq_golib",
            # JSON object level (Model/MsgObj driven by the regenerated table)
            "Frp.C17.schema_kinds_known", "Frp.C17.schema_depth_ok", "Frp.C17.schema_names_nodup",
            "Frp.C17.fromObj_toObj", "Frp.C17.fromObj_toObj_exact",
            # the decoder before the fix 5c99d8a (documentation of finding C17-null-body)
            "Frp.C17.model_null_witness", "Frp.C17.golibHoldsFull_false", "Frp.C17.golib_holdsOn_partial",
            # session level (Model/Dispatcher, Props/C17Dispatch): one ReadMsg with the JSON type check modelled
            "Frp.C17.readStep_good", "Frp.C17.readStep_bad_body", "Frp.C17.readStep_unknown_type",
            "Frp.C17.readStep_negative", "Frp.C17.readStep_oversize", "Frp.C17.readStep_msg_sound",
            # reasons for which a body is an error (syntax, top level, FIELD level incl. nested / elements / range)
            "Frp.C17.bodyOk_syntax", "Frp.C17.bodyOk_toplevel", "Frp.C17.membersFit_bad_member",
            "Frp.C17.bodyOk_bad_field", "Frp.C17.fitsF_wrong_type", "Frp.C17.fitsF_real",
            "Frp.C17.fitsF_out_of_range", "Frp.C17.fitsF_bad_element", "Frp.C17.fitsF_bad_map_value",
            "Frp.C17.fitsF_bad_nested",
            # the read loop for all handler tables and all byte streams
            "Frp.C17.readLoop_goods", "Frp.C17.reject_ends_session", "Frp.C17.nothing_after_done",
            "Frp.C17.wellformed_keeps_session", "Frp.C17.peer_close_ends_session", "Frp.C17.deliveries_target",
            "Frp.C17.stream_decomposition",
            # independence of how the peer's bytes are cut into writes
            "Frp.C17.decodeFull_err_stable", "Frp.C17.readStep_msg_stable", "Frp.C17.readStep_reject_stable",
            "Frp.C17.readLoop_fuel", "Frp.C17.readLoop_append", "Frp.C17.recv_append",
            # executable predicate of the driver; send side; table facts
            "Frp.C17.dispHoldsOn_sound", "Frp.C17.model_dispHolds", "Frp.C17.send_fifo", "Frp.C17.send_outcomes",
            "Frp.C17.schema_names_lowercase", "Frp.C17.schema_int_ranges",
            # the nat-hole message codec (encrypt ∘ frame) and the message transporter (Model/Lane, Props/C17Lane)
            "Frp.C17.nh_roundtrip", "Frp.C17.nh_decode_sound",
            "Frp.C17.laneInv_step", "Frp.C17.lane_inv", "Frp.C17.dispatch_to_registered",
            "Frp.C17.dispatch_unregistered_dropped", "Frp.C17.never_to_another",
            # handlers wrapped in msg.AsyncHandler (calls as a multiset); `-0`; member-name folding
            "Frp.C17.dispHoldsOnAsync_sound", "Frp.C17.fitsF_neg_zero", "Frp.C17.lower_examples",
            # values that PERSIST (Props/C17Batch): a retained result is never altered by a later decode, whole
            # batches on one connection and on several goroutines under any schedule, the udp payload codec,
            # encoding a retained value again
            "Frp.C17.read_keeps", "Frp.C17.reads_keeps", "Frp.C17.kept_stable", "Frp.C17.batch_roundtrip",
            "Frp.C17.sched_independent", "Frp.C17.par_batch_roundtrip",
            "Frp.C17.udp_content_roundtrip", "Frp.C17.udp_batch_roundtrip", "Frp.C17.udp_pack_injective",
            "Frp.C17.reencode_stable", "Frp.C17.decode_reencode", "Frp.C17.itemHolds_sound", "Frp.C17.udpItemHolds_sound",
            # the bound as a property of the PROCESS in every configuration (Model/CodecProc, Props/C17Limit, facts
            # regenerated from every package + the golib module: Gen/MsgLimit)
            "Frp.C17.limit_only_setMax", "Frp.C17.limit_invariant", "Frp.C17.limit_writer_witness",
            "Frp.C17.golib_limit_facts", "Frp.C17.codec_object_single", "Frp.C17.frp_no_limit_writer",
            "Frp.C17.proc_limit_constant", "Frp.C17.proc_decode_bounded", "Frp.C17.proc_oversize_refused",
            "Frp.C17.proc_oversize_frame_refused", "Frp.C17.proc_roundtrip",
            # the ADDRESSES of a udp message as the udp paths build it (Model/UdpPacket, Props/C17Udp, Props/C17UdpFacts; net.UDPAddr's field
            # list, the constructor and its callers regenerated: Gen/UdpAddr)
            "Frp.C17.addr_fields_eq_source", "Frp.C17.addr_members_cover", "Frp.C17.addr_members_eq_obj",
            "Frp.C17.addr_no_custom_codec", "Frp.C17.ip_shape", "Frp.C17.ctor_shape", "Frp.C17.ctor_callers",
            "Frp.C17.packet_wire", "Frp.C17.packet_fields_preserved", "Frp.C17.zone_preserved",
            "Frp.C17.packet_content_roundtrip", "Frp.C17.wire_norm_fixed",
            "Frp.C17.user_packet_wire", "Frp.C17.fwd_reply_wire", "Frp.C17.fwd_end_to_end",
            "Frp.C17.addrKept_sound", "Frp.C17.model_addrKept", "Frp.C17.udpObsHolds_sound",
        ],
        "extra_targets": ["Frp.Props.C17Dispatch", "Frp.Props.C17Lane", "Frp.Props.C17Batch", "Frp.Props.C17Limit", "Frp.Props.C17Udp", "Frp.Props.C17UdpFacts"],
        "engines": [
            {"name": "codec", "quick_n": 20000, "thorough_n": 80000, "thorough_seeds": 5, "search_n": 6000, "search_seeds": 3,
             "nontrivial": codec_nontrivial, "result_class": codec_class},
        ],
        "rule": "codec engine: rt = generated values of all 18 message types through real WriteMsg->ReadMsg "
                "(frame bytes vs model encode of the real JSON body, DeepEqual after the stated normalisation; object level: "
                "the real JSON body parsed into a canonical tree must equal the model's toObj of the Go value, and the Go "
                "value that comes back must equal the model's norm2 of it); "
                "rd/into = structured, mutated and random byte strings into real ReadMsg/ReadMsgInto through a "
                "counting reader (error class, bytes consumed, body allocation); gold = 18 pinned frames of the released "
                "protocol read and re-written by the real code; later = framing errors sent by a logged-in second client "
                "on its control stream (must end that session only); first = bytes sent as the first "
                "message to a live frps while an established session is pinged; disp = a fresh REAL msg.Dispatcher "
                "(handler table and default handler generated) on a net.Pipe fed a generated stream — accepted frames of all "
                "18 types, then one piece of a malformed class (one wrong-typed / out-of-range member per the struct's "
                "schema at any nesting level, also under a case-folded or duplicated name; top-level non-object; not a "
                "JSON text; unknown type; negative / oversized / short / long length; cut-off frame), then more frames — in "
                "writes of 1…64 bytes: which handler got which message (reflection dump) at which byte offset, whether "
                "Done() is closed, what the send loop wrote; the JSON trees of the bodies come from encoding/json's "
                "token stream (trusted), the verdict on them from the model; sess = the same stream classes on an "
                "established control connection of a live frps (replies before / after the malformed frame, closed?, "
                "other session alive?); nh = the nat-hole message codec (pkg/nathole EncodeMessage / DecodeMessageInto): generated "
                "values of all types, right key / wrong key / one bit of the data flipped / data cut off, the outcome "
                "predicted from the bytes the data decrypts to (standard-library AES-CFB, trusted) and the round trip "
                "demanded for the right key; lane = the real transport.MessageTransporter under generated histories of "
                "Do / Dispatch / cancel (which Do call received which message); batch = the lossless clause as a statement "
                "about values that PERSIST: k generated values (udp: payloads of 0…7400 bytes, local and remote address from "
                "the class nil / zero value / empty IP with port or zone / IPv4 in 4- and 16-byte form / IPv4-in-IPv6 / "
                "IPv6 of every scope, ports incl. 0 and 65535, zones none / interface names / numeric / odd characters / "
                "long) are encoded by the real encoder and decoded through one decode entry point — msg.ReadMsg and "
                "msg.ReadMsgInto (k calls on ONE reader holding the frames back to back), a msg.Dispatcher over a pipe, "
                "nathole EncodeMessage→DecodeMessageInto, udp.NewUDPPacket→WriteMsg→ReadMsg→udp.GetContent — on one "
                "goroutine or on 2/4/8 goroutines with a reader each; every result is RETAINED as returned and dumped at "
                "once and again after the whole batch, then encoded again: the driver demands that the late dump is the "
                "early one and the model's value of what went in (norm2 / base64 model), and that the re-encoded frame is "
                "the model's frame of the original body — a result that changes after a later decode is prop=FAILS; "
                "disp also runs with every handler wrapped in msg.AsyncHandler (calls compared as a multiset, each "
                "delivery of the model must find a call of its own with the model's value); sess streams carry Ping, "
                "NewProxy (one NewProxyResp each), CloseProxy, NatHoleReport and unhandled types. "
                "batch udp queues its packets as a socket loop does: every payload is read into ONE receive buffer, "
                "given to udp.NewUDPPacket as a slice of it, and the buffer is overwritten before any queued packet is "
                "written (the packet must hold what was received); V / I / L of a udp item carry the two addresses with every "
                "field of net.UDPAddr raw (IP bytes, Port, Zone) — V as handed to udp.NewUDPPacket, I / L as in the packet "
                "the peer decoded — and the driver compares them field by field (udpObsHolds; IPv4 4-byte = 16-byte form "
                "is the only identification). fwd = the two callers of the constructor on real sockets: cli = the real "
                "udp.Forwarder in front of a local echo service, fed packets that the real codec decoded, every reply "
                "read through the real codec again (the answer must carry the remote address of the inbound packet); "
                "srv = the real udp.ForwardUserConn on a wildcard / udp4 / udp6 socket, datagrams sent from sockets bound "
                "to 127.a.b.c, ::1 and every IPv6 address of the host (a link-local one with its zone, so ReadFromUDP "
                "yields a zoned address), every packet of sendCh read through the real codec. The bound as a property of the PROCESS in every "
                "configuration: pfirst / psess = first / sess against live frps children started with a configuration "
                "profile (udpPacketSize 1500 / 8000 / 65507 and generated combinations of udpPacketSize 1…2^20 with "
                "maxPoolCount, maxPortsPerClient, heartbeatTimeout, userConnTimeout), prd / pinto = rd / into executed in "
                "a child process in which server.NewService, client.NewService or both were constructed with the profile "
                "first (the codec object is global: the main harness' own is never touched), pcli = a live frpc child "
                "with the profile dials the harness, which answers its Login with the generated frame in place of the "
                "LoginResp, or with a good LoginResp and then the frame on the encrypted control stream (frpc must end "
                "that connection); the frames: all 18 types (first messages mostly Login / NewWorkConn / NewVisitorConn, "
                "the ones a frps answers), WELL-FORMED JSON bodies of 10240 … 100000 bytes fully supplied; the model "
                "ignores the profile (proc_limit_constant). disp / sess streams also carry the oversize class with the "
                "whole body supplied. Non-trivial = every "
                "case except a plain empty-object frame; distinct = distinct (op line, result) pairs",
        "trusted": COMMON_TRUST + [
            "encoding/json's TEXT level (which byte strings are a JSON text, which tree they denote, how values print) "
            "is trusted. For rd/into/rt the JSON verdict of each run is taken from the implementation as an oracle "
            "bit (only the literal `null` is modelled); for disp/sess the verdict is the model's: member lookup (exact, "
            "then ASCII case-folded), JSON type per field kind, integer syntax and range, element types, nested "
            "structs (Frp/Model/Dispatcher.lean `fits2`); the verdict of net.IP.UnmarshalText on an address text and the "
            "text MarshalText prints afterwards come from Frp/Model/IPText.lean (netip.ParseAddr / appendTo6 mirrored for "
            "both families; hand-written, tied by the disp/nh ops and a corpus of 250 texts). "
            "The object level (which members with which values; Frp/Model/MsgObj.lean) IS modelled and tied; JSON text "
            "syntax (escaping, number text, member order) and net.IP text form stay trusted",
            "model Frp/Model/Frame.lean written by hand from golib@v0.5.1 msg/json {process,pack,msg}.go; tied by the codec engine",
            "translator /verif/translate (go/ast) for Frp/Gen/MsgSchema.lean; golden table Frp/Props/C17Golden.lean pinned by hand",
            "translator generator MsgLimit (go/ast over every non-test .go file of the repository, go.mod, and the golib "
            "module found in the module cache): syntactic facts — selectors named SetMaxMsgLength / NewMsgCtl, uses of the "
            "package variable of pkg/msg holding the codec, mentions of the field name; writing the unexported field through "
            "unsafe pointer arithmetic without naming it is outside what the facts see (the p* ops of the engine would)",
            "model Frp/Model/CodecProc.lean (golib MsgCtl: maxMsgLength and its writers) written by hand; tied by "
            "golib_limit_facts (regenerated) and the p* ops",
            "translator generator UdpAddr (go/ast over GOROOT/src/net/{udpsock,ip}.go and every .go file of package net for "
            "the methods of UDPAddr, pkg/proto/udp/udp.go, every non-test .go file of the repository for calls of "
            "NewUDPPacket / literals of msg.UDPPacket): syntactic facts (field list, source text of the constructor's "
            "literal and of its callers' arguments)",
            "model Frp/Model/UdpPacket.lean (net.UDPAddr with all its fields, NewUDPPacket / GetContent, the two forwarders' "
            "use of the constructor) written by hand; tied by addr_fields_eq_source / ctor_shape / ctor_callers "
            "(regenerated) and the batch udp / fwd ops. The text of an IP (Model/IPText.lean) enters the theorems as the "
            "explicit per-address hypothesis ipLaw (text read back = 16-byte form), evaluated by the driver on every "
            "generated address",
        ],
        "assumptions": [
            "nat-hole codec: AES-128-CFB (golib crypto.Encode/Decode) is trusted and carries no authentication: a "
            "tampered datagram is an error only when the decrypted bytes are not a well-formed frame that fits the "
            "receiver's struct (that is what is checked), wrong key ⇒ error holds with overwhelming probability only; "
            "transporter: a second Do under the same type and lane takes the registry entry over (Go map semantics, "
            "mirrored; frp's lane keys are random transaction ids)",
            "disp/sess: the VALUE a handler receives is compared only for bodies whose member names are exact ASCII and "
            "strictly increasing at every level (else only handler, struct and offset); member names fold as "
            "encoding/json folds them (ASCII case plus U+212A / U+017F, the only non-ASCII runes whose folding orbit holds "
            "an ASCII letter; member names are valid UTF-8 after unquoting); `-0` is an integer literal for signed fields "
            "only; for msg.AsyncHandler no order is claimed (calls form a multiset; the harness waits, event driven, for "
            "as many calls as encoding/json itself accepts frames — that estimate only bounds the wait); sess: the "
            "well-formed part consists of Ping, NewProxy (exactly one NewProxyResp is claimed, not its content), "
            "CloseProxy, NatHoleReport and types the server has no handler for; NatHoleVisitor / NatHoleClient are skipped",
            "udp addresses: IPs have 0, 4 or 16 bytes and obey the IP text law (ipLaw; every generated address does, the "
            "driver checks), zones are valid UTF-8 (any characters, any length that keeps the body within the bound); "
            "equality is field by field with IPv4 4-byte = 16-byte form as the only identification (a nil IP and an "
            "empty non-nil IP are the same 0 bytes); fwd: udp may drop — an item whose datagram did not come through "
            "within 2 s is not claimed; srv uses the addresses the host owns (zoned ones only where an interface has a "
            "link-local address that can be bound)",
            "batch: persistence is claimed for values the caller retains WITHOUT copying, compared by reflection dump "
            "(messages) / bytes (udp content); bodies above the bound are drawn again (rt covers them); goroutine "
            "schedules are whatever the Go scheduler does in the run (the theorem covers all schedules, the run samples them)",
            "round trip is claimed for messages whose JSON body is at most 10240 bytes: WriteMsg does not enforce the "
            "bound, ReadMsg does (oversize values are generated and must come back as ErrMaxMsgLength)",
            "equality after round trip is modulo: empty map/slice == nil (omitempty), 4-byte IP == 16-byte form; "
            "strings are valid UTF-8 (encoding/json replaces invalid bytes); IPs have length 0, 4 or 16",
            "the reader delivers at least one byte per Read or an error (io.Reader contract)",
            "process-level bound: configuration profiles set size-like settings only (udpPacketSize, pool counts, port "
            "limit, heartbeat / connection timeouts), transport plain TCP with tcpMux off; services are constructed "
            "(prd / pinto) or run (pfirst / psess / pcli) in child processes; pcli claims only frames the framing refuses "
            "(unknown type, negative, oversize): `closed` = frpc ended that control connection — in the login phase by "
            "giving the login up, which ends that frpc (loginFailExit default) —, 1.5 s bound",
            "first-message probes: tcpMux off, plain TCP; first bytes 0x16/0x17/'G' are taken by the TLS/websocket "
            "sniffers and skipped; Login/NewWorkConn/NewVisitorConn first messages need the session model and are skipped",
        ],
    }

META = {
        "engine": "lean+translate(MsgSchema,MsgLimit,UdpAddr)+harness(codec)",
        "design_ref": "DESIGN.md §6 C17",
        "technique": "Lean 4 proofs about the framing model and the dispatcher transition system for all byte strings / streams (exact characterisation of accepted "
                     "inputs, bounds, error cases), kernel evaluation of the message table regenerated from "
                     "pkg/msg/msg.go against a pinned golden table, go/ast facts about every writer of the decoder's limit in the "
                     "whole repository and about net.UDPAddr's fields, the udp packet constructor and its callers, differential correspondence with the real "
                     "msg.WriteMsg/ReadMsg/ReadMsgInto, the real msg.Dispatcher over a pipe, live frps / frpc processes "
                     "started with non-default configurations",
        "text": "Proof: the modelled decoder returns ok(t, body, rest) exactly when the input is type byte t (registered) "
                "+ 8-byte big-endian length + body + rest with |body| <= max; it then consumed exactly 9+|body| bytes and "
                "allocated |body|; in every case the body allocation is <= max and nothing beyond the input is consumed; "
                "unknown type, top-bit (negative) length, oversize length and every proper prefix of a frame are errors "
                "(one theorem each); the 8-byte length field is a bijection on uint64. The registry regenerated from the "
                "source has 18 entries, distinct bytes, distinct structs, is a bijection, JSON names are distinct per "
                "struct, and the whole table (type bytes, JSON names, Go types, omitempty) equals the golden table of "
                "the released protocol. Session level (msg.Dispatcher as a transition system): for every handler "
                "table, every byte stream and every verdict of the trusted JSON text level, the handlers are called for "
                "exactly the accepted frames before the first rejected one, in order, each by the handler of its type "
                "(else the default handler); a frame rejected for ANY reason - unknown type, bad length, not a JSON text, "
                "null, top-level non-object, or ONE member at any nesting level whose JSON type / integer range does not "
                "fit its field - closes Done with nothing dispatched from it or after it; every stream decomposes that "
                "way; the result does not depend on how the bytes are cut into writes; the send side is FIFO. The nat-hole codec returns the message for every cipher that decrypts what it encrypted "
                "and otherwise only what the decrypted bytes frame; a message given to the transporter reaches exactly the "
                "waiting Do call registered for its type and lane key, at most one per call, else it is dropped. "
                "Values that persist: a connection is a reader plus the list of results its caller retains; a ReadMsg only "
                "appends to it (read_keeps / reads_keeps / kept_stable), k frames written back to back decode to exactly the "
                "k values (batch_roundtrip), and under EVERY schedule of goroutines decoding on their own connections each "
                "ends with the result of its own reads alone (sched_independent, par_batch_roundtrip); GetContent(NewUDPPacket b) "
                "= b for every payload and every batch of payloads, distinct payloads never collide (udp_*); the value that "
                "was decoded encodes to the object that was on the wire (reencode_stable, decode_reencode); with "
                "msg.AsyncHandler the calls are a permutation of the deliveries (dispHoldsOnAsync_sound). "
                "The bound belongs to the process: the limit is a field of the one codec object of pkg/msg; only "
                "SetMaxMsgLength moves it (limit_only_setMax, limit_invariant; limit_writer_witness shows one call lifts the "
                "bound for all types), the facts regenerated from EVERY package and the golib module (golib_limit_facts, "
                "codec_object_single) contain no writer (frp_no_limit_writer), so after every history of a process - any "
                "services constructed with any configuration - the limit is 10240 (proc_limit_constant) and every input is "
                "decoded within it, oversize frames refused with the body supplied or not (proc_decode_bounded, "
                "proc_oversize_refused, proc_oversize_frame_refused, proc_roundtrip). "
                "The addresses of a udp message: net.UDPAddr as the model has it carries exactly the fields of the Go "
                "struct (addr_fields_eq_source, regenerated from GOROOT; addr_members_cover / addr_members_eq_obj: each is "
                "a member of the JSON object; addr_no_custom_codec, ip_shape), NewUDPPacket stores its arguments as given "
                "and the two forwarders are its only callers (ctor_shape, ctor_callers); for every payload and every pair "
                "of addresses - nil, zero, any IP obeying the IP text law, any port, ANY zone string - the peer decodes the "
                "same content and field by field the same addresses, IPv4 in 16-byte form (packet_wire, "
                "packet_fields_preserved, zone_preserved, packet_content_roundtrip), relaying changes nothing "
                "(wire_norm_fixed); what ForwardUserConn packs for user a and what the Forwarder packs for the answer "
                "arrive addressed to a (user_packet_wire, fwd_reply_wire, fwd_end_to_end). "
                "The model is tied to the code by thousands of generated values/byte strings/streams per "
                "run with the Lean predicate evaluated on the implementation's own results.",
        "note": "Finding C17-null-body (fixed by 5c99d8a): a frame whose JSON body is the literal null made ReadMsg "
                "return (nil, nil) - neither a message nor an error; pkg/msg/ctl.go now turns that into an error. The model "
                "is of the repaired ReadMsg and the full statement is proved for it (modelHoldsFull); the witness against "
                "the vendored golib decoder alone stays as model_null_witness / golibHoldsFull_false. ReadMsgInto accepts "
                "a null body as it accepts {} (encoding/json leaves the caller's struct untouched). Trusted: encoding/json; "
                "the hand-written framing and object models; the translator. Not covered: first messages of type "
                "Login/NewWorkConn/NewVisitorConn on the live server (session model, C04/C12).",
    }
