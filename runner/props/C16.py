from props import COMMON_TRUST
import re


def crash_nontrivial(tok, res):
    # anything that reached a handler: accepted logins, storms, the witnesses, watchdog passes
    if not tok:
        return False   # a stray line in the trace (the runner merges the harness' stderr): judged by the length check, not here
    return tok[0] in ("login", "negpool", "storm", "cstorm", "race6", "stun", "watch", "stat", "wconn", "wstorm", "tear",
                      "relogin", "gleave", "nstorm", "swc", "closerace", "pstorm", "routes", "ureq", "ustorm", "canon", "ptear", "gchurn", "ssh", "sstorm", "maxports", "ostorm") or \
        (tok[0] == "msg" and tok[2] in ("NewProxy", "CloseProxy", "Ping", "NatHoleVisitor", "NatHoleClient",
                                        "NatHoleReport", "NewWorkConn", "NewVisitorConn", "Login"))


def crash_class(res):
    if res.startswith("stat:"):
        b = lambda n: "0" if n == 0 else ("1-9" if n < 10 else ("10-99" if n < 100 else "100+"))
        m = re.search(r"proxyOK=(\d+),proxyRefused=(\d+).*natResp=(\d+).*workStarted=(\d+),workFrames=(\d+),udpMarker=(\d+),visitorOK=(\d+).*tearParked=(\d+)"
                      r".*reloginParked=(\d+),gleaveParked=(\d+),wdGroupOK=(\d+),wdGroupRefused=(\d+),natSent=(\d+),swc=(\d+)", res)
        if m:
            return ("stat(proxyOK %s, refused %s, natResp %s, work conns taken %s, frames on them %s, udp markers %s, visitors %s, "
                    "teardowns parked %s, logins parked in RegisterControl %s, group joins parked %s, watchdog group registrations ok %s / "
                    "refused %s, nat-hole messages of nstorm %s, swc exchanges %s)" % tuple(b(int(x)) for x in m.groups()))
        m = re.search(r"proxyOK=(\d+),proxyRefused=(\d+).*natResp=(\d+).*workStarted=(\d+),workFrames=(\d+),udpMarker=(\d+),visitorOK=(\d+).*tearParked=(\d+)", res)
        if m:
            return ("stat(proxyOK %s, refused %s, natResp %s, work conns taken %s, frames on them %s, udp markers %s, visitors %s, "
                    "teardowns parked %s)" % tuple(b(int(x)) for x in m.groups()))
        m = re.search(r"proxyOK=(\d+),proxyRefused=(\d+).*natResp=(\d+)", res)
        if m:
            return "stat(proxyOK %s, refused %s, natResp %s)" % tuple(b(int(x)) for x in m.groups())
        return "stat"
    if re.fullmatch(r"x[0-9a-f]*", res):   # canon: the canonical host
        return "host(empty)" if res == "x" else "host"
    return res[:72]


PROP = {
        "level": "other",
        "gens": ["LockFacts", "NilFacts", "LockOrder", "IndexFacts", "PluginClose", "LockBalance", "MapCensus"],
        "theorems": [
            # 1. lock discipline over regenerated facts
            "Frp.C16.all_guarded_partial", "Frp.C16.unguarded_exact", "Frp.C16.all_guarded_status", "Frp.C16.all_guarded",
            "Frp.C16.all_guarded_witness", "Frp.C16.known_sites_present", "Frp.C16.counts_pinned",
            "Frp.C16.tables_are_shared", "Frp.C16.helpers_pinned",
            # 3a. channels
            "Frp.C16.closes_guarded", "Frp.C16.sends_guarded_partial", "Frp.C16.sends_guarded_status",
            "Frp.C16.sends_guarded", "Frp.C16.channel_sites_present", "Frp.C16.sends_unguarded_exact",
            # 2. NewControl
            "Frp.C16.newcontrol_source", "Frp.C16.chanCap_le", "Frp.C16.chanCap_nonneg_partial", "Frp.C16.chanCap_negative",
            "Frp.C16.chanCap_witness", "Frp.C16.login_kills_frps", "Frp.C16.chanCap_nonneg_fixed",
            "Frp.C16.login_never_kills_fixed", "Frp.C16.chanCap_status",
            "Frp.C16.attempts_pos_partial", "Frp.C16.negative_pool_nil_workconn", "Frp.C16.attempts_pos_fixed",
            "Frp.C16.negative_pool_kills_frps", "Frp.C16.pool_safe_fixed", "Frp.C16.pool_safe_partial",
            # 3b. dispatcher totality
            "Frp.C16.unhandled_no_effect", "Frp.C16.handled_only_registered", "Frp.C16.bad_ends_session",
            "Frp.C16.dead_stays_dead", "Frp.C16.deliver_length", "Frp.C16.frame_confined", "Frp.C16.history_confined",
            "Frp.C16.firstMsg_total", "Frp.C16.dispatch_facts", "Frp.C16.every_type_handled_or_ignored",
            # 3d. readers of work / visitor connections: pointer-typed message fields (regenerated NilFacts), udp work-connection reader
            "Frp.C16.ptr_uses_guarded", "Frp.C16.ptr_sites_present", "Frp.C16.ok_use_never_kills", "Frp.C16.unguarded_deref_kills",
            "Frp.C16.consume_total", "Frp.C16.forward_total", "Frp.C16.forwardUserOne_nil", "Frp.C16.udp_reader_step",
            "Frp.C16.udp_reader_closed_stays", "Frp.C16.deliverW_confined", "Frp.C16.srvRun_alive", "Frp.C16.srvRun_work_keeps_ctls",
            "Frp.C16.srvStep_ctl_keeps_works", "Frp.C16.srvStep_work_confined", "Frp.C16.frames_never_kill", "Frp.C16.unguarded_load_witness",
            # 3e. RegisterWorkConn against the session's teardown
            "Frp.C16.register_recover_never_panics", "Frp.C16.teardown_offer_safe", "Frp.C16.teardown_unrecovered_dies",
            "Frp.C16.teardown_unrecovered_witness", "Frp.C16.register_recover_fact", "Frp.C16.teardown_safe_as_is",
            # 3f. the reader of a udp proxy's user socket against the proxy's Close
            "Frp.C16.forward_send_recovered_safe", "Frp.C16.forward_send_unrecovered_dies", "Frp.C16.forward_send_witness",
            "Frp.C16.forward_send_fact", "Frp.C16.forward_send_status",
            # 3c. discoverConn
            "Frp.C16.discover_safe_partial", "Frp.C16.discover_witness", "Frp.C16.discover_fixed",
            # 5. lock order (regenerated LockOrder): no cycle, no self-deadlock
            "Frp.C16.lock_order_respected", "Frp.C16.lock_order_acyclic", "Frp.C16.no_relock", "Frp.C16.cycle_defeats_order",
            "Frp.C16.reversed_edge_witness", "Frp.C16.self_loop_witness", "Frp.C16.lock_sites_present",
            # 6. RegisterControl: every control that enters the table is started or closed
            "Frp.C16.register_control_fact", "Frp.C16.every_login_answered", "Frp.C16.control_waits_on_older",
            "Frp.C16.no_control_abandoned", "Frp.C16.superseded_skip_wedges_forever", "Frp.C16.superseded_skip_witness",
            "Frp.C16.every_login_answered_unattended", "Frp.C16.relogin_op_answered", "Frp.C16.relogin_op_wedged",
            # 7. StartWorkConn addresses (client)
            "Frp.C16.startwork_crash_iff", "Frp.C16.startwork_safe_partial", "Frp.C16.startwork_witness", "Frp.C16.startwork_fixed",
            "Frp.C16.startwork_fixed_agrees", "Frp.C16.startwork_status", "Frp.C16.startwork_resolve_fact",
            # 8. user-facing parsers: regenerated index / slice sites, CanonicalHost with Go's indexing explicit
            "Frp.C16.index_sites_guarded", "Frp.C16.index_ok_sound", "Frp.C16.index_sites_present", "Frp.C16.index_unguarded_rejected",
            "Frp.C16.index_unguarded_panics", "Frp.C16.hasPort_never_panics", "Frp.C16.canonicalHost_never_panics",
            "Frp.C16.guard_does_not_survive_trim",
            # 9. frpc teardown against active plugin requests (regenerated Close methods of pkg/plugin/client)
            "Frp.C16.plugin_close_nonblocking", "Frp.C16.plugin_close_present", "Frp.C16.teardown_relogs", "Frp.C16.teardown_relogs_as_is",
            "Frp.C16.shutdown_wedges_forever", "Frp.C16.shutdown_mux_relogs", "Frp.C16.shutdown_witness",
            # 10. the ssh tunnel gateway (regenerated index / slice sites of pkg/ssh, the request loop of handleNewChannel with Go's
            #     integer arithmetic explicit, x/crypto/ssh's Unmarshal, one connection as a fold)
            "Frp.C16.ssh_exec_shape", "Frp.C16.ssh_sites_present", "Frp.C16.ssh_sites_unguarded_exact", "Frp.C16.ssh_sites_guarded_code",
            "Frp.C16.ssh_index_ok_sound", "Frp.C16.ssh_end_rejection_right", "Frp.C16.ssh_end_wide_accepted",
            "Frp.C16.ssh_exec_wide_never_panics", "Frp.C16.ssh_exec_u32_panics_iff", "Frp.C16.ssh_exec_u32_int32_panics_iff",
            "Frp.C16.ssh_exec_safe_partial", "Frp.C16.ssh_exec_witness", "Frp.C16.ssh_exec_fixed", "Frp.C16.ssh_exec_agree",
            "Frp.C16.ssh_exec_extra_spec", "Frp.C16.ssh_exec_code", "Frp.C16.ssh_unmarshal_never_panics", "Frp.C16.ssh_unmarshal_fact",
            "Frp.C16.ssh_conn_never_dies_fixed", "Frp.C16.ssh_conn_alive_partial", "Frp.C16.ssh_conn_witness", "Frp.C16.ssh_conn_code",
            # 11. lock balance (regenerated: every way out of every function that locks), a session's ctl.mu
            "Frp.C16.lock_balance", "Frp.C16.lock_balance_present", "Frp.C16.session_handles_all", "Frp.C16.session_teardown_closes",
            "Frp.C16.lock_leak_never_closes", "Frp.C16.lock_leak_after_one_refusal", "Frp.C16.lock_leak_witness",
            # 12. census of map-typed struct fields (regenerated): the list of designated shared tables is closed; pkg/auth
            "Frp.C16.map_census_closed", "Frp.C16.map_census_present", "Frp.C16.auth_field_writes_pinned",
            # 4. engine predicate
            "Frp.C16.holdsOn_sound", "Frp.C16.model_holdsOn_login", "Frp.C16.model_holdsOn_login_fixed",
        ],
        "engines": [
            {"name": "crash", "quick_n": 900, "thorough_n": 4000, "thorough_seeds": 4,
             "search_n": 600, "search_seeds": 2, "reruns": 1,
             "nontrivial": crash_nontrivial, "result_class": crash_class},
        ],
        "rule": "crash engine: a sacrificial child process (the harness re-executed) hosts a real frps (token auth, tcpmux, vhost http and "
                "tcpmux ports, a 12-port allowPorts window) and a real frpc whose tcp proxy is the watchdog tunnel; the parent feeds it "
                "one op per line: raw logins with any PoolCount, every msg type with extreme field values on established sessions and as "
                "first message, frames with arbitrary JSON bodies / lengths / type bytes, raw bytes below yamux, drops, concurrent storms "
                "(6-16 peers, registrations of every proxy type with colliding names/ports/routes/groups, closes, nat-hole traffic), a second "
                "real frpc against a scripted server sending every msg type (cstorm), a direct stress of nathole.Controller (race6) and a "
                "flooding STUN peer (stun). The child runs without recover; the parent classifies exit / panic / fatal error by the first "
                "frp frame of the dying goroutine, `hang` = no answer within 90 s AND none (or a failed watchdog) in the 90 s after that - the "
                "child is then asked for its goroutine dump (SIGQUIT, kept as /tmp/c16-hang-*.txt) -, `slow:<answer>` = the answer came in "
                "the second 90 s and the watchdog passed right after (skipped, not a failure: a loaded machine), and `watch` = echo through the tunnel + fresh login. One op line of "
                "a storm stands for hundreds of messages. Non-trivial = ops that reach a handler; `stat` lines carry what the server answered. "
                "Work and visitor connections (eng_crash_work.go): `wconn` registers a tcp / udp / stcp / sudp / xtcp proxy on a fresh session (or "
                "targets the real frpc's stcp / sudp proxy as a visitor), offers NewWorkConn, makes frps take one (user connection, datagram, "
                "NewVisitorConn with the right key, NatHoleVisitor) and then speaks on the work connection and on the visitor connection: UDPPacket "
                "frames with every combination of absent / null / zero / out-of-range / wrong-typed addresses and contents, Ping, every other "
                "registered type, unregistered type bytes, bad lengths, raw bytes, plain and behind the encryption / compression wrappers; a marker "
                "datagram proves the udp consumer got past the frames in front of it; `wstorm` does the same from 4-12 peers at once answering every "
                "ReqWorkConn, half of them dropping the control connection mid-way; the scripted server of `cstorm` starts the real frpc's udp proxy "
                "and feeds it the same frames. Teardown race: `tear` parks the session's worker at the verifhook gate worker.dispDone / "
                "worker.drained / worker.beforeDone / ctl.beforeDel after dropping the control connection, offers 1-6 NewWorkConn for the run id "
                "while it stands there, releases, offers once more after the removal (gate `none`: offers hammer the run id while the control "
                "connection drops, 0-11 proxies widening the window); the Lean engine runs the forced schedule on the teardown model. "
                "Wedges (eng_crash_wedge.go; every wait is event-driven and bounded at 2 s, an answer the property promises that does not come "
                "is `fail:...` = observation `wedge`, after which the child is replaced): `relogin` = session A's teardown parked at a worker.* / "
                "ctl.beforeDel gate (or A left alive), 1-4 further logins WITH A's run id parked in RegisterControl at ctl.beforeWait, all released in "
                "a generated order; every login must be answered, the last one with a LoginResp, a fresh login with the run id must be served and "
                "the run id must leave the table; `gleave` = the only member of a tcp / tcpmux / http group leaves (CloseProxy or drop) while a "
                "join stands at the <kind>group...lookedup gate between the controller lookup and the group lock; both must be answered, both "
                "sessions must still answer a Ping, the group must be usable; `watch` = echo through the tunnel + fresh login + on that login 15 "
                "group registrations that must each be ANSWERED (first members refused by the port manager: port not allowed / in use, by the "
                "muxer / router: route taken, unknown multiplexer; wrong keys; joins) + leaves + Ping; `nstorm` = an xtcp proxy and 4-12 sessions "
                "sending correctly signed non-pre-check NatHoleVisitor (each inserts a session) mixed with NatHoleClient / NatHoleReport / "
                "pre-checks / refused visitors; `swc` = a real frpc whose tcp proxy has transport.proxyProtocolVersion none / v1 / v2 logged in "
                "to a scripted server that hands it one work connection with StartWorkConn{SrcAddr, SrcPort, DstAddr, DstPort} (both families, "
                "ports 0 / 65535, hosts that do not resolve) and reads back what the local service got: the Lean engine computes "
                "Crash.handleStartWork from what net.ResolveTCPAddr made of the addresses; `cstorm` sends the same to proxies with v1 / v2; "
                "`routes` = http / tcpmux proxies asking for SEVERAL routes in one NewProxy (domains, a subdomain, locations) of which the first, "
                "the last or a middle one is owned by another proxy (routes registered earlier in the same message have to be given back), plain "
                "and as group members, in shuffled order; `closerace` = 1-6 senders flood the endpoint of a tcp / tcp-group / tcpmux-group / http-group (udp: corpus, until the fix) proxy with user "
                "traffic while the proxy is closed (CloseProxy / drop), 3-12 rounds; `pstorm` = 4-12 sessions register and close proxies of the "
                "port-less and routed types (own and contested names / domains / groups) without waiting for the answers. Witnesses of the findings (all repaired since) live in "
                "harness/corpus/crash/. USER side (eng_crash_user.go; the child's frps also has a vhost https port, its real frpc also http / https / "
                "tcpmux proxies - with and without httpUser - and a udp proxy to route to): `ureq <listener> <bytes>` = one user connection (datagram) "
                "to the tcpmux CONNECT port / vhost http port / vhost https port / a tcp proxy port / a udp proxy port, FIN, the answer class; "
                "`ustorm` = 4-12 users at once; authorities, Host values and SNI names come from ONE class: every string of length <= 2 over "
                "{. : [ ] a 0} (each sent as a well-formed CONNECT, with or without port), longer ones sampled, base x suffix compositions (empty, "
                "root dot, labels, bracketed / bare IPv6 literals, existing routes in any case x dots and ports of every shape), huge, non-ASCII, "
                "control bytes; around them well-formed requests and a malformed stream (request lines, versions, line ends, header sizes / counts, "
                "(Proxy-)Authorization of every shape, chunking, h2c prefaces / upgrades, absolute / authority / asterisk targets, truncation, "
                "pipelining); ClientHellos are built by hand (any SNI bytes) and truncated / bit-flipped / length-corrupted; `canon <host>` = "
                "httppkg.CanonicalHost in the child WITHOUT recover, compared with Host.canonicalHost on ASCII hosts; `ptear <plugin> <mux> <hold> "
                "<n>` = a fresh real frpc (tcpMux off / on) whose proxy is backed by http2http / http2https / https2http / https2https / http_proxy "
                "/ static_file against a scripted server: one complete request, then n requests held ACTIVE (backend does not answer / user stops "
                "reading a 64 MiB response / user does not finish the body), the server cuts the control connection: frpc must log in again "
                "within 3 s, register the proxy again and serve a request; the Lean engine runs UserIn.prun on the regenerated Close method; "
                "`gchurn <kind> <rounds>` = two sessions take turns being the only member of one tcp / tcpmux / http group, every round the "
                "member's leave and the other's join are written back to back in alternating order (50-400 rounds, no gate: the gates of `gleave` "
                "park the join only), every join must be answered within 2 s and both sessions must answer a Ping. SSH GATEWAY (eng_crash_ssh.go; "
                "the child's frps has sshTunnelGateway without authorizedKeysFile = NoClientAuth, a second frps in the child has one authorized "
                "key): `ssh <a|b> <auth> <item>...` = ONE golang.org/x/crypto/ssh client (no key / the authorized key / an unknown key / raw bytes "
                "instead of a handshake) that opens channels of any type (session, direct-tcpip, forwarded-tcpip, x11, empty, unknown, random), "
                "sends global requests (tcpip-forward, cancel-tcpip-forward, keepalive, unknown; payloads well-formed, truncated anywhere, with a "
                "lying string length, trailing bytes, random) and channel requests (exec, shell, pty-req, env, subsystem, ..., unknown) whose "
                "payloads come from ONE class around the `uint32 length || string` framing: empty, shorter than the length field, the field "
                "alone, exact, prefix smaller / larger (by 1, far), prefixes near 2^31 and 2^32 (0x7FFFFFFB.., 0x80000000, 0xFFFFFFF0..0xFFFFFFFF), "
                "8-32 KB, bytes that are not UTF-8, truncated, trailing data; bodies = frpc command lines (every supported type with ports of the "
                "allowPorts window, domains, bad / unknown flags, --help, empty arguments, NUL bytes, unsupported types, the token / a wrong one / "
                "none, colliding proxy names); items in any order on several channels, data, channel closes, a disconnect at any position; after "
                "the script every open channel gets a request with WantReply (in-order handling: everything before it was handled), a complete "
                "`ssh -R`-like script waits for the gateway's answer on the first channel (banner => one user connection through the tunnel must "
                "be echoed: `up1`), and the op returns only when no goroutine of the process is inside handleNewChannel any more (goroutine dump, "
                "<= 2 s, else `fail:`); the Lean engine turns the items into SshGw.Ev, runs SshGw.step with the arithmetic of `end` as the "
                "regenerated facts have it and predicts the death exactly; `sstorm` = 4-10 such clients at once, three scripts each. LIMITS "
                "(eng_crash_limits.go; the child's second frps has maxPortsPerClient = 2): `maxports <cid> <variant>` = one raw session fills the "
                "limit (tcp / udp by variant), asks for one proxy more - the refusal must be ANSWERED -, then in one of six orders CloseProxy + a "
                "NewProxy that now fits, Ping, another proxy above the limit (each answered within 2 s), drops (its port must stop listening "
                "within 2 s) and logs in again WITH ITS RUN ID (LoginResp within 2 s, a proxy, a Ping). OIDC (eng_crash_oidc.go; a third frps of "
                "the child with auth.method = oidc against the in-process OpenID provider of the C04 engine, additionalScopes HeartBeats + "
                "NewWorkConns): `ostorm <seed> <nconn> <n>` = after one sequential login 8-20 peers at once, 40-120 rounds each: logins with "
                "real RS256 tokens (the fleet's subject, own subjects, a token of an unpublished key), Pings and NewWorkConns carrying tokens - "
                "all through the ONE verifier object -, then a fresh login that must be answered",
        "trusted": COMMON_TRUST + [
            "translator translate/gen_lockfacts.go (go/ast, syntactic): regenerates Frp/Gen/LockFacts.lean on every run - every access to "
            "the 24 designated map / member-list fields with the lock mode held at that statement (Lock/RLock/Unlock/RUnlock in statement "
            "order, defer, branch merge by intersection, closures start with nothing held unless called on the spot), every close( site with "
            "its guard class, every send on a channel closed in the same file, handler registrations, the first-message switch, NewControl's "
            "statements before the allocation. It does not follow pointers/aliases across functions: a map handed out of its struct would be "
            "missed (kind `use` would show it; none exists today) and it trusts that `X.mu` next to `X.field` is the right mutex",
            "pinned by hand from reading the code (Props/C16.lean closeOwners / sendOwners / helpers_pinned): the 14 close sites without a "
            "syntactic guard are in functions that run once per object; the 3 unrecovered sends are made by the goroutine that also closes; "
            "Routers.exist and visitor Manager.startVisitor are only called with the lock held (their call sites ARE checked)",
            "translator translate/gen_nilfacts.go (go/ast, syntactic): regenerates Frp/Gen/NilFacts.lean on every run - the pointer- and map-typed "
            "fields of the msg structs and every use of a pointer-typed one (UDPPacket.LocalAddr / RemoteAddr) in the files that name the struct, "
            "classified (field load, *, method, argument, nil comparison, copy, other) with a guard flag (`if x != nil`, early exit on `x == nil`, "
            "inside errors.PanicToError); a field handed to a local closure or a top-level function of the same package is followed into the "
            "callee (depth 3). It does not type-check: it recognises the fields by name inside files that mention msg.UDPPacket, and it does not "
            "follow the pointer through assignments to other variables (reported as kind `other`, which the Lean judgement rejects)",
            "pinned by hand from the Go standard library (Props/C16.lean): (*net.UDPAddr).String tests its receiver for nil; "
            "(*net.UDPConn).WriteToUDP returns errMissingAddress for a nil address",
            "translator translate/gen_lockorder.go (go/ast, syntactic): regenerates Frp/Gen/LockOrder.lean on every run - every Lock()/RLock() "
            "call of client/ pkg/ server/ with the mutex named by its declaration (receiver / parameter / local / struct-field types resolved "
            "syntactically; a call it cannot name is listed in `unresolved`, pinned empty), the same statement-order flow rules as gen_lockfacts, "
            "closures taken as run on the spot unless they are the operand of `go`; calls are resolved to functions and methods of this "
            "repository (promoted methods through embedded structs included) and their transitive acquisition sets are added as edges of the "
            "caller's held locks. NOT followed: calls through interfaces and function values (pxy.Close() under Control.mu reaching a group "
            "controller, plugin callbacks) - those nestings are exercised by the engine only; mutexes are identified by declaration, not by "
            "instance (two instances of one type count as one node: a self-loop is reported, never missed). It also extracts the statements "
            "between `svr.ctlManager.Add` and `ctl.Start()` in RegisterControl with the number of `return`s among them, and whether "
            "HandleTCPWorkConnection discards the error of net.ResolveTCPAddr",
            "model Frp/Model/RegCtl.lean (RegisterControl over one run id) written by hand; tied by register_control_fact (regenerated: no "
            "return between Add and Start) and by the gated `relogin` ops whose forced schedule the Lean engine runs on the model; "
            "Control.worker ends once the control connection is closed and is the only closer of doneCh (read from server/control.go)",
            "pinned by hand from go-proxyproto v0.7.0 (Model/Crash.lean handleStartWork): formatVersion1 / Header.IPs assert "
            "`.(*net.TCPAddr)` and then load `.IP`; an untyped nil fails the assertion (ErrInvalidAddress), a typed nil passes it",
            "models Frp/Model/Crash.lean (NewControl pool/capacity arithmetic, Dispatcher.readLoop step, first-message switch, discoverConn "
            "buffer, udp work-connection reader + consumer, RegisterWorkConn against the worker's teardown steps) written by hand; the teardown "
            "model is tied by register_recover_fact (the regenerated guard of the send in RegisterWorkConn) and by the gated `tear` ops; NewControl tied by newcontrol_source (source text) and by the engine's login ops; the handler tables by "
            "dispatch_facts; Go's `makechan` panics iff size < 0 (or above maxAlloc, unreachable: capacity <= maxPoolCount+10)",
            "translator translate/gen_indexfacts.go (go/ast, syntactic): regenerates Frp/Gen/IndexFacts.lean on every run - every x[i] / x[a:b] "
            "of the non-test files of pkg/util/http, pkg/util/vhost, pkg/util/tcpmux with the operand's kind (map / string-slice-array / "
            "unknown, resolved from the package's declarations without a type checker), the bounds (constant, len(v), i, i+k, len(v)-k, other) "
            "and the guards that dominate it (conditions of enclosing if / for, negated conditions of earlier ifs whose body leaves, && / || "
            "operands; len comparisons, != \"\", strings.Index* results tested >= 0, strings.Count of a non-empty literal tested != 0); a fact "
            "about a variable is dropped at every assignment to it (loop-assigned variables at the loop head), branches merge by intersection, "
            "closures start empty. Trusted: these flow rules and that nothing else writes the variable (address-taken variables are treated as "
            "assigned). NOT covered: other panics of these packages (nil maps, type assertions), the standard library's own parsers "
            "(net/http ReadRequest, crypto/tls) and golib - those are exercised by the `ureq` / `ustorm` ops only",
            "translator translate/gen_pluginclose.go (go/ast, syntactic): regenerates Frp/Gen/PluginClose.lean on every run - the calls of every "
            "Close() method of pkg/plugin/client in source order, classified by the declared type of the receiver's field (*http.Server Close / "
            "Shutdown with or without a context.WithTimeout context, the package's Listener, mutexes, close(ch), receives / select / Wait, "
            "other), calls to top-level functions of the package followed (depth 3). Pinned by hand (Props/C16.lean closeCalleesPinned): "
            "vnet Controller.UnregisterServerConn takes a mutex and deletes a map entry; from net/http: (*Server).Close closes listeners and "
            "all connections and returns, (*Server).Shutdown returns only when no connection is active or its context is done",
            "model Frp/Model/UserInput.lean (index-site judgement with its semantics, hasPort / CanonicalHost with Go's indexing explicit, "
            "client Control.worker from the end of the dispatcher to the next login) written by hand; hasPort / CanonicalHost tied by the "
            "`canon` ops (real function, no recover, compared on every ASCII host generated) and by C06's router engine; the teardown model by "
            "plugin_close_nonblocking (regenerated) and the `ptear` ops; net.SplitHostPort / strings.TrimSuffix / strings.ToLower are total "
            "(standard library)",
            "pkg/ssh: the same extractor over pkg/ssh (Gen.IndexFacts.sshSites) with two more guard facts - `varLeLen i v` (i <= len(v), "
            "from `len(v) < i` left early; conversions that keep the value on a 64-bit platform are stripped: uint64(len(v)), int(i) for i of "
            "an unsigned type of at most 32 bits) and `defPlus i k T` (i := k + E with E = binary.BigEndian.Uint32/Uint16(...), possibly "
            "converted; T = the type the sum is computed in, u32 or wide) - and the types of the few x/crypto/ssh functions / fields pkg/ssh "
            "indexes through (ixExtResults / ixExtFields, read from the module source); it also lists the ssh.Unmarshal calls with the field "
            "types of their target, the `go` statements of the package and its recover() calls. Trusted: `int` is 64 bits (the 32-bit case is "
            "a theorem about the model only: ssh_exec_u32_int32_panics_iff); x/crypto/ssh v0.37.0 parseString / parseUint32 / Unmarshal as "
            "transcribed in Model/SshGw.lean; that x/crypto/ssh hands the requests of a channel to handleNewChannel in order and accepts "
            "request payloads as the client sent them (exercised by the `ssh` ops: the model predicts every death of the child exactly)",
            "model Frp/Model/SshGw.lean (handleNewChannel's loop body with the arithmetic type and the width of int as parameters, "
            "waitForwardAddrAndExtraPayload's two goroutines as one event fold) written by hand; tied by ssh_exec_shape / ssh_unmarshal_fact "
            "(regenerated) and by the `ssh` ops. NOT modelled: the ssh handshake and x/crypto/ssh's mux, parseClientAndProxyConfigurer "
            "(cobra / pflag on the exec string) and the virtual client behind a complete request - exercised by the `ssh` ops only",
            "translator translate/gen_lockbalance.go (go/ast, syntactic): regenerates Frp/Gen/LockBalance.lean on every run - for every function "
            "body and function literal of client/ pkg/ server/ (1115) the zero-argument X.Lock / RLock / Unlock / RUnlock calls in statement order, "
            "keyed by the text of X, with a MAY-held set (union over the branches that go on, loops: not entered + end of body + every break / "
            "continue); `defer X.Unlock()` and a deferred closure that unlocks X settle X; every `return` and the end of the body with something "
            "still held is emitted as a leak. It does not follow locks handed to another function to unlock (none in the tree: 0 leaks over 121 "
            "locking bodies, list of tolerated hand-overs `lockHandOvers` empty) and keys by text (a lock reached under two spellings in one "
            "body would be reported, never missed)",
            "translator translate/gen_mapcensus.go (go/ast, syntactic): regenerates Frp/Gen/MapCensus.lean on every run - every struct field of "
            "client/ pkg/ server/ whose declared type is a map (51), with the statements outside constructors that write it (index assignment, "
            "delete, clear, maps.Copy, reassignment; matched by field name inside the declaring package, a constructor = a function that builds "
            "the struct or is called New<Struct>); for pkg/auth additionally every assignment a METHOD makes to a field of its receiver's struct "
            "with the kind of the field's type. Pinned by hand (Props/C16.lean mapFieldsPinned, 6 entries with reasons): configuration value "
            "objects, the metrics tables behind serverMetrics.mu, Dispatcher.msgHandlers (set up before Run), the vnet routers (own RWMutex)",
            "model Frp/Model/LockBal.lean (one session's use of ctl.mu: NewProxy / CloseProxy handled synchronously by the read loop, the "
            "worker's teardown) written by hand; tied by lock_balance (regenerated) and the `maxports` ops",
            "exploration (obligations 3-4 of DESIGN 6 C16) is a search, not a proof: no crash found is not absence of crashes",
        ],
        "assumptions": [
            "serverCfg.Transport.MaxPoolCount >= 0 (operator configuration; not validated by frps: a negative value makes every login fatal)",
            "lock discipline is checked for the designated tables only; scalars, strings and slices outside them (Control.runID written by "
            "Replaced while the message loop reads it, DESIGN 7 #19; OidcAuthConsumer.subjectsFromLogin appended without a lock, #18; "
            "Session.clientMsg/clientTransporter in nathole HandleClient) cannot terminate the process and are notes, not violations",
            "golib/yamux/quic/kcp internals are not part of the facts; they are exercised by the storms only",
            "the -race variant of the storms (thorough tier in DESIGN) is not wired into ./check: see the builder report for what a manual run showed",
        ],
    }

META = {
        "engine": "lean+translate(LockFacts,NilFacts,LockOrder,IndexFacts,PluginClose,LockBalance,MapCensus)+harness(crash)",
        "design_ref": "DESIGN.md §6 C16",
        "technique": "go/ast extraction of lock states, channel close/send guards, handler tables, NewControl's allocation and the uses of "
                     "pointer-typed message fields into Lean facts "
                     "regenerated per run, judged by kernel-checked `decide`; small Lean models (pool capacity, dispatcher step, discover buffer, udp "
                     "work-connection reader, RegisterWorkConn vs. teardown) "
                     "with theorems for all inputs/histories; totality by message storms against a real frps+frpc in a sacrificial child process "
                     "with a watchdog tunnel; the peer also speaks on work and visitor connections, and session teardown is parked at verifhook gates "
                     "while work connections arrive; wedges: go/ast extraction of the lock-order graph (acquisitions through resolved calls) judged "
                     "against an emitted order, a small-step model of RegisterControl's Add / WaitClosed / Start chain with liveness theorems over "
                     "all login chains, and engine ops that demand an answer within 2 s (gated re-logins, gated group leaves, group registrations "
                     "after refusals)",
        "text": "Partial (proof obligations 1-2 as theorems, 3-4 as exploration). Theorems over facts regenerated from the source: every one of "
                "the 147 accesses to the 24 shared tables is made under the table's own mutex in a sufficient mode (the one exception found, the nathole HandleVisitor "
                "pre-check, was repaired by d804b75; its switch is on); every close( is once/flag/select-guarded, local, or one of 14 pinned "
                "single-owner sites; every send on a closable channel is recover-wrapped or same-goroutine (the one exception found, "
                "discoverConn.readLoop, was repaired by e107126). Model theorems: the work-connection channel capacity is non-negative and <= "
                "maxPoolCount+10 for every Login.PoolCount >= -10 and was NEGATIVE for every PoolCount < -10 before a1d6aa0 (frps died), "
                "non-negative for all inputs in the repaired variant, which is the tree now; a frame of any kind changes only the session it arrived on, unknown or "
                "malformed frames end that session only, unregistered types have no effect (all histories). Work / visitor connections: every use "
                "of a pointer-typed message field (regenerated: 9 uses of UDPPacket.LocalAddr / RemoteAddr in the two udp forwarders and the sudp "
                "proxy) is nil-guarded, a nil-safe method, a nil-tolerant callee or a copy, hence no history of frames on control, udp work and "
                "relayed connections - UDPPacket with any combination of absent addresses included - kills frps or touches another connection "
                "(frames_never_kill, srvRun_work_keeps_ctls, srvStep_work_confined); one unguarded load would (unguarded_load_witness). Teardown: "
                "with the deferred recover in RegisterWorkConn (regenerated fact) no interleaving of NewWorkConn offers with the worker's closing "
                "steps kills frps (teardown_safe_as_is, all label orders); without it an offer between close(workConnCh) and close(doneCh) does, "
                "whether or not doneCh is tested up front (teardown_unrecovered_dies). Exploration: ~660 op lines (thousands of messages, ~1500 "
                "work connections, ~5000 frames on them, ~20 gated teardowns) per quick run against a real frps/frpc in a child process, watchdog "
                "after every storm. Round 4 (USER side): every one of the 37 indexing / slicing expressions of pkg/util/http, pkg/util/vhost, "
                "pkg/util/tcpmux (regenerated) is a map lookup (24) or dominated by a guard that implies Go's bounds check (13: "
                "index_sites_guarded; index_ok_sound for every assignment of lengths and integers satisfying the guards); hasPort / CanonicalHost "
                "with `host[0]` able to panic never panic and equal Host.canonicalHost on every byte string (canonicalHost_never_panics); a guard "
                "does not survive strings.TrimSuffix (guard_does_not_survive_trim). frpc teardown: every Close() of pkg/plugin/client "
                "(regenerated, 11 methods) makes only calls that cannot wait for a user, hence frpc reaches the next login within four turns of "
                "the worker for every number of active requests, tcpMux on or off, every interleaving with the users (teardown_relogs_as_is); a "
                "Shutdown without deadline never gets there with tcpMux off and one request that does not end (shutdown_wedges_forever), and "
                "does with tcpMux on (shutdown_mux_relogs). Exploration: +~100 hostile user requests one by one, ~7 user storms, ~115 hosts "
                "through CanonicalHost, ~11 plugin teardowns with held requests per quick run. Round 5 (ssh tunnel gateway): the 6 indexing / "
                "slicing expressions of pkg/ssh (regenerated: 3 map lookups, `args[0]`, `req.Payload[:4]`, `req.Payload[4:end]`) are judged by the "
                "same sound judgement, which now also reads HOW a bound was computed: `end := 4 + E` in uint32 does not imply 4 <= end "
                "(ssh_end_rejection_right: len 5, E = 0xFFFFFFFC, end = 0), in a 64-bit type it does; the loop body of handleNewChannel with Go's "
                "arithmetic explicit panics EXACTLY for an exec request of more than 4 bytes with a length prefix 0xFFFFFFFC..0xFFFFFFFF "
                "(ssh_exec_u32_panics_iff; from 0x7FFFFFFC on a 32-bit build), never with the sum made in uint64 (ssh_exec_fixed, all types / "
                "payloads / capacities), and then no sequence of global requests, channel opens and channel requests of a connection ends the "
                "process (ssh_conn_never_dies_fixed; x/crypto/ssh's Unmarshal of the forward request never slices out of range: "
                "ssh_unmarshal_never_panics). Which of the two holds is READ FROM THE SOURCE (C16.sshExecArith; ssh_exec_code / ssh_conn_code / "
                "ssh_sites_guarded_code are valid on both trees). Exploration: +~75 hostile ssh clients one by one and ~4 storms per quick run. "
                "Lock BALANCE (regenerated, all of client/ pkg/ server/): no function body can be left - return or end, on any path - with a "
                "mutex it locked still held (lock_balance: 0 leaks over 121 locking bodies); for a session's ctl.mu this gives: every NewProxy "
                "(within or above max_ports_per_client), CloseProxy and Ping of a live session is handled and the session is torn down when "
                "its connection goes (session_handles_all, session_teardown_closes, all message sequences); ONE way out with the lock held and "
                "the session is never torn down again, whatever follows (lock_leak_never_closes, lock_leak_after_one_refusal). Map CENSUS "
                "(regenerated): each of the 51 map-typed struct fields that is written after construction (36) is a designated shared table "
                "judged by obligation 1 or pinned with its reason (map_census_closed); in pkg/auth - whose verifier is one object shared by "
                "all connection goroutines - the only field a method assigns is a slice, no map (auth_field_writes_pinned). Exploration: +~8 "
                "`maxports` sessions and ~3 oidc storms (~2500 logins, ~1000 pings, ~1300 work connections through the verifier) per quick run.",
        "note": "Three findings, each reproduced on the real code by the engine and kept behind a switch: C16.precheckLockIsFixed "
                "(hooks/C16-fix-precheck-lock.patch), Crash.poolCountIsFixed (hooks/C16-fix-poolcount.patch), Crash.discoverIsFixed "
                "(hooks/C16-fix-discover-close.patch). Trusted: Lean kernel; the syntactic extractor; the pinned single-owner tables; the "
                "hand-written models. Not covered: races on non-map objects, third-party libraries, resource exhaustion (memory / goroutine "
                "growth under flood), Windows/other platforms. "
                "Round 3 (wedges): lock ORDER over regenerated facts - 131 lock sites on 38 mutexes, 16 'acquired while held' edges through "
                "syntactically resolved calls, every edge goes forward in the emitted order, hence no cycle and no self-deadlock "
                "(lock_order_acyclic; a cycle defeats every order: cycle_defeats_order); RegisterControl - for ALL chains of overlapping logins "
                "with one run id and all interleavings every login is answered and every control closes (every_login_answered, "
                "every_login_answered_unattended, relogin_op_answered), the variant that skips Start for a superseded control wedges the run id "
                "for ever (superseded_skip_wedges_forever, relogin_op_wedged). Two more findings of the unchanged tree, each reproduced by the "
                "engine (harness/corpus/crash), kept behind a switch with a tested patch: Crash.startWorkAddrIsFixed (frpc: a StartWorkConn "
                "address that does not resolve + proxyProtocolVersion => nil dereference in go-proxyproto, hooks/C16-fix-startworkconn-addr.patch) "
                "and Crash.udpForwardSendIsFixed (frps / frpc: a user datagram read just before a udp proxy closes => send on closed channel, "
                "hooks/C16-fix-udp-forward-send.patch). Not followed by the lock-order extractor: calls through interfaces / function values. "
                "Round 5: one more finding of the unchanged tree, repaired by a012278: C16-ssh-exec-payload-wrap (frps: one ssh "
                "`exec` request with a length prefix 0xFFFFFFFC..0xFFFFFFFF on the ssh tunnel gateway => slice bounds out of range in a goroutine "
                "without recover; without authorizedKeysFile no credential is needed), reproduced by the `ssh` ops, switch C16.sshExecArith read "
                "from the regenerated facts, hooks/C16-fix-ssh-exec-payload-wrap.patch; inverse: mutants/C16-revert-fix-a012278.patch.",
    }
