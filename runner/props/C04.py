from props import COMMON_TRUST
import re


def peer_nontrivial(tok, res):
    if tok[0] == "login":
        return True                      # both outcomes matter (accepted with a good key / refused with a bad one)
    if tok[0] == "work":
        return res.startswith("pooled") or res.startswith("refused")
    if tok[0] == "ping":
        return res.startswith("pong")
    return False


def peer_class(res):
    if res.startswith("ok:"):
        return "ok"
    if res.startswith("x") or res == "empty":
        return "table(%d)" % (0 if res == "empty" else res.count(";") + 1)
    return res[:16]


PROP = {
        "level": "proof",
        "gens": ["AuthGateFacts"],
        "theorems": [
            "Frp.C04.login_needs_key", "Frp.C04.login_refused", "Frp.C04.login_token_network",
            "Frp.C04.login_oidc_network", "Frp.C04.aap_irrelevant_from_network", "Frp.C04.login_aap_irrelevant",
            "Frp.C04.alwaysPass_iff", "Frp.C04.network_never_alwaysPass",
            "Frp.C04.ping_cases", "Frp.C04.ping_scope", "Frp.C04.ping_scope_token", "Frp.C04.ping_moved_needs_key",
            "Frp.C04.workconn_scope_partial", "Frp.C04.workconn_refused", "Frp.C04.workconn_unknown_runid",
            "Frp.C04.workconn_scope_no_gateway", "Frp.C04.workconn_scope_witness", "Frp.C04.workconn_scope_fixed",
            "Frp.C04.first_refused_unchanged", "Frp.C04.refused_no_residue", "Frp.C04.refused_along_no_residue",
            "Frp.C04.login_others_untouched", "Frp.C04.work_others_untouched",
            "Frp.C04.new_session_only_by_login", "Frp.C04.proxy_needs_session",
            "Frp.C04.holdsOn_sound", "Frp.C04.model_holdsOn_login", "Frp.C04.model_holdsOn_ping",
            "Frp.C04.model_holdsOn_work_fixed", "Frp.C04.model_holdsOn_work_no_gateway",
            "Frp.C04.source_facts",
        ],
        "engines": [
            {"name": "peer", "quick_n": 6000, "thorough_n": 30000, "thorough_seeds": 5,
             "search_n": 6000, "search_seeds": 3,
             "nontrivial": peer_nontrivial, "result_class": peer_class},
        ],
        "rule": "peer engine: a real server.Service on loopback per episode (token auth with every subset of the scopes "
                "{HeartBeats, NewWorkConns}; 2 of 8 episodes with a stub OIDC verifier); the harness is a raw peer using the "
                "real codec over the real client connector (tcp, tls, websocket, kcp, quic; yamux/quic streams) and over the "
                "internal listener; after every op the session table (run id, verifier kind, pool, cap, accepted pings, "
                "proxies) is dumped through a verif hook and compared with the model. Non-trivial = logins, work connections "
                "that were pooled or refused with a reply, pings answered; distinct = distinct (op line, result) pairs",
        "trusted": COMMON_TRUST + [
            "model Frp/Model/AuthGate.lean written by hand from server/service.go (handleConnection, RegisterControl, "
            "RegisterWorkConn, RegisterVisitorConn), server/control.go (ControlManager, handlePing, pool, worker), "
            "pkg/auth/{token,oidc,pass}.go; tied by the peer engine",
            "util.GetAuthKey is abstract (H); the harness computes md5(token ++ decimal ts) itself with crypto/md5 and the "
            "engine compares keys against that digest, so a change of GetAuthKey shows up as a disagreement",
            "go-oidc Verify is abstract (none = error / some subject); the engine uses a stub verifier installed through "
            "the verif hook Service.VerifAuthSetVerifier (the real one needs an issuer on the network)",
            "translator translate/gen_authgatefacts.go (go/ast): regenerates Frp/Gen/AuthGateFacts.lean on every run - the bypass "
            "condition in RegisterControl, every internal-argument of HandleListener/handleConnection/RegisterControl calls, "
            "every write and read of ClientSpec.AlwaysAuthPass, the value of ssh NoClientAuth, every reference to "
            "auth.AlwaysPassVerifier; pinned by theorem C04.source_facts",
            "read from the code, not machine-checked: svr.sshTunnelListener is handed only to ssh.NewGateway (service.go NewService); "
            "the ssh handshake itself (golang.org/x/crypto/ssh PublicKeyCallback) is what authenticates a gateway user",
            "hooks: server/verif_authgate.go (tag verif): VerifAuthSessions (read-only dump), VerifAuthInternalListener, "
            "VerifAuthSetVerifier",
        ],
        "assumptions": [
            "plugins: theorems hold for every plugin behaviour (arbitrary msg -> Option msg); the engine runs with no plugin registered",
            "NewControl failing (crypto.NewWriter error) and Login.PoolCount < -10 (panic, DESIGN 7 #4 / C16) are outside the model; the engine sends pool counts 0, 1, 7",
            "no timestamp freshness check exists in frps and token and timestamp are concatenated without separator: "
            "'accepted' means key = H token ts for the ts the peer chose, nothing more (a recorded Login can be replayed)",
            "with TCPMux on (default) HeartbeatTimeout defaults to -1 and the heartbeat watchdog is off altogether; the ping theorems are about lastPing",
            "the visitor manager's decision for NewVisitorConn is an input of the model (C08)",
            "concurrent logins appending to OidcAuthConsumer.subjectsFromLogin without a lock (DESIGN 7 #18) are not modelled",
        ],
    }

META = {
        "engine": "lean+harness(peer)",
        "design_ref": "DESIGN.md §6 C04",
        "technique": "Lean 4 model of the first-message dispatcher and heartbeat handler with abstract key function and OIDC verifier; theorems for all states, messages, plugin behaviours, and by induction over all event histories / refused bursts; differential correspondence against a real server.Service driven as a raw network peer over five transports and the internal listener",
        "text": "Proof: a login is answered with success and a session appears only if the verifier RegisterControl selected accepted the login the plugins handed on; from a network listener that verifier is always the configured one and the outcome (state and reply) is identical for both values of client_spec.always_auth_pass; over every history without logins on the internal listener no session ever holds the always-pass verifier. With the HeartBeats scope on, a ping with a key that is not accepted leaves the whole state (lastPing included) unchanged and is answered Pong{Error}; the session is not closed by it. A work connection stays open (pooled) only if its run id names a live session, the verifier used accepts it and the pool has room; otherwise it is closed and the state is unchanged. Every sequence of refused first messages of any length leaves the server state literally unchanged; accepted logins / work connections touch no session with another run id. Kernel-checked, axioms propext/Quot.sound only. Tied per run by 6k (quick) operations against a real frps.",
        "note": "Finding (known, witness theorem workconn_scope_witness): RegisterWorkConn verifies with the SESSION's verifier, so a work connection from a network listener naming the run id of an ssh-gateway (always-pass) session is pooled without a key even with the NewWorkConns scope on; repaired model behind AuthGate.workVerifierIsFixed (theorem workconn_scope_fixed), Go patch hooks/C04-fix-workconn-verifier.patch. Trusted: Lean kernel; the hand-written model; harness generators; the read-only facts about who reaches RegisterControl with internal = true. Not covered: MD5/OIDC cryptography, timestamp freshness (none exists), the ssh handshake itself.",
    }
