from props import COMMON_TRUST
import re


def peer_nontrivial(tok, res):
    if tok[0] in ("login", "ologin", "tlogin"):
        return res not in ("seterr", "notok")   # both outcomes matter (accepted with a good key / refused with a bad one)
    if tok[0] in ("work", "owork", "twork"):
        return res.startswith("pooled") or res.startswith("refused")
    if tok[0] in ("ping", "oping", "tping"):
        return res.startswith("pong")
    if tok[0] == "uconn":
        return res.startswith("e1") or res == "e0"
    if tok[0] == "ssh":
        return res.startswith("up:") or res in ("authfail", "closed")
    if tok[0] in ("authkey", "authkey2", "cproxy", "alive"):
        return res not in ("gone", "timeout")
    return False


def peer_class(res):
    if res.startswith("ok:"):
        return "ok"
    if res.startswith("up:"):
        p = res.split(":")
        return "up(ap=%s,%s)" % (p[3], p[4]) if len(p) == 5 else "up?"
    if res.startswith("e1:") or res.startswith("e0:"):
        return res[:2]
    if res.startswith("x") or res == "empty":
        return "table(%d)" % (0 if res == "empty" else res.count(";") + 1)
    return res[:16]


PROP = {
        "level": "proof",
        "gens": ["AuthGateFacts"],
        "theorems": [
            "Frp.C04.login_needs_key", "Frp.C04.login_refused", "Frp.C04.login_token_network",
            "Frp.C04.login_oidc_network", "Frp.C04.aap_irrelevant_from_network", "Frp.C04.login_aap_irrelevant",
            "Frp.C04.alwaysPass_iff", "Frp.C04.network_never_alwaysPass",
            "Frp.C04.ping_cases", "Frp.C04.ping_scope", "Frp.C04.ping_scope_token", "Frp.C04.ping_moved_needs_key",
            "Frp.C04.workconn_scope_partial", "Frp.C04.workconn_refused", "Frp.C04.workconn_unknown_runid",
            "Frp.C04.workconn_scope_no_gateway", "Frp.C04.workconn_scope_witness", "Frp.C04.workconn_scope_fixed",
            "Frp.C04.first_refused_unchanged", "Frp.C04.refused_no_residue", "Frp.C04.refused_along_no_residue",
            "Frp.C04.login_others_untouched", "Frp.C04.work_others_untouched",
            "Frp.C04.new_session_only_by_login", "Frp.C04.proxy_needs_session",
            "Frp.C04.holdsOn_sound", "Frp.C04.model_holdsOn_login", "Frp.C04.model_holdsOn_ping",
            "Frp.C04.model_holdsOn_work_fixed", "Frp.C04.model_holdsOn_work_no_gateway",
            "Frp.C04.source_facts",
            "Frp.C04.oidcVerify_iff", "Frp.C04.tokenValid_strict", "Frp.C04.oidc_login_claims",
            "Frp.C04.oidc_ping_claims", "Frp.C04.oidc_work_claims", "Frp.C04.subjects_only_from_logins",
            "Frp.C04.ssh_handshake_needs_key", "Frp.C04.gw_refused_unchanged", "Frp.C04.gw_unauthorized_no_session",
            "Frp.C04.gw_up_needs", "Frp.C04.gw_noauth_needs_token", "Frp.C04.net_never_internal",
            "Frp.C04.gw_allCfg", "Frp.C04.sys_alwaysPass_only_by_authorized_key",
            "Frp.C04.model_holdsOn_login_oidc", "Frp.C04.model_holdsOn_ssh", "Frp.C04.source_facts_gateway",
            "Frp.C04.sigOkAt_iff", "Frp.C04.expired_none", "Frp.C04.unpublished_none",
            "Frp.C04.stale_login_refused", "Frp.C04.stale_ping_refused", "Frp.C04.stale_work_refused",
            "Frp.C04.replay_refused_after_any_history", "Frp.C04.cache_provenance", "Frp.C04.rotated_key_refused",
            "Frp.C04.login_reply_depends", "Frp.C04.ping_reply_depends", "Frp.C04.work_reply_depends",
            "Frp.C04.timed_login_depends", "Frp.C04.timed_ping_depends", "Frp.C04.timed_work_depends",
            "Frp.C04.refused_no_residue_timed",
            "Frp.C04.user_served_from_pool", "Frp.C04.pooled_step", "Frp.C04.pooled_only_by_accepted_work",
            "Frp.C04.user_served_by_checked_conn", "Frp.C04.model_holdsOn_user",
            "Frp.C04.lastPing_step", "Frp.C04.lastPing_frozen_without_valid_ping", "Frp.C04.model_holdsOn_lastPing",
            "Frp.C04.login_proves_token", "Frp.C04.other_token_login_refused", "Frp.C04.other_token_ping_refused",
            "Frp.C04.other_token_work_refused", "Frp.C04.model_holdsOn_keyInj",
            "Frp.C04.ssh_only_pubkey_can_authenticate", "Frp.C04.gw_ssh_other_methods_fail", "Frp.C04.sshAuthLoop_ok",
            "Frp.C04.gwSshCfg_fields", "Frp.C04.source_facts_internal_provenance", "Frp.C04.source_facts_ssh_methods",
            "Frp.C04.source_facts_liveness_key",
        ],
        "engines": [
            {"name": "peer", "quick_n": 8000, "thorough_n": 32000, "thorough_seeds": 5,
             "search_n": 8000, "search_seeds": 3,
             "nontrivial": peer_nontrivial, "result_class": peer_class},
        ],
        "rule": "peer engine: a real server.Service on loopback per episode, 16 kinds in turn: token auth with every subset "
                "of the scopes {HeartBeats, NewWorkConns}, each token episode with a token of its own (0-200 bytes with the MD5 "
                "block boundaries 55/56, 63/64/65, 119/120, 127/128 over-represented; ASCII, ending in digits, multi-byte "
                "UTF-8, arbitrary bytes) and tcpMux on or off; keys of all three paths (Login, Ping, NewWorkConn) include the "
                "keys of tokens CLOSE to the configured one (every kind of proper prefix incl. the first 64 / 63 bytes, "
                "extensions, one byte changed, same first 64 bytes with another tail), timestamps of every magnitude "
                "(MinInt64 ... MaxInt64); util.GetAuthKey itself is evaluated on such tokens and pairs of tokens (ops authkey / "
                "authkey2) and compared with two MD5s that are not frp's (crypto/md5 in the harness, Frp.Md5 in the driver, "
                "which must agree with each other on every op line); 2 of 16 with a stub OIDC verifier; 2 of 16 with auth.method=oidc "
                "for real (the verifier NewService builds itself: auth.NewTokenVerifier -> go-oidc discovery + remote JWKS "
                "against an in-process OpenID provider on loopback; every key of these episodes is fetched by the real frpc "
                "side auth.NewOidcAuthSetter.SetLogin/SetPing/SetNewWorkConn from the provider's client-credentials "
                "endpoint: issuer / audience (single, list) / expiry / nbf inside and outside the leeway / signing key, "
                "alg none, HS256, damaged and transplanted signatures / non-JWT / endpoint failure; server options "
                "audience, skipExpiryCheck, skipIssuerCheck; subjects changing between login and ping / work connection; "
                "client and server scope settings agreeing and not); 2 of 12 with the ssh tunnel gateway enabled (host key "
                "and authorized_keys made at run time; the harness is an in-process x/crypto/ssh client that tries EVERY "
                "user-auth method x/crypto/ssh implements, alone and in combinations of up to five requests in any order: "
                "none, password (empty, the frp token, anything), keyboard-interactive (any answers), gssapi-with-mic (a fake "
                "mechanism), publickey with an authorized key, an unknown key, an authorized / unknown public key without the "
                "private key; authorized_keys rewritten, emptied, "
                "removed, made unparsable, duplicate lines between connections; authorizedKeysFile not configured "
                "(NoClientAuth) with right / wrong / no --token; tcp --remote_port 0 / stcp commands, unsupported type, "
                "bad flag, proxy name clashes; a user connection through the tcp proxy echoed by the ssh client; network "
                "and internal work connections naming gateway sessions); TIME AND PROVIDER STATE in the OIDC episodes: "
                "tokens are minted once (omint), kept and presented again on all three paths (tlogin / tping / twork) "
                "while the provider's JWKS document changes between messages (okeys: k1, k2, both, none, request fails; "
                "tokens signed with the second key; go-oidc's key cache is part of the model state) and the clock moves "
                "(oclock); every O episode runs a key-rotation scenario (valid -> key withdrawn, still cached -> cache "
                "refreshed by a token of the new key -> refused -> key published again), every other one a token that "
                "lives 3 s and a real wait; 2 of 16 episodes (C) run go-oidc's verifier with the configuration "
                "NewTokenVerifier builds plus an injected clock (oidc.Config.Now) inside frp's real OidcAuthConsumer, "
                "so the second of exp, exp+1, the nbf leeway and +1 h are hit exactly; SIEGES: 2 of 16 episodes (token, "
                "stub OIDC) are nothing but runs of 64-111 (1 in 8: 256-319) consecutive refused operations of one kind "
                "or mixed - NewWorkConn with bad keys naming ONE live session, NewWorkConn for unknown run ids, Login with "
                "bad keys naming that session's run id / none / others, NewVisitorConn, Ping with bad keys on its own "
                "control connection, other first messages and malformed frames - as streams of one connection, each on "
                "a tcp connection of its own (transport tcpn), or over all transports; the tables are dumped before "
                "and after (must be equal), then the besieged session must answer a heartbeat, take a valid work "
                "connection and carry a user connection through its tcp proxy (tproxy / uconn: a real connection to the "
                "remote port, echoed by the harness on the pooled work connection frps chose); the same sieges start "
                "with low probability inside every other episode, and OIDC episodes run sieges of one stale token "
                "(expired / key withdrawn) replayed on the three paths. LIVENESS: every result carries a mark when Control.lastPing of any session moved during an "
                "operation that was not a heartbeat on its control connection (NewProxy, CloseProxy - op cproxy -, work / "
                "visitor connections, refused logins, user connections); every run starts with a REAL-TIME scenario (frps with "
                "heartbeatTimeout 1 s and the HeartBeats scope): a session stops sending valid heartbeats and keeps sending "
                "invalid ones plus CloseProxy / NewProxy / work connections every 250 ms for 3.25 s - it must be gone, a "
                "bystander with valid heartbeats alive. The harness is a raw peer using the real codec "
                "over the real client connector (tcp, tls, websocket, websocket with TLS inside, kcp, quic; yamux/quic "
                "streams, or a connection per attempt with tcpMux off) and over the internal listener; the hand corpus sends "
                "Login with client_spec.always_auth_pass=true and five kinds of wrong key over every transport with tcpMux on "
                "and off in every run; after every op the session table (run id, verifier kind, pool, cap, accepted pings, proxies) "
                "is dumped through a verif hook and compared with the model. Non-trivial = logins, work connections that "
                "were pooled or refused with a reply, pings answered, ssh connections; distinct = distinct (op line, "
                "result) pairs",
        "trusted": COMMON_TRUST + [
            "model Frp/Model/AuthGate.lean written by hand from server/service.go (handleConnection, RegisterControl, "
            "RegisterWorkConn, RegisterVisitorConn), server/control.go (ControlManager, handlePing, pool, worker), "
            "pkg/auth/{token,oidc,pass}.go; tied by the peer engine",
            "util.GetAuthKey is abstract (H) in the theorems; in the driver H is Frp.Md5 (RFC 1321 in Lean) over token ++ decimal "
            "ts, cross-checked on every op line against the harness's crypto/md5; what frps accepts and what util.GetAuthKey "
            "returns (ops authkey / authkey2) are compared with that, and the regenerated fact authKeySrc pins the statements "
            "of GetAuthKey (whole token, then strconv.FormatInt(ts, 10), md5, hex)",
            "go-oidc Verify is modelled at claim level (issuer incl. the Google exception, audience, expiry, nbf leeway) "
            "from coreos/go-oidc v3.14.1 verify.go with the oidc.Config auth.NewTokenVerifier builds; JWT parsing and "
            "the signature check (jose.ParseSigned with the provider's algorithms + RemoteKeySet.VerifySignature) are the "
            "abstract Prim.jwtClaims / Prim.jwtSigOk. Tied by the O episodes: the real verifier against the harness's "
            "provider, the harness decodes every minted token itself (encoding/json, crypto/rsa) and compares it with "
            "the op line; the stub episodes (verif hook Service.VerifAuthSetVerifier) remain for subject bookkeeping",
            "the ssh handshake itself is golang.org/x/crypto/ssh (server and client): the model's SshAuth.pubkey k proved "
            "abstracts 'the client signed with the private key of k'; the user-auth loop (AuthGate.sshTry / sshAuthLoop: which "
            "method needs which ServerConfig field, a bad signature ends the connection, six failures) is written by hand from "
            "x/crypto v0.37.0 ssh/server.go serverAuthenticate; tied by the S episodes (real gateway, real ssh client). The go "
            "ssh client sends a method only if the server lists it as able to continue, so 'password refused' is observed as "
            "'never asked for / handshake fails'",
            "the harness's OpenID provider and ssh client (harness/eng_peer_auth.go) are test doubles written for this check",
            "go-oidc's RemoteKeySet (cached keys first, refetch and replace on a miss, nothing on a failed fetch) is modelled "
            "from coreos/go-oidc v3.14.1 jwks.go (AuthGate.sigOkAt / cacheAfterSig / cacheAfterVerify); tied by the O and C "
            "episodes, whose results depend on it; in C episodes the verifier is built by the harness (same oidc.Config as "
            "auth.NewTokenVerifier plus Now) and installed through VerifAuthSetVerifier inside auth.NewOidcAuthVerifier",
            "translator translate/gen_authgatefacts.go (go/ast): regenerates Frp/Gen/AuthGateFacts.lean on every run - the bypass "
            "condition in RegisterControl, every internal-argument of HandleListener/handleConnection/RegisterControl calls, "
            "every write and read of ClientSpec.AlwaysAuthPass, the value of ssh NoClientAuth, every reference to "
            "auth.AlwaysPassVerifier; pinned by theorem C04.source_facts",
            "the same translator lists every mention of svr.sshTunnelListener in server/ and of peerServerListener in pkg/ssh, "
            "the PutConn calls of pkg/ssh and pkg/virtual, the order handshake -> virtual client in TunnelServer.Run and the "
            "statements of NewGateway's PublicKeyCallback; pinned by theorem C04.source_facts_gateway",
            "the same translator, added in round 4: parameter lists of HandleListener / handleConnection / RegisterControl / "
            "RegisterWorkConn, every identifier `internal` in server/ with what it resolves to (a parameter, never assigned), the "
            "identifiers of the bypass condition, every function of server/ from net.Conn / net.Listener / net.Addr to bool (none), "
            "the condition that puts the configured verifier in charge in RegisterWorkConn; every ssh.ServerConfig literal and "
            "every write of one of its authentication fields, every use of sshConn.Permissions and every write to clientCfg in "
            "TunnelServer.Run; every lastPing.Store call and the order plugin -> VerifyPing -> return -> Store in handlePing; the "
            "statements of util.GetAuthKey and its uses in pkg/auth; pinned by theorems C04.source_facts_internal_provenance, "
            "C04.source_facts_ssh_methods, C04.source_facts_liveness_key",
            "hooks: server/verif_authgate.go (tag verif): VerifAuthSessions (read-only dump), VerifAuthInternalListener, "
            "VerifAuthSetVerifier",
        ],
        "assumptions": [
            "plugins: theorems hold for every plugin behaviour (arbitrary msg -> Option msg); the engine runs with no plugin registered",
            "NewControl failing (crypto.NewWriter error) and Login.PoolCount < -10 (panic, DESIGN 7 #4 / C16) are outside the model; the engine sends pool counts 0, 1, 7",
            "no timestamp freshness check exists in frps and token and timestamp are concatenated without separator: "
            "'accepted' means key = H token ts for the ts the peer chose, nothing more (a recorded Login can be replayed)",
            "with TCPMux on (default) HeartbeatTimeout defaults to -1 and the heartbeat watchdog is off altogether; the ping theorems "
            "are about lastPing (lastPing_step / lastPing_frozen_without_valid_ping: every event, every history); the watchdog "
            "itself (1 s ticker, time.Since(lastPing) > timeout) is driven once per run in real time with slack: the session "
            "may be found gone from 0.5 s of model time before the timeout and must be gone 2 s after it",
            "key function: `KeyInjective H` (for a fixed timestamp different tokens give different keys) is an ASSUMPTION of "
            "login_proves_token / other_token_*_refused; it is false for MD5 on arbitrary strings (collisions exist) and is "
            "evaluated on util.GetAuthKey by the engine on the tested domain (tokens 0-200 bytes and their near tokens)",
            "ssh: at most five user-auth requests after the initial none per connection are generated (the model has the "
            "six-failure limit; the go client sends each method name once and all keys in one publickey method)",
            "the visitor manager's decision for NewVisitorConn is an input of the model (C08)",
            "concurrent logins appending to OidcAuthConsumer.subjectsFromLogin without a lock (DESIGN 7 #18) are not modelled",
            "OIDC: subjectsFromLogin is one list per server, never shortened: 'the login's subject' means the subject of ANY "
            "accepted login since frps started (theorem subjects_only_from_logins), not of the session the ping arrives on",
            "OIDC: time is a clock per message (Moment.now) in the unit of the exp/nbf claims; with the real clock (O "
            "episodes) the engine stays a second or more away from every boundary (tokens of 3 s, waits until exp + 1 s), "
            "the boundaries themselves are driven with the injected clock (C episodes); a failed JWKS request is modelled "
            "as 'no key verifies, cache kept'; go-oidc stores a fetched key set a moment after answering (the engine lets "
            "1 ms pass after changing the provider's keys); go-oidc's Google issuer exception is in the model but cannot "
            "be driven offline (discovery insists on the issuer URL)",
            "user connections: the pool is FIFO in frps; the engine is relational (the harness reports which pooled "
            "connection was joined, the model checks that it was in the owning session's pool and drops what was queued "
            "before it); with an empty pool frps waits userConnTimeout (1 s in the engine) for the client to bring one",
            "ssh gateway: a connection that never sends a forward request and an exec command is closed after 3 s by "
            "TunnelServer.Run; not driven (the model maps it to 'closed' like an unparsable command); the virtual client runs "
            "with frpc defaults (pool 1, no heartbeats under tcpMux), which is what the gateway hard-codes",
        ],
    }

META = {
        "engine": "lean+harness(peer)",
        "design_ref": "DESIGN.md §6 C04",
        "technique": "Lean 4 model of the first-message dispatcher and heartbeat handler with abstract key function, the claim-level decision of the OIDC verifier (signature abstract), the ssh user-auth loop over every method of x/crypto/ssh with the ServerConfig the gateway builds, and the ssh tunnel gateway as the only producer of internal connections; theorems for all states, messages, plugin behaviours, and by induction over all event histories / refused bursts of any length / timed histories (clock, published keys and go-oidc's key cache changing between messages) / system histories of network events and ssh tunnels; differential correspondence against a real server.Service driven as a raw network peer over five transports and the internal listener, as a real OIDC client of an in-process provider, and as a real ssh client of the gateway",
        "text": "Proof: a login is answered with success and a session appears only if the verifier RegisterControl selected accepted the login the plugins handed on; from a network listener that verifier is always the configured one and the outcome (state and reply) is identical for both values of client_spec.always_auth_pass; over every history without logins on the internal listener no session ever holds the always-pass verifier. With the HeartBeats scope on, a ping with a key that is not accepted leaves the whole state (lastPing included) unchanged and is answered Pong{Error}; the session is not closed by it. A work connection stays open (pooled) only if its run id names a live session, the verifier used accepts it and the pool has room; otherwise it is closed and the state is unchanged. Every sequence of refused first messages of any length leaves the server state literally unchanged; accepted logins / work connections touch no session with another run id. OIDC: a key is accepted iff it parses, is signed by a key the provider publishes and its claims pass the checks auth.NewTokenVerifier configures (issuer unless skipIssuerCheck, configured audience among aud unless none is configured, exp / nbf unless skipExpiryCheck); sessions, heartbeats (scope on) and network work connections (scope on) need such a token, the latter two with a subject some accepted login in the history put into subjectsFromLogin. Time: every message is judged at its own moment - clock and the keys the provider publishes then, plus the keys go-oidc has cached; the answer to a login depends on nothing of the server's state, the answer to a heartbeat / work connection only on the session's verifier kind, the pool's room and which subjects have logged in; over every timed history a token that is not valid at that moment (expired; signed by a key neither cached nor published, e.g. one the provider published at no moment of the history) is refused on all three paths and nothing changes, although the same token may have been accepted any number of times before; the key cache only ever holds keys the provider published. lastPing: over every history in which no heartbeat is accepted on a run id (invalid heartbeats, NewProxy / CloseProxy, work and visitor connections, refused logins, user connections in any number) the session's lastPing is still the one it started with. Key function: under the stated assumption that for a fixed timestamp different tokens give different keys, a Login / Ping / NewWorkConn whose key was computed from any other token (prefix, extension, one byte off) is refused and changes nothing. A user connection is joined only with a connection from the pool, and over every history a connection is in a pool only through a work connection the server accepted in the state of that moment. ssh gateway: for ANY ssh.ServerConfig without password / keyboard-interactive / gssapi callbacks and NoClientAuth off only a signed publickey request for a key the PublicKeyCallback accepts authenticates, whatever else the client tries in whatever order (the gateway's configuration is such: regenerated fact); with authorizedKeysFile configured the handshake succeeds only for a client that proves a key listed in the file as read at that moment, a client that fails it changes nothing, and over every history of network events and ssh tunnels no session holds the always-pass verifier unless such a client connected; without authorizedKeysFile the virtual client does not claim the exemption and a tunnel comes up only with the right --token. Kernel-checked, axioms propext/Quot.sound only. Source facts regenerated per run: `internal` is a parameter handed down from each listener's accept loop and never computed from a connection; which ServerConfig fields the gateway sets; where lastPing is stored; the statements of util.GetAuthKey. Tied per run by 8k (quick) operations against a real frps, incl. the real go-oidc verifier under key rotation and passing time, the real ssh gateway with every ssh auth method, tokens of 0-200 bytes with near-token keys, a real-time heartbeat-timeout scenario, and sieges of 64-319 consecutive refused operations.",
        "note": "Finding (known, witness theorem workconn_scope_witness): RegisterWorkConn verifies with the SESSION's verifier, so a work connection from a network listener naming the run id of an ssh-gateway (always-pass) session is pooled without a key even with the NewWorkConns scope on; repaired model behind AuthGate.workVerifierIsFixed (theorem workconn_scope_fixed), Go patch hooks/C04-fix-workconn-verifier.patch. Trusted: Lean kernel; the hand-written model; harness generators; the read-only facts about who reaches RegisterControl with internal = true. Assumed and evaluated on util.GetAuthKey by the engine, not proved: for a fixed timestamp different tokens give different keys (KeyInjective; hypothesis of login_proves_token / other_token_*_refused). Not covered: MD5 / JWT signature / ssh cryptography (abstract predicates, exercised through the real libraries by the engine), timestamp freshness (none exists).",
    }
