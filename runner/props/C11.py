from props import COMMON_TRUST


def pool_nontrivial(tok, res):
    if tok[0] in ("offer", "user", "expire", "end", "release", "child", "mxclose", "mxaccept", "mxconn",
                  "newproxy", "closeproxy", "vlput", "vlaccept", "vpconn", "vprelease", "vpclose",
                  "gpconn", "gpaccept", "gpclose"):
        return True
    if tok[0] == "login":
        return res.startswith("ok:")
    return tok[0] in ("kill", "close") and res != "-"


def pool_class(r):
    if r.startswith("B:") or r.startswith("S:"):
        return r[:1] + ":" + r.split(":")[-1]
    if r.startswith("w="):
        w, u = r.split(";")
        wo, uo = w.split("/")[1], u.split("/")[1]
        return "census:" + ("clean" if wo == "0" and uo == "0" else "open")
    if r.startswith("closed="):
        return "mxclose:" + ("limbo" if not r.endswith("limbo=") else ("closed" if r != "closed=;limbo=" else "none"))
    if r.startswith("ok:"):
        return "ok:" + ("0" if r == "ok:0" else "n")
    if r.startswith("got:"):
        return "got"
    if r.startswith("C:"):
        return "C:" + ("0" if r == "C:0" else "n")
    if r.startswith("exit:"):
        return "exit:" + ("clean" if r == "exit:" else "stranded")
    if r.startswith("b="):
        return "census:" + ("clean" if r.endswith("open=") else "open")
    if r.startswith("open="):
        return "gcensus:" + ("clean" if r == "open=" else "open")
    if r.startswith("err:"):
        return "err:n"
    if ";" in r:
        return "child:" + r.split(";")[-1][:5]
    if r.isdigit():
        return "n"
    return r[:12]


PROP = {
        "level": "proof",
        "gens": [],
        "theorems": [
            "Frp.Pool.inv_init", "Frp.Pool.inv_step", "Frp.Pool.inv_reach", "Frp.C11.advance_eq_spec",
            "Frp.C11.advance_le", "Frp.C11.cap_eq", "Frp.C11.newControl_panics_iff",
            "Frp.C11.newControl_panic_witness", "Frp.C11.clamp_no_panic", "Frp.C11.clamp_tries_pos",
            "Frp.C11.clamp_advance", "Frp.C11.pool_le_cap", "Frp.C11.pooled_iff_in_pool", "Frp.C11.pool_nodup",
            "Frp.C11.bridged_exclusive", "Frp.C11.one_workconn_per_user", "Frp.C11.taken_has_handler",
            "Frp.C11.surplus_refused", "Frp.C11.offer_pooled", "Frp.C11.ended_session_offer_closed",
            "Frp.C11.drain_closes_all", "Frp.C11.after_drain_none_pooled", "Frp.C11.wait_bounded",
            "Frp.C11.due_timeout_blocks_clock", "Frp.C11.due_timeout_closes", "Frp.C11.retries_bounded",
            "Frp.C11.handler_never_stuck", "Frp.C11.limbo_witness", "Frp.C11.noLimboFull_pinned_false",
            "Frp.C11.no_limbo_partial", "Frp.C11.noLimboFull_repaired", "Frp.C11.no_limbo_of_fix",
            "Frp.C11.late_offer_closed_repaired", "Frp.C11.crash_witness", "Frp.C11.noCrashFull_pinned_false",
            "Frp.C11.no_crash_partial", "Frp.C11.noCrashFull_repaired", "Frp.C11.handoff_limbo_witness",
            "Frp.C11.handoffNoLimbo_pinned_false", "Frp.C11.handoffNoLimbo_repaired",
            "Frp.C11.handoff_outcome",
            "Frp.Pool.acct_step",
            "Frp.Pool.acct_reach",
            "Frp.C11.dead_conn_never_orphans",
            "Frp.C11.closed_conn_never_bridged",
            "Frp.C11.advance_history",
            "Frp.C11.advance_history_le",
            "Frp.C11.reqs_accounted",
            "Frp.C11.proxy_ops_request_nothing",
            "Frp.C11.VL.inv_step",
            "Frp.C11.VL.inv_reach",
            "Frp.C11.visitor_none_stranded",
            "Frp.C11.visitor_queue_sound",
            "Frp.C11.visitor_put_outcome",
            "Frp.C11.visitor_drain_after_close",
            "Frp.C11.GA.inv_step",
            "Frp.C11.GA.inv_reach",
            "Frp.C11.group_none_stranded",
            "Frp.C11.group_worker_holds_one",
        ],
        "engines": [
            {"name": "pool", "quick_n": 1100, "thorough_n": 5000, "thorough_seeds": 4,
             "nontrivial": pool_nontrivial, "result_class": pool_class},
        ],
        "rule": "pool engine: a real frps (server.NewService, UserConnTimeout 1 s, generated MaxPoolCount) with a scripted "
                "raw client over the real connector/yamux: login with generated PoolCount (count ReqWorkConn), offers of "
                "work connections on several yamux sessions (pooled / refused / bad key / handed to a waiting user), "
                "user connections to the session's tcp proxy (which work connection got StartWorkConn, name, source and "
                "destination address, payload echo; closed by frps after consuming n pooled connections), dead pooled "
                "connections (stream closed and the FIN made visible to frps by a round trip on the same yamux session; "
                "whole yamux session closed: either outcome of the StartWorkConn write, read off the observation), "
                "clients that never deliver (timeout measured), the session's proxy map over its history (NewProxy / "
                "CloseProxy of the dialled proxy and of further ones, the map running empty and filling again: total "
                "ReqWorkConn <= advance + user-driven), session end with a census of the held connections, teardown "
                "parked at the gates worker.dispDone / worker.drained while work and user connections arrive, negative "
                "PoolCount in a sacrificial child process; the real vhost HTTPS muxer with listeners closed while "
                "connections are being handed over; the real InternalListener with PutConn / Accept / Close as single ops "
                "(the harness is the accept loop; census of stranded connections when Accept fails); a real stcp proxy on "
                "a real visitor.Manager whose accept goroutine is stalled (RemoteAddr of the accepted connection blocks) "
                "while visitor connections queue up and the proxy is closed or released; a real TCPGroupCtl whose member "
                "accept loops are the harness (users in the worker's hand and in the kernel queue when the last member "
                "leaves). Non-trivial = every offer, user, expiry, census, child, proxy, muxer, listener, visitor, group "
                "op and successful login; distinct = distinct (op line, result)",
        "trusted": COMMON_TRUST + [
            "model Frp/Model/Pool.lean (Pool + Handoff + VListen + GroupAccept) written by hand from server/control.go, "
            "service.go, proxy/proxy.go, pkg/util/vhost/vhost.go, pkg/util/net/listener.go, server/visitor/visitor.go, "
            "server/group/tcp.go; tied by the pool engine",
            "verifhook gates worker.dispDone / worker.drained (tag verif, /repo 75a0848) perturb timing only",
            "yamux semantics used by the engine: frames of one session are processed in order (the round trip after "
            "`kill`); for a pooled connection the client has closed BOTH outcomes of the StartWorkConn write are accepted "
            "(error: next round; no error: bridged, Join ends, user closed) and told apart by the number of pooled "
            "connections the handler consumed (len(workConnCh) before/after, tag verif)",
            "the stall of the stcp proxy's accept goroutine relies on startCommonTCPListenersHandler calling RemoteAddr() "
            "of the accepted connection before its next Accept (no hook)",
        ],
        "assumptions": [
            "time: only the blocking wait of GetWorkConn takes time (tick is disabled while a handler is between two "
            "non-blocking actions); real timing of time.After is checked by the engine with slack [0.95 s, 2.8 s]",
            "one model state per session; the proxy is a plain tcp proxy (handleUserTCPConnection); encryption, "
            "compression and limiter wrappers belong to C01/C05",
            "the bound proved per user connection is (poolCount+1) waits of at most UserConnTimeout each, not one "
            "UserConnTimeout: GetWorkConnFromPool calls GetWorkConn again after a failed StartWorkConn write",
            "msgDispatcher.Send racing with the closed doneCh (select picks either) is a non-deterministic label "
            "(`request u ok`); the engine does not generate user connections on an empty pool at the dispDone gate",
            "group listeners: who owns a user connection (kernel queue / worker's send / member) is modelled here "
            "(GroupAccept) and driven on the real TCPGroupCtl; the join/leave protocol with its locks is C13's; "
            "TCPMuxGroup has the same shape and is not driven; visitor listeners: InternalListener + visitor.Manager + "
            "the accept loop (VListen), stcp driven, sudp/xtcp share the code path",
            "advance requests: `Start()`'s burst is modelled as sent at once (it runs in a goroutine); the accounting "
            "reqs = advance + user-driven is exact while the dispatcher lives",
        ],
    }

META = {
        "engine": "lean+harness(pool)",
        "design_ref": "DESIGN.md §6 C11, Appendix A.2, §7 #4 #10 #11",
        "technique": "Lean 4 small-step model of one session's work-connection pool (channel, handlers, proxy map, teardown, "
                     "clock), of the vhost hand-off, of the visitor listener with its accept loop and of the group hand-off; "
                     "a 10-clause invariant proved inductive over all 18 labels plus a request-accounting invariant, "
                     "inductive invariants for the two accept-path models, consequences for every reachable state; kernel-checked witness schedules for the three defects of the pinned "
                     "tree and full theorems for the repaired model behind the switch Pool.current; differential "
                     "correspondence with a real frps driven by a scripted client, gates in the teardown, a sacrificial "
                     "child for the crashes",
        "text": "Proof (model level) + correspondence. For every label sequence: |pool| <= poolCount+10, the queue has no "
                "duplicates and agrees with the per-connection states; a work connection is taken by exactly the one "
                "handler that holds or is bridged to it, a handler holds at most one; surplus offers are refused and "
                "closed; offers for a session that left the manager are closed; the drain closes every pooled "
                "connection and nothing is pooled afterwards; the advance requests are exactly max 0 (min client server); "
                "a waiting handler has waited at most UserConnTimeout, the clock cannot pass a due timeout and the timeout "
                "closes the user connection; no handler is ever stuck; the retry loop runs at most poolCount+1 rounds; a "
                "pooled connection that turned out dead is closed and its user either retried or closed, whichever way the "
                "StartWorkConn write goes; over the whole history (proxies registered, closed, registered again) the "
                "advance requests stay max 0 (min client server) and every other ReqWorkConn belongs to a user connection; "
                "for all interleavings of put / accept / close on a visitor listener nothing is queued once the accept loop "
                "has ended (each connection accepted or closed) and after Close the loop returns every queued connection "
                "before it ends; when the last member of a group has left, every user connection was delivered or closed. "
                "False on the pinned tree, with kernel-checked witnesses reproduced on the real code: a work connection "
                "sent into the already closed pool is neither pooled nor closed (limbo); Login.PoolCount < 0 kills frps "
                "(< -10 at login, -10..-1 at the first user connection); a connection being handed to a vhost listener "
                "that closes is never closed. All three hold for the repaired model (Fix switches).",
        "note": "Trusted: Lean kernel; hand-written model; harness generators; yamux half-close behaviour. KNOWN findings: "
                "C11-workconn-limbo-closed-pool, C11-negative-poolcount-crash, C11-muxer-handoff-limbo.",
    }
