from props import COMMON_TRUST


def pool_nontrivial(tok, res):
    if tok[0] in ("offer", "user", "expire", "end", "release", "child", "mxclose", "mxaccept", "mxconn",
                  "newproxy", "closeproxy", "vlput", "vlaccept", "vpconn", "vprelease", "vpclose",
                  "gpconn", "gpaccept", "gpclose", "squsers", "sqoffer", "sqping", "sqresume", "sqend",
                  "peoffer", "petake", "pehold", "peend", "perelease", "pecensus", "perace"):
        return True
    if tok[0] in ("login", "sqlogin"):
        return res.startswith("ok:")
    return tok[0] in ("kill", "close") and res != "-"


def pool_class(r):
    if r.startswith("done:w=") or (r.startswith("w=") and ";" not in r):
        return ("done:" if r.startswith("done:") else "pcensus:") + ("clean" if r.endswith("/0") else "open")
    if r.startswith("S:") and r[2:3].isdigit():
        k = r[2:].split(";")[0].split(":")[0]
        return "parked:" + ("0" if k == "0" else "n") + (";resumed" if ";r=" in r else "")
    if r.startswith("w=") and ";b=" in r:
        w, u, b = r.split(";")
        clean = w.endswith("/0") and u.endswith("/0")
        return "endcensus:" + ("clean" if clean else "open") + (":bridged" if b != "b=0" else "")
    if r.startswith("P:"):
        return "P:n"
    if r.startswith("B:") or r.startswith("S:"):
        return r[:1] + ":" + r.split(":")[-1]
    if r.startswith("w="):
        w, u = r.split(";")
        wo, uo = w.split("/")[1], u.split("/")[1]
        return "census:" + ("clean" if wo == "0" and uo == "0" else "open")
    if r.startswith("closed="):
        return "mxclose:" + ("limbo" if not r.endswith("limbo=") else ("closed" if r != "closed=;limbo=" else "none"))
    if r.startswith("ok:"):
        return "ok:" + ("0" if r == "ok:0" else "n")
    if r.startswith("got:"):
        return "got"
    if r.startswith("C:"):
        return "C:" + ("0" if r == "C:0" else "n")
    if r.startswith("exit:"):
        return "exit:" + ("clean" if r == "exit:" else "stranded")
    if r.startswith("b="):
        return "census:" + ("clean" if r.endswith("open=") else "open")
    if r.startswith("open="):
        return "gcensus:" + ("clean" if r == "open=" else "open")
    if r.startswith("err:"):
        return "err:n"
    if ";" in r:
        return "child:" + r.split(";")[-1][:5]
    if r.isdigit():
        return "n"
    return r[:12]


PROP = {
        "level": "proof",
        "gens": ["PoolFacts"],
        "theorems": [
            "Frp.Pool.inv_init", "Frp.Pool.inv_step", "Frp.Pool.inv_reach", "Frp.C11.advance_eq_spec",
            "Frp.C11.advance_le", "Frp.C11.cap_eq", "Frp.C11.newControl_panics_iff",
            "Frp.C11.newControl_panic_witness", "Frp.C11.clamp_no_panic", "Frp.C11.clamp_tries_pos",
            "Frp.C11.clamp_advance", "Frp.C11.pool_le_cap", "Frp.C11.pooled_iff_in_pool", "Frp.C11.pool_nodup",
            "Frp.C11.bridged_exclusive", "Frp.C11.one_workconn_per_user", "Frp.C11.taken_has_handler",
            "Frp.C11.surplus_refused", "Frp.C11.offer_pooled", "Frp.C11.ended_session_offer_closed",
            "Frp.C11.drain_closes_all", "Frp.C11.after_drain_none_pooled", "Frp.C11.wait_bounded",
            "Frp.C11.due_timeout_blocks_clock", "Frp.C11.due_timeout_closes", "Frp.C11.retries_bounded",
            "Frp.C11.handler_never_stuck", "Frp.C11.limbo_witness", "Frp.C11.noLimboFull_pinned_false",
            "Frp.C11.no_limbo_partial", "Frp.C11.noLimboFull_repaired", "Frp.C11.no_limbo_of_fix",
            "Frp.C11.late_offer_closed_repaired", "Frp.C11.crash_witness", "Frp.C11.noCrashFull_pinned_false",
            "Frp.C11.no_crash_partial", "Frp.C11.noCrashFull_repaired", "Frp.C11.handoff_limbo_witness",
            "Frp.C11.handoffNoLimbo_pinned_false", "Frp.C11.handoffNoLimbo_repaired",
            "Frp.C11.handoff_outcome",
            "Frp.Pool.acct_step",
            "Frp.Pool.acct_reach",
            "Frp.C11.dead_conn_never_orphans",
            "Frp.C11.closed_conn_never_bridged",
            "Frp.C11.advance_history",
            "Frp.C11.advance_history_le",
            "Frp.C11.reqs_accounted",
            "Frp.C11.proxy_ops_request_nothing",
            "Frp.C11.VL.inv_step",
            "Frp.C11.VL.inv_reach",
            "Frp.C11.visitor_none_stranded",
            "Frp.C11.visitor_queue_sound",
            "Frp.C11.visitor_put_outcome",
            "Frp.C11.visitor_drain_after_close",
            "Frp.C11.GA.inv_step",
            "Frp.C11.GA.inv_reach",
            "Frp.C11.group_none_stranded",
            "Frp.C11.group_worker_holds_one",
            "Frp.C11.SP.inv_step",
            "Frp.C11.SP.inv_reach",
            "Frp.C11.send_queue_bounded",
            "Frp.C11.send_eof_only_after_done",
            "Frp.C11.send_eof_closes_user",
            "Frp.C11.parked_blocked_iff",
            "Frp.C11.blocked_sender_released_on_end",
            "Frp.C11.release_persistent",
            "Frp.C11.releasedOnEnd_select",
            "Frp.C11.ended_quiescent_none_parked",
            "Frp.C11.plainSend_strand_stable",
            "Frp.C11.plainSend_stranded_forever",
            "Frp.C11.plainSend_strand_witness",
            "Frp.C11.plainSend_strand_witness_100",
            "Frp.C11.releasedOnEnd_plainSend_false",
            "Frp.C11.End.inv_step",
            "Frp.C11.End.inv_reach",
            "Frp.C11.End.closed_and_empty_at_end",
            "Frp.C11.End.none_parked_at_end",
            "Frp.C11.End.late_offer_closed",
            "Frp.C11.End.source_program_drains",
            "Frp.C11.End.source_none_parked",
            "Frp.C11.End.earlyDrain_not_willDrain",
            "Frp.C11.End.earlyDrain_strands_witness",
            "Frp.C11.End.finished_buffer_stable",
            "Frp.C11.End.earlyDrain_plus_range_ok",
            "Frp.C11.End.other_orders_rejected",
            "Frp.C11.End.drain_rounds",
            "Frp.C11.End.worker_finishes",
            "Frp.C11.End.rt_step",
            "Frp.C11.End.rt_reach",
            "Frp.C11.End.source_worker_finishes",
        ],
        "engines": [
            {"name": "pool", "quick_n": 1180, "thorough_n": 5000, "thorough_seeds": 4,
             "nontrivial": pool_nontrivial, "result_class": pool_class},
        ],
        "rule": "pool engine: a real frps (server.NewService, UserConnTimeout 1 s, generated MaxPoolCount) with a scripted "
                "raw client over the real connector/yamux: login with generated PoolCount (count ReqWorkConn), offers of "
                "work connections on several yamux sessions (pooled / refused / bad key / handed to a waiting user), "
                "user connections to the session's tcp proxy (which work connection got StartWorkConn, name, source and "
                "destination address, payload echo; closed by frps after consuming n pooled connections), dead pooled "
                "connections (stream closed and the FIN made visible to frps by a round trip on the same yamux session; "
                "whole yamux session closed: either outcome of the StartWorkConn write, read off the observation), "
                "clients that never deliver (timeout measured), the session's proxy map over its history (NewProxy / "
                "CloseProxy of the dialled proxy and of further ones, the map running empty and filling again: total "
                "ReqWorkConn <= advance + user-driven), session end with a census of the held connections, teardown "
                "parked at the gates worker.dispDone / worker.drained while work and user connections arrive, negative "
                "PoolCount in a sacrificial child process; the real vhost HTTPS muxer with listeners closed while "
                "connections are being handed over; the real InternalListener with PutConn / Accept / Close as single ops "
                "(the harness is the accept loop; census of stranded connections when Accept fails); a real stcp proxy on "
                "a real visitor.Manager whose accept goroutine is stalled (RemoteAddr of the accepted connection blocks) "
                "while visitor connections queue up and the proxy is closed or released; a real TCPGroupCtl whose member "
                "accept loops are the harness (users in the worker's hand and in the kernel queue when the last member "
                "leaves); a session whose control connection is a transport the harness owns (handed to frps through its "
                "internal listener): work connections pooled first in some episodes, the client stops reading, Pings and "
                "users in numbers around what the writer and the 100-slot queue still take (handlers parked inside "
                "Dispatcher.Send — before the wait on an empty pool, or holding a pooled connection at the replacement "
                "request — counted off the goroutine dump), the client reads again (all drained, every ReqWorkConn "
                "arrives) or the session ends (reads fail with the writes still blocked / client gone) and ALL its user "
                "connections must be closed or bridged to a started work connection, every other work connection closed; "
                "the END of the pool on a real server.Control the harness owns (NewControl + Start on a pipe; the harness "
                "is what Service is for it: RegisterWorkConn / GetWorkConn / RegisterProxy, closes what registration "
                "refuses): connections offered up to and beyond the capacity, some taken, the session ended free-running "
                "or with the worker parked at ctl.mu.Lock() (a CloseProxy of the session held inside its critical "
                "section at the gate close.deleted) while further connections are offered / taken, offers after the end, "
                "and a census of every accepted connection (all closed or handed out); sessions ended under a storm of "
                "offers from 1-12 goroutines, 30 rounds each (no gate, no lock held: the plain race). "
                "Non-trivial = every offer, user, expiry, census, child, proxy, muxer, listener, visitor, group, "
                "send-path op and successful login; distinct = distinct (op line, result)",
        "trusted": COMMON_TRUST + [
            "model Frp/Model/Pool.lean (Pool + Handoff + VListen + GroupAccept) written by hand from server/control.go, "
            "service.go, proxy/proxy.go, pkg/util/vhost/vhost.go, pkg/util/net/listener.go, server/visitor/visitor.go, "
            "server/group/tcp.go; model Frp/Model/SendPath.lean (Dispatcher.Send / sendLoop / session end with parked "
            "senders) written by hand from pkg/msg/handler.go and server/control.go; tied by the pool engine",
            "send-path ops: the gate transport is harness code (a net.Conn whose Write blocks while the client is "
            "stalled); the number of handlers inside msg.(*Dispatcher).Send and whether every handler is at rest are read "
            "from runtime.Stack (frame names handleUserTCPConnection / Dispatcher.Send / Control.Start.func1)",
            "verifhook gates worker.dispDone / worker.drained (tag verif, /repo 75a0848) perturb timing only",
            "model Frp/Model/PoolEnd.lean (the worker's pool steps as a program, RegisterWorkConn, GetWorkConn, other "
            "holders of ctl.mu) written by hand; the PROGRAM and the registration shape are regenerated from "
            "server/control.go / service.go by translate/gen_poolfacts.go (statement shapes it does not know become "
            "`unknown` and fail the obligation); pe ops: the work connections are harness objects that record Close; "
            "ctl.mu is held through the session's own CloseProxy parked at the existing gate close.deleted (in frps "
            "itself CloseProxy runs in the read loop, which has ended by then: the hold only widens a window that "
            "exists anyway, cf. perace); `worker waits at the mutex` is read from runtime.Stack",
            "yamux semantics used by the engine: frames of one session are processed in order (the round trip after "
            "`kill`); for a pooled connection the client has closed BOTH outcomes of the StartWorkConn write are accepted "
            "(error: next round; no error: bridged, Join ends, user closed) and told apart by the number of pooled "
            "connections the handler consumed (len(workConnCh) before/after, tag verif)",
            "the stall of the stcp proxy's accept goroutine relies on startCommonTCPListenersHandler calling RemoteAddr() "
            "of the accepted connection before its next Accept (no hook)",
        ],
        "assumptions": [
            "time: only the blocking wait of GetWorkConn takes time (tick is disabled while a handler is between two "
            "non-blocking actions); real timing of time.After is checked by the engine with slack [0.95 s, 2.8 s]",
            "one model state per session; the proxy is a plain tcp proxy (handleUserTCPConnection); encryption, "
            "compression and limiter wrappers belong to C01/C05",
            "the bound proved per user connection is (poolCount+1) waits of at most UserConnTimeout each, not one "
            "UserConnTimeout: GetWorkConnFromPool calls GetWorkConn again after a failed StartWorkConn write",
            "msgDispatcher.Send racing with the closed doneCh (select picks either) is a non-deterministic label "
            "(`request u ok`); the engine does not generate user connections on an empty pool at the dispDone gate",
            "group listeners: who owns a user connection (kernel queue / worker's send / member) is modelled here "
            "(GroupAccept) and driven on the real TCPGroupCtl; the join/leave protocol with its locks is C13's; "
            "TCPMuxGroup has the same shape and is not driven; visitor listeners: InternalListener + visitor.Manager + "
            "the accept loop (VListen), stcp driven, sudp/xtcp share the code path",
            "send path: a handler parked in Dispatcher.Send behind a client that does not read stays there as long as the "
            "session lives (until the heartbeat timeout ends it) — that wait is NOT bounded by UserConnTimeout on the "
            "unchanged tree and is not judged; what is proved and checked is the release at session end.  The read "
            "loop's own Send (Pong, NewProxyResp) parking on a full queue is dispatcher starvation (C14) and is neither "
            "generated nor compared (skip)",
            "end of the pool: a connection received by GetWorkConn counts as handed to a user connection (what that "
            "handler does with it is the Pool model's); after the session's proxies are closed nobody calls "
            "GetWorkConn, so a connection still buffered in the closed channel stays there (finished_buffer_stable)",
            "advance requests: `Start()`'s burst is modelled as sent at once (it runs in a goroutine); the accounting "
            "reqs = advance + user-driven is exact while the dispatcher lives",
        ],
    }

META = {
        "engine": "lean+harness(pool)",
        "design_ref": "DESIGN.md §6 C11, Appendix A.2, §7 #4 #10 #11",
        "technique": "Lean 4 small-step model of one session's work-connection pool (channel, handlers, proxy map, teardown, "
                     "clock), of the vhost hand-off, of the visitor listener with its accept loop, of the group hand-off and of "
                     "the control-message send path with parked senders; "
                     "a 10-clause invariant proved inductive over all 18 labels plus a request-accounting invariant, "
                     "the teardown of the pool as a program regenerated from the source with an invariant for all interleavings, "
                     "inductive invariants for the two accept-path models, consequences for every reachable state; kernel-checked witness schedules for the three defects of the pinned "
                     "tree and full theorems for the repaired model behind the switch Pool.current; differential "
                     "correspondence with a real frps driven by a scripted client, gates in the teardown, a sacrificial "
                     "child for the crashes",
        "text": "Proof (model level) + correspondence. For every label sequence: |pool| <= poolCount+10, the queue has no "
                "duplicates and agrees with the per-connection states; a work connection is taken by exactly the one "
                "handler that holds or is bridged to it, a handler holds at most one; surplus offers are refused and "
                "closed; offers for a session that left the manager are closed; the drain closes every pooled "
                "connection and nothing is pooled afterwards; the advance requests are exactly max 0 (min client server); "
                "a waiting handler has waited at most UserConnTimeout, the clock cannot pass a due timeout and the timeout "
                "closes the user connection; no handler is ever stuck; the retry loop runs at most poolCount+1 rounds; a "
                "pooled connection that turned out dead is closed and its user either retried or closed, whichever way the "
                "StartWorkConn write goes; over the whole history (proxies registered, closed, registered again) the "
                "advance requests stay max 0 (min client server) and every other ReqWorkConn belongs to a user connection; "
                "for all interleavings of put / accept / close on a visitor listener nothing is queued once the accept loop "
                "has ended (each connection accepted or closed) and after Close the loop returns every queued connection "
                "before it ends; when the last member of a group has left, every user connection was delivered or closed; "
                "the control-message send path (Dispatcher.Send / sendLoop, 100-slot queue, client that stops reading): "
                "the END of the pool as a small-step system over RegisterWorkConn / GetWorkConn / other holders of "
                "ctl.mu / the steps of worker() taken as a PROGRAM (each round of a drain loop is a step): for every program "
                "with a drain after the close (decidable condition willDrain) and every interleaving, once the worker has "
                "finished the channel is closed and empty, every connection ever offered was handed to a user connection "
                "or closed, and every later offer is closed; a program that runs through (lock discipline, one close, range "
                "only on the closed channel) is never stuck: from every reachable state the worker's own steps reach the end; the program regenerated from server/control.go meets the "
                "condition (lock, close, range-drain, unlock; send in select/default with a recover that reports an error "
                "on which the caller closes), whereas for `non-blocking drain, lock, close, unlock` a kernel-checked "
                "schedule ends with a connection parked in the closed channel for ever; "
                "Send returns io.EOF only after the session ended, a handler is blocked in Send exactly when the queue is "
                "full and the session lives, and once the session has ended the doneCh arm of every parked handler is "
                "ready and stays ready under every other action (for all interleavings of senders, send loop, write, "
                "read failure, conn.Close) — whereas for a plain `sendCh <- m` after a doneCh check a kernel-checked "
                "schedule (queue 100) leaves a handler parked under every continuation. "
                "False on the pinned tree, with kernel-checked witnesses reproduced on the real code: a work connection "
                "sent into the already closed pool is neither pooled nor closed (limbo); Login.PoolCount < 0 kills frps "
                "(< -10 at login, -10..-1 at the first user connection); a connection being handed to a vhost listener "
                "that closes is never closed. All three hold for the repaired model (Fix switches).",
        "note": "Trusted: Lean kernel; hand-written model; harness generators; yamux half-close behaviour. KNOWN findings: "
                "C11-workconn-limbo-closed-pool, C11-negative-poolcount-crash, C11-muxer-handoff-limbo.",
    }
