from props import COMMON_TRUST


def stack_nontrivial(tok, res):
    # non-trivial: the real code split a write, made a grant wait, ran a half-tunnel or took a close / dispatch / sniff branch
    if tok[0] == "wr":
        return res.count(",") >= 1
    if tok[0] in ("wrl", "srv", "cli", "disp", "wrap", "sniff", "wtok"):
        return True
    if tok[0] == "rd":
        return not res.startswith("n=0")
    if tok[0] == "bucket":
        q = [x for x in tok if x.startswith("q=")][0][2:].split(",")
        g = res[2:].split(",")
        return any(a.split(":")[0] != b for a, b in zip(q, g))
    return False


def stack_class(r):
    if r.startswith("c="):
        head = r.split(";")[0]
        return "chunks=" + str(0 if head == "c=" else len(head[2:].split(",")))
    if r.startswith("g="):
        return "grants"
    if r.startswith("full="):
        return "wrl " + ("rem0" if ";rem=0;" in r else "rem+")
    if r.startswith("pp="):
        return "pp=" + r[3:5] + ";" + ";".join(r.split(";")[1:])
    if r.startswith("n="):
        return "rd " + r.split(";")[1]
    if r.startswith("w="):
        return "wtok"
    return r[:60]


def e2e_nontrivial(tok, res):
    return tok[0] in ("xfer", "multi", "bw") and not res.startswith("err")


def e2e_class(r):
    if r.startswith("total="):
        return "bw samples=" + str(len(r.split(";s=")[1].split(",")))
    return ";".join(x for x in r.split(";") if not x.startswith(("sent=", "got=")))[:60]


_T = ["mirror_proxy", "mirror_order", "mirror_visitor", "limiter_position", "stack_transparent", "stack_prefix",
      "stack_complete", "id_Eout", "id_Dchunks", "stack_snoc_Eout", "stack_snoc_Dchunks", "instantiate_append",
      "instantiate_core", "core_lawful", "limiter_Eout_flatten", "limiter_Dchunks", "server_Eout", "server_Dout",
      "client_split", "client_Dout", "client_Eout_flatten", "tunnel_down_prefix", "tunnel_down_complete",
      "tunnel_up_prefix", "tunnel_up_complete", "toyEnc_lawful", "toyComp_lawful", "writer_chunks",
      "writer_chunk_bounds", "writer_tokens", "writer_requests_admissible", "reader_le", "bucket_bound",
      "bucket_window_bound", "closeTop_idem", "closeCount_of_check", "closeTop_bare", "client_close",
      "server_close_fixed", "server_close_partial", "server_close_witness", "server_close_full_fails",
      "server_close_switch", "server_close_current", "http_close_fixed", "http_close_current", "visitor_close", "visitor_server_close",
      "closeNotify_witness", "closeNotify_fixed", "stats_close", "rwcConn_close", "jstep_done", "join_returns",
      "join_stuck_witness", "find_endpoint", "find_name", "no_crosswire", "dispatch_unknown", "pp_header_src",
      "pp_header_iff", "pp_header_dst", "https_replays_all", "tcpmux_passthrough_replays_all",
      "tcpmux_strips_consumed", "tcpmux_early_data_witness", "holdsOn_sound", "model_holdsOn", "xferHoldsOn_sound"]

PROP = {
        "level": "proof",
        "gens": [],
        "theorems": ["Frp.C01." + t for t in _T],
        "engines": [
            {"name": "stack", "quick_n": 3000, "thorough_n": 30000, "thorough_seeds": 3,
             "search_seeds": 2, "search_n": 400, "reruns": 1,
             "nontrivial": stack_nontrivial, "result_class": stack_class},
            {"name": "e2e", "quick_n": 70, "thorough_n": 600, "thorough_seeds": 3,
             "search_seeds": 1, "search_n": 60, "reruns": 1,
             "nontrivial": e2e_nontrivial, "result_class": e2e_class},
        ],
        "rule": "stack engine: real limit.Writer over a recording sink (chunk traces, byte for byte) and limit.Reader; real "
                "x/time/rate ReserveN with explicit times vs the bucket model, the Lean window bound evaluated on the real grant "
                "times; real server/proxy TCP proxy (proxy.NewProxy+Run) with the harness as frpc decoding with real golib "
                "layers in the order the MODEL predicts (all enc x comp x server-limit x echo/one-way), StartWorkConn name/src "
                "checked, user close => work connection closed (counting conn); real client/proxy TCP proxy (NewProxy+"
                "InWorkConn) with the harness as frps, proxy-protocol none/v1/v2 parsed by a tagged backend, close from either "
                "side; real client proxy.Manager.HandleWorkConn over 1..4 prefix-related names + an unknown name; real "
                "CloseNotifyConn/StatsConn/WrapReadWriteCloserConn closed 1..3 times over a counting conn; real vhost HTTPS "
                "muxer and tcpmux CONNECT muxer (passthrough on/off) with 0/1/40 early bytes. e2e engine: real frps+frpc in one "
                "process, 4 transport configurations (tcpMux x TLS x pool), 50 proxies each (tcp 24, stcp+visitor 12, https 8, "
                "tcpmux 4, 2 bandwidth), each with its own tagged echo backend; payloads 0..1 MiB (random / zeros / mixed runs), "
                "write chunkings 1..64 KiB and random, echo and one-way (user closes => backend must see everything then EOF), "
                "2..6 simultaneous connections to distinct proxies, 256 KB/s limit on either side with the receive trace checked "
                "by the Lean bucket bound. non-trivial = a write that was split / a grant that waited / any half-tunnel, close, "
                "dispatch, sniff or end-to-end transfer that ran; distinct = distinct (op line, result) pairs",
        "trusted": COMMON_TRUST + [
            "models Frp/Model/Layers.lean, Limit.lean, CloseGraph.lean, Tunnel.lean written by hand from "
            "server/proxy/proxy.go, client/proxy/proxy.go, proxy_manager.go, pkg/util/limit, pkg/util/net/conn.go, golib io / "
            "net.SharedConn, vhost/https.go, tcpmux/httpconnect.go; tied by the stack and e2e engines",
            "golib crypto (AES-CFB, IV first) and snappy are ASSUMED to be lawful stream layers (Layers.Lawful); a cipher-shaped "
            "layer with the same structure is proved lawful; sampled on every run by decoding real frps/frpc output with real "
            "golib layers composed in the model-predicted order",
            "golang.org/x/time/rate is ASSUMED to implement the bucket; its reservation arithmetic is compared with "
            "Limit.Res.reserve on generated request histories (explicit-time API) and the bound is evaluated on its grants",
        ],
        "assumptions": [
            "PARTIAL: transports (yamux, TLS, kernel TCP) and 'eventually delivered' under real scheduling are only sampled "
            "by the e2e engine; kcp / quic / websocket transports and the xtcp->stcp fallback are not driven",
            "integer ticks, rate r tokens per tick (bandwidthLimit is a multiple of 1024 B/s, so tick = 1/1024 s is exact)",
            "the bandwidth scenario is real time: 640 KiB through a 256 KB/s limiter (about 1.5 s), bound checked with 150 KB slack",
            "DEFECTS on this tree (model faithful, witnesses proved, reproduced on the real code, recorded as known): "
            "server-side limiter close closure (server_close_witness / join_stuck_witness), CloseNotifyConn.Close "
            "(closeNotify_witness), tcpmux early data (tcpmux_early_data_witness); repaired models behind "
            "CloseGraph.limiterCloseIsFixed / closeNotifyIsFixed with server_close_fixed / closeNotify_fixed",
        ],
    }

META = {
        "engine": "lean+harness(stack,e2e)",
        "design_ref": "DESIGN.md §6 C01",
        "technique": "Lean 4: stream-layer algebra (lawful stateful transducer pairs; stacking preserves the law by induction; "
                     "the two ends' different stacks are proved compatible in both directions for every option combination), "
                     "the limiter's chunk loop and a token-bucket bound for all histories, a close graph with closures resolved "
                     "at close time + a small-step Join, name dispatch for all proxy tables; differential correspondence with "
                     "the real limiter, wrappers, half-tunnels and a real frps+frpc pair",
        "text": "Partial (cipher/compression lawfulness, transports and liveness under real scheduling are assumed and sampled). "
                "Proved for the model, kernel-checked: both ends build the same transforming layers in the same order for all "
                "option combinations (proxy and visitor legs); a stack of lawful layers is lawful, and frps' stack composed with "
                "frpc's different stack delivers a prefix of what was written under any chunking of any prefix of the wire, all of "
                "it once everything arrived, in both directions; limit.Writer's chunks concatenate to the input, each 1..burst "
                "bytes, tokens = bytes; any run of grants of any limiter history is at most burst + rate x span; closing the top "
                "of frpc's stack closes the work connection exactly once for every combination; for frps' stack this is proved "
                "without a server-side limit and REFUTED with one (defect: the limiter's close closure captures the reassigned "
                "variable; user close never reaches the backend) with the repaired closure proved for all combinations; "
                "CloseNotifyConn.Close never closes its connection (defect) and does once repaired; Join returns with both ends "
                "closed after the end of either direction; the backend dialled is the named proxy's for all tables with distinct "
                "names; the proxy-protocol source is the user's address; SNI / CONNECT-passthrough sniffing replays every byte.",
        "note": "Trusted: Lean kernel; hand-written models; harness. Assumed: golib crypto/snappy lawful, x/time/rate, yamux/TLS/TCP. "
                "Known findings reproduced on every run: C01-server-limiter-close, C01-closenotify-self-close, "
                "C01-tcpmux-early-data. Not covered: kcp/quic/websocket, xtcp fallback, vhost port shared with the control port.",
    }
