from props import COMMON_TRUST


def stack_nontrivial(tok, res):
    # non-trivial: the real code split a write, made a grant wait, ran a half-tunnel or took a close / dispatch / sniff branch
    if tok[0] == "wr":
        return res.count(",") >= 1
    if tok[0] in ("wrl", "srv", "cli", "disp", "wrap", "sniff", "wtok", "dl", "qclose", "tail"):
        return True
    if tok[0] == "rsrc":
        return res.startswith("rd=") and "/" in res.split(";")[0]     # more than one Read: the source was really segmented
    if tok[0] == "wsnk":
        return res.startswith("c=") and ("/" in res or "!" in res)    # a split write or a failing sink
    if tok[0] == "wlim":
        return "/" in res or "sink" in res      # a write that was split under a finite limiter, or a failing sink
    if tok[0] == "rlim":
        return res.startswith("n=") and "," in res
    if tok[0] == "rd":
        return not res.startswith("n=0")
    if tok[0] == "bucket":
        q = [x for x in tok if x.startswith("q=")][0][2:].split(",")
        g = res[2:].split(",")
        return any(a.split(":")[0] != b for a, b in zip(q, g))
    return False


def stack_class(r):
    if r.startswith("c=") and ";cat=" not in r:
        head = r.split(";")[0]
        return "chunks=" + str(0 if head == "c=" else len(head[2:].split(",")))
    if r.startswith("g="):
        return "grants"
    if r.startswith("full="):
        return "wrl " + ("rem0" if ";rem=0;" in r else "rem+")
    if r.startswith("pp="):
        return "pp=" + r[3:5] + ";" + ";".join(r.split(";")[1:])
    if r.startswith("rd="):
        f = r.split(";")
        return "rsrc reads=%s %s tokens=%d stats=%d" % (min(f[0].count("/") + 1, 9), f[2], f[1] != "req=-", f[4] != "cnt=-")
    if r.startswith("got=") and ";pre=" in r:
        return "tail " + ";".join(r.split(";")[1:])
    if r.startswith("c=") and ";cnt=" in r:
        calls = r.split(";")[0][2:].split("|")
        errs = sorted({c.split(":")[1] for c in calls if c.count(":") == 4})
        return "wsnk calls=%d err=%s short=%d" % (len(calls), "+".join(errs), "!" in r)
    if r.startswith("c="):
        calls = r.split(";")[0][2:].split("|")
        errs = sorted({c.split(":")[1] for c in calls if c.count(":") == 3})
        split = any("/" in c.split(":")[2] for c in calls if c.count(":") == 3)
        return "wlim calls=%d err=%s split=%d tokens=%d" % (len(calls), "+".join(errs), split, not r.split(";")[0].endswith("-"))
    if r.startswith("n=") and ";req=" in r:
        f = r.split(";")
        return "rlim reads=%s %s tokens=%d" % (min(f[0].count(",") + 1, 9) if f[0] != "n=" else 0, f[2], f[1] != "req=-")
    if r.startswith("n="):
        return "rd " + r.split(";")[1]
    if r.startswith("w="):
        return "wtok"
    if r.startswith("calls="):
        return ";".join(x for x in r.split(";") if not x.startswith("got="))
    return r[:60]


def e2e_nontrivial(tok, res):
    return tok[0] in ("xfer", "multi", "bw", "sbw", "slow", "life", "sched", "reload", "ppc") and not res.startswith("err")


def e2e_class(r):
    if r.startswith("total="):
        return "bw samples=" + str(len(r.split(";s=")[1].split(",")))
    if r.startswith("s=") and ("t." in r or "u." in r):
        steps = r[2:].split("/")
        ans = [a for s_ in steps for a in s_.split(",")]
        return "reload steps=%d answered=%d hdr=%d plugin=%d" % (len(steps), min(9, sum(1 for a in ans if a not in ("-", "?"))),
                                                               min(9, sum(1 for a in ans if a.endswith(".1"))), min(9, sum(1 for a in ans if "u." in a)))
    if r.startswith("s="):
        steps = r[2:].split("/")
        return "life steps=%d refused=%d" % (len(steps), min(9, sum(s.split(",").count("-") for s in steps)))
    if r.startswith("r=") and "|" not in r and ":" not in r:
        rounds = [rd.split(",") for rd in r[2:].split("/")]
        f = rounds[0][0].split(".")
        total = sum(len(rd) for rd in rounds)
        own = sum(1 for rd in rounds for i, u in enumerate(rd) if u.split(".")[2:3] == [str(i)])
        return "ppc users=%d via=%s v=%s own=%s" % (len(rounds[0]), f[0][-1:], f[1] if len(f) > 1 else "?", "all" if own == total else str(own))
    if r.startswith("r="):
        els = r[2:].split("|")
        return "sbw transfers=%d complete=%d" % (len(els), sum(1 for e in els if e.split(":")[1:3] == ["1", "1"]))
    return ";".join(x for x in r.split(";") if not x.startswith(("sent=", "got=")))[:60]


_T = ["mirror_proxy", "mirror_order", "mirror_visitor", "limiter_position", "stack_transparent", "stack_prefix",
      "stack_complete", "id_Eout", "id_Dchunks", "stack_snoc_Eout", "stack_snoc_Dchunks", "instantiate_append",
      "instantiate_core", "core_lawful", "limiter_Eout_flatten", "limiter_Dchunks", "server_Eout", "server_Dout",
      "client_split", "client_Dout", "client_Eout_flatten", "tunnel_down_prefix", "tunnel_down_complete",
      "tunnel_up_prefix", "tunnel_up_complete", "toyEnc_lawful", "toyComp_lawful", "writer_chunks",
      "writer_chunk_bounds", "writer_tokens", "writer_requests_admissible", "reader_le", "writer_wait_never_refused",
      "writer_finite_complete", "writer_short_count", "writer_requests_cover", "writer_calls_concat", "reader_drain",
      "wlim_model_holdsOn", "rlim_model_holdsOn",
      "reader_pair_unchanged", "reader_any_source", "reader_any_prefix", "reader_read_bounds", "reader_eof_with_data",
      "stats_count_all", "reader_tail_charged", "writer_any_sink", "writer_calls_any_sink", "writer_lax_sink_witness",
      "rsrc_model_holdsOn", "wsnk_model_holdsOn", "reader_charged", "reader_charged_old_witness", "reader_code_charges", "bucket_bound",
      "bucket_window_bound", "closeTop_idem", "closeCount_of_check", "closeTop_bare", "client_close",
      "server_close_fixed", "server_close_partial", "server_close_witness", "server_close_full_fails",
      "server_close_switch", "server_close_current", "http_close_fixed", "http_close_current", "visitor_close", "visitor_server_close",
      "closeNotify_witness", "closeNotify_fixed", "stats_close", "rwcConn_close", "jstep_done", "join_returns",
      "join_stuck_witness", "find_endpoint", "find_name", "no_crosswire", "dispatch_unknown", "pp_header_src",
      "pp_header_iff", "pp_header_dst", "https_replays_all", "tcpmux_passthrough_replays_all",
      "tcpmux_strips_consumed", "tcpmux_early_data_witness", "holdsOn_sound", "model_holdsOn", "xferHoldsOn_sound",
      "dl_clear_both", "dl_read_only_clear_leaves_write", "handle_clears_deadlines", "handle_closes_or_clears",
      "handle_code_clears", "dlHoldsOn_sound", "quic_noCancel_delivers", "quic_close_delivers", "quic_cancelWrite_loses",
      "quic_close_code", "pool_no_sharing", "pool_live_not_pooled", "pool_double_put_witness", "pool_recycle_once_code",
      "survivor_keeps_route", "survivor_example",
      "reload_table", "reload_inv", "reload_bridges_last", "reload_swap", "reload_inplace_witness", "reload_code_recreates",
      "startmsg_own", "startmsg_header_own", "startmsg_shared_witness", "startmsg_code_locals"]

PROP = {
        "level": "proof",
        "gens": ["ConnFacts"],
        "theorems": ["Frp.C01." + t for t in _T],
        "engines": [
            {"name": "stack", "quick_n": 3000, "thorough_n": 30000, "thorough_seeds": 3,
             "search_seeds": 2, "search_n": 400, "reruns": 1,
             "nontrivial": stack_nontrivial, "result_class": stack_class},
            {"name": "e2e", "quick_n": 70, "thorough_n": 600, "thorough_seeds": 3,
             "search_seeds": 1, "search_n": 60, "reruns": 1,
             "nontrivial": e2e_nontrivial, "result_class": e2e_class},
        ],
        "rule": "stack engine: real limit.Writer over a recording sink (chunk traces, byte for byte) and limit.Reader; the same two "
                "over REAL FINITE rate.Limiters (burst 1 B..8 KiB; either a high rate that is really waited for, or 1 token/s "
                "refilled after every sink write so that the tokens each WaitN took are read off the limiter): writes of 0..8 "
                "bursts, alone and split over 1..4 calls, over a sink that fails after a generated number of bytes (returned n, "
                "error class, sizes the sink saw, tokens per WaitN, accepted bytes = prefix), reads with buffers smaller and "
                "larger than the burst over a source handing out segments, drained to EOF; the io.Reader / io.Writer CONTRACT "
                "for every wrapper of the byte path (rsrc / wsnk): stacks of 1..3 of limit.Reader+Writer inside golib "
                "ReadWriteCloser inside WrapReadWriteCloserConn (as frp builds it), StatsConn, CloseNotifyConn, ContextConn over a "
                "SCRIPTED source — (n>0, EOF), (n>0, other error), the error on its own read, runs of (0, nil), 1-byte reads, "
                "segments below / at / above buffer and burst — drained by an io.Copy-like caller (bytes and tokens of every Read, "
                "final error class, bytes = what the source delivered incl. those that came with the error, StatsConn's count) and "
                "over a SCRIPTED sink (full counts, short counts with error, full counts with error, short counts without error) "
                "(count returned = bytes the sink took, error reported, sink holds a prefix); the real server / client half-tunnels "
                "over a scripted WORK CONNECTION (tail): the wire bytes of 1 B..70 KB, cut in generated pieces (1 byte, (0, nil), "
                "> 16 KiB, everything at once), end with EOF / another error together with the last piece or on a read of its own, all "
                "enc x comp x limit x side: the user / backend gets everything, then end-of-stream; real "
                "x/time/rate ReserveN with explicit times vs the bucket model, the Lean window bound evaluated on the real grant "
                "times; real server/proxy TCP proxy (proxy.NewProxy+Run) with the harness as frpc decoding with real golib "
                "layers in the order the MODEL predicts (all enc x comp x server-limit x echo/one-way), StartWorkConn name/src "
                "checked, user close => work connection closed (counting conn); real client/proxy TCP proxy (NewProxy+"
                "InWorkConn) with the harness as frps, proxy-protocol none/v1/v2 parsed by a tagged backend, close from either "
                "side; real client proxy.Manager.HandleWorkConn over 1..4 prefix-related names + an unknown name; real "
                "CloseNotifyConn/StatsConn/WrapReadWriteCloserConn closed 1..3 times over a counting conn; real vhost HTTPS "
                "muxer and tcpmux CONNECT muxer (passthrough on/off) with 0/1/40 early bytes; the same muxers behind a listener "
                "whose connections RECORD every Set{,Read,Write}Deadline call: routed / routed by HTTP user / with credentials / "
                "unrouted / wrong credentials, the deadlines left armed at the hand-off, and a write in each direction on a "
                "connection OLDER than the muxer's (400..700 ms) timeout; a real quic-go stream wrapped by QuicStreamToNetConn at "
                "both ends: the writer writes and closes, the reader starts 0..3.4 s later, the stream calls of Close recorded. "
                "e2e engine: real frps+frpc in one "
                "process, 4 transport configurations (tcpMux x TLS x pool) over tcp + one over quic + one over websocket, 56 proxies each (tcp 24, stcp+visitor 12, https 8, "
                "tcpmux 4, 2 bandwidth, 6 small-limit: 8KB plain / 12KB enc / 64KB enc+comp x limit enforced by frpc / frps), each with its own tagged echo backend; payloads 0..1 MiB (random / zeros / mixed runs), "
                "write chunkings 1..64 KiB and random, echo and one-way (user closes => backend must see everything then EOF), "
                "2..6 simultaneous connections to distinct proxies, 256 KB/s limit on either side with the receive trace checked "
                "by the Lean bucket bound; small limits (burst below the 16..32 KiB pieces Join copies, so every copy is split by "
                "limit.Writer / truncated by limit.Reader) with 2..3.5 bursts of payload, six transfers at once, user->backend "
                "with the user closing and backend->user with the BACKEND writing everything in one Write and closing: "
                "complete, unchanged, EOF, receive trace within burst + rate x span; the same small-limit proxies with streams that "
                "END after 1 byte .. a little more than one burst over the quic pair (twice: every enforcing side x limit in both "
                "directions), the websocket pair and a tcp pair, and the several-burst transfers over quic; slow readers (a sleep after every read) that "
                "stop reading for 0..3.5 s at a byte position or at the moment the writing side of the tunnel is done (backend "
                "half-closed, frpc forwarded everything, closed and hung up), user or backend as the reader, 17 B..10 MiB: "
                "complete stream, then EOF; proxy LIFE CYCLE on a dedicated pair: 13 tcpmux / https proxies (routeByHTTPUser "
                "siblings on one domain, other domains, wildcard proxies covering them) reloaded through "
                "client.Service.UpdateAllConfigurer along generated close / start sequences, after each step a user per "
                "(host, HTTP user) — 25 probes — notes whose backend answers, compared with C06's Router model and every ACTIVE "
                "proxy's own endpoint must reach its own backend; connection SCHEDULES: 3..5 back-to-back groups of 1..4 "
                "simultaneous connections, mostly on compressed proxies (pooled codecs), each with its own random stream checked "
                "byte for byte both ways and its tag; RELOAD HISTORIES on a dedicated pair (3 transport configurations): 3 tcp + 1 tcpmux proxy over 5 "
                "backends that answer WHO they are and what header they got (each on a TCP port and a unix socket), 1..8 configurations "
                "loaded one after the other into the running frpc through client.Service.UpdateAllConfigurer — change classes: only "
                "localIP/localPort, only proxyProtocolVersion, dialled <-> unix_domain_socket plugin, two proxies swapping their "
                "backends, a field frps sees (remotePort / customDomain / encryption+compression), local and remote together, nothing, a "
                "proxy going / coming back, a name configured twice — and after every one a NEW user per proxy: answered by the backend "
                "(and with the header version, naming that user) of the configuration loaded LAST, replayed on the UpdateAll model from "
                "the table the earlier ops left; SIMULTANEOUS USERS of one proxy with proxyProtocolVersion v1 / v2 (dialled backend or the "
                "plugin): 1..3 rounds of 2..24 users from 1..4 distinct source addresses dialling at the same instant, all connections "
                "held open: every header names the very user of its connection (and the endpoint dialled). non-trivial = a write that was split / a grant that waited / any half-tunnel, close, "
                "dispatch, sniff or end-to-end transfer that ran; distinct = distinct (op line, result) pairs",
        "trusted": COMMON_TRUST + [
            "models Frp/Model/Deadline.lean, QuicStream.lean, CodecPool1.lean, the charging order of Limit.readW written by hand from pkg/util/vhost/vhost.go "
            "(Muxer.handle), pkg/util/net/conn.go (wrapQuicStream) + quic-go's stream semantics, golib io/pool "
            "(WithCompressionFromPool); tied by Frp/Gen/ConnFacts.lean (go/ast: the deadline calls of handle, the stream calls "
            "of wrapQuicStream.Close incl. those in closures, whether a WaitN dominates every return of limit.Reader.Read, the most invocations of a codec's recycle function on any path "
            "of every caller) through handle_code_clears / quic_close_code / reader_code_charges / pool_recycle_once_code, and by the dl / qclose / rsrc / "
            "sched ops; the life op replays C06's Router model (Frp/Model/Router.lean)",
            "model Frp/Model/Reload.lean (client proxy.Manager.UpdateAll over Wrapper{Cfg, the running proxy's configuration}; the fill / send "
            "moments of server GetWorkConnFromPool per user connection) written by hand from client/proxy/proxy_manager.go, proxy_wrapper.go, "
            "proxy.go, server/proxy/proxy.go; tied by Frp/Gen/ConnFacts.lean (go/ast: the conditions on the way to every `del = true` of "
            "UpdateAll's first loop, everything that loop does with a running wrapper, the calls under `if del` and of the second loop, "
            "every assignment in client/proxy to a path through Cfg / pxy / baseCfg / cfg; the argument of msg.WriteMsg in "
            "GetWorkConnFromPool, whether its address fields come from locals, every write through the receiver in it and the "
            "BaseProxy methods it calls) through reload_code_recreates / startmsg_code_locals, and by the reload / ppc ops; a "
            "configuration changed through an alias the syntactic facts do not see is only caught by the ops",
            "models Frp/Model/Layers.lean, Limit.lean, CloseGraph.lean, Tunnel.lean written by hand from "
            "server/proxy/proxy.go, client/proxy/proxy.go, proxy_manager.go, pkg/util/limit, pkg/util/net/conn.go, golib io / "
            "net.SharedConn, vhost/https.go, tcpmux/httpconnect.go; tied by the stack and e2e engines",
            "golib crypto (AES-CFB, IV first) and snappy are ASSUMED to be lawful stream layers (Layers.Lawful); a cipher-shaped "
            "layer with the same structure is proved lawful; sampled on every run by decoding real frps/frpc output with real "
            "golib layers composed in the model-predicted order",
            "golang.org/x/time/rate is ASSUMED to implement the bucket; its reservation arithmetic is compared with "
            "Limit.Res.reserve on generated request histories (explicit-time API) and the bound is evaluated on its grants",
        ],
        "assumptions": [
            "PARTIAL: transports (yamux, TLS, kernel TCP, quic, websocket) and 'eventually delivered' under real scheduling are "
            "only sampled by the e2e engine (quic and websocket by one pair each: random transfers plus slow / pausing readers); "
            "the kcp transport and the xtcp->stcp fallback are not driven",
            "quic-go's stream semantics (Close = FIN after everything written, CancelWrite = reset that makes the peer discard "
            "unread data) are ASSUMED as modelled in QuicStream.lean; sampled by qclose on a real quic-go pair with pauses up to "
            "3.4 s and by the e2e slow op (3.5 s) — a cancellation armed for later than that is only caught by quic_close_code",
            "sync.Pool hands out whatever was Put (CodecPool1.lean: any choice); which connections get a twice-returned object "
            "depends on scheduling — sched ops sample it, pool_recycle_once_code decides it from the source",
            "integer ticks, rate r tokens per tick (bandwidthLimit is a multiple of 1024 B/s, so tick = 1/1024 s is exact)",
            "the bandwidth scenario is real time: 640 KiB through a 256 KB/s limiter (about 1.5 s), bound checked with 150 KB slack; "
            "the small-limit scenarios take (payload - burst) / limit <= 2.5 s each (six run simultaneously), bound checked with 400 ms "
            "x rate + 2 KiB slack, plus one snappy block (64 KiB) when compression is on: the limiter paces wire bytes, the "
            "decompressor releases whole blocks",
            "sources and sinks of the wrappers are scripts of (n, err) answers (Limit.Seg / SinkResp): every finite behaviour "
            "the io.Reader contract allows and every contract-abiding io.Writer; a sink that returns a short count with a nil "
            "error is outside (writer_lax_sink_witness: Write then skips bytes; compared with the model only); "
            "limit.Writer's sink in wlim is modelled as a contract-abiding io.Writer (short count => error); rate.Limiter.WaitN with a "
            "background context is modelled as: error iff n > burst on a finite limiter (x/time/rate v0.5.0 Limiter.wait)",
            "DEFECTS on this tree (model faithful, witnesses proved, reproduced on the real code, recorded as known): "
            "server-side limiter close closure (server_close_witness / join_stuck_witness), CloseNotifyConn.Close "
            "(closeNotify_witness), tcpmux early data (tcpmux_early_data_witness); limit.Reader used to hand on the bytes that come "
            "with an error without charging them (repaired in c863bec; reader_charged_old_witness keeps the old reader as a "
            "sensitivity witness, reader_code_charges reads the statement order off reader.go); repaired models behind "
            "CloseGraph.limiterCloseIsFixed / closeNotifyIsFixed with server_close_fixed / closeNotify_fixed",
        ],
    }

META = {
        "engine": "lean+harness(stack,e2e)",
        "design_ref": "DESIGN.md §6 C01",
        "technique": "Lean 4: stream-layer algebra (lawful stateful transducer pairs; stacking preserves the law by induction; "
                     "the two ends' different stacks are proved compatible in both directions for every option combination), "
                     "the limiter's chunk loop and a token-bucket bound for all histories, a close graph with closures resolved "
                     "at close time + a small-step Join, name dispatch for all proxy tables; the deadline discipline of the vhost sniff phase, the close of a QUIC "
                     "stream, the pooled-codec discipline (invariant over all histories and pool choices) with their programs "
                     "REGENERATED from the source (go/ast), route survival under removals over C06's router model; "
                     "differential correspondence with "
                     "the real limiter, wrappers, half-tunnels and a real frps+frpc pair",
        "text": "Partial (cipher/compression lawfulness, transports and liveness under real scheduling are assumed and sampled). "
                "Proved for the model, kernel-checked: both ends build the same transforming layers in the same order for all "
                "option combinations (proxy and visitor legs); a stack of lawful layers is lawful, and frps' stack composed with "
                "frpc's different stack delivers a prefix of what was written under any chunking of any prefix of the wire, all of "
                "it once everything arrived, in both directions; limit.Writer's chunks concatenate to the input, each 1..burst "
                "bytes, tokens = bytes; with WaitN's refusal of n > burst and a failing sink in the model: no WaitN of Write is ever "
                "refused, Write returns (len, nil) whenever the sink has room and (bytes the sink took, error) otherwise with the "
                "accepted bytes a prefix, any split over calls concatenates, and a drain through limit.Reader with any buffer size "
                "returns the stream unchanged with every request = bytes returned <= burst; FOR ALL SOURCES (scripts of (n, err) "
                "pairs: data together with EOF or another error, (0, nil), any segmentation) and all stacks of limit.Reader / "
                "StatsConn / pass-through wrappers the (n, err) pair reaches the caller unchanged, a drain yields exactly the "
                "bytes the source delivers up to and including those that come with its final error, then that error, "
                "StatsConn counts them all; for all contract-abiding sinks Write returns exactly the bytes the sink took, an "
                "error whenever the sink reported one, and the sink holds a prefix; every byte that goes through limit.Reader is "
                "charged, those that come together with an error included (the return order is regenerated from reader.go); any run of grants of any limiter history is at most burst + rate x span; closing the top "
                "of frpc's stack closes the work connection exactly once for every combination; for frps' stack this is proved "
                "without a server-side limit and REFUTED with one (defect: the limiter's close closure captures the reassigned "
                "variable; user close never reaches the backend) with the repaired closure proved for all combinations; "
                "CloseNotifyConn.Close never closes its connection (defect) and does once repaired; Join returns with both ends "
                "closed after the end of either direction; the backend dialled is the named proxy's for all tables with distinct "
                "names; the proxy-protocol source is the user's address; SNI / CONNECT-passthrough sniffing replays every byte; a connection the vhost muxer hands on carries "
                "no deadline (the calls of the real handle are regenerated and run on the model) and every other outcome closes "
                "it; a stream close that never calls CancelWrite delivers everything written then end-of-stream for every reader "
                "speed, one that does loses the tail (the real wrapper's calls are regenerated); if every handler recycles its "
                "pooled codec at most once (regenerated path count) no two live connections ever hold the same codec, for all "
                "histories and all pool choices; removing routes of other buckets never changes the route of a host/user that "
                "has its own; after any history of reloads of a running frpc (Manager.UpdateAll: a proxy whose configuration is not "
                "equal to the new one is stopped and made again — comparison and writers regenerated from client/proxy) a new "
                "connection of a proxy is bridged to the backend, with the header version, of the configuration loaded last; the "
                "StartWorkConn message written for a user connection carries that connection's own addresses in every interleaving "
                "with other users of the proxy (the message is a literal from locals: regenerated from server/proxy/proxy.go), so "
                "its proxy-protocol header names that very user.",
        "note": "Trusted: Lean kernel; hand-written models; harness. Assumed: golib crypto/snappy lawful, x/time/rate, yamux/TLS/TCP. "
                "Known findings reproduced on every run: C01-server-limiter-close, C01-closenotify-self-close, "
                "C01-tcpmux-early-data. Not covered: kcp, xtcp fallback, vhost port shared with the control port (quic / websocket: one e2e pair each); "
                "tcpmux / https proxy groups and http-type proxies in the life-cycle op (C06 / C10 / C13 cover their routing).",
    }
