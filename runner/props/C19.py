from props import COMMON_TRUST


def client_nontrivial(tok, res):
    op = tok[0]
    if op == "upd":
        return res != "-"
    if op in ("tick", "hup", "hdown"):
        return res not in ("none", "nohealth", "-")
    if op == "resp":
        return res.split(";")[0] in ("ok", "resperr", "runerr")
    if op == "work":
        return res == "handed"
    if op in ("oresp", "ohup", "ohdown", "owork", "ostat"):
        return res != "nok"
    if op == "vupd":
        return res != "cfg=;run="
    if op == "race":
        return "*" in res
    return op in ("live", "livebackoff")


def client_class(r):
    head = r.split(";")[0]
    if head in ("ok", "notwait", "resperr", "runerr", "notfound", "none", "nohealth", "-", "handed", "closed",
                "nok", "kick=false", "lost"):
        return head
    if r[:1] in "CN" and r[1:2].isdigit():
        ks = {e[0] for e in r.split(",")}
        return "ev:" + "".join(sorted(ks))
    if r.startswith("cfg="):
        return "visitors"
    if r.startswith("w="):
        # overlapping operations: was a message held, and did the other side have to wait for its sender's lock
        f = dict(x.split("=", 1) for x in r.split(";") if "=" in x)
        if "*" not in f.get("w", ""):
            return "race:nothing-held"
        return "race:held," + ("holder-stopped" if f.get("a") == "closed" else "holder-alive")
    return "other"


def health_nontrivial(tok, res):
    return tok[0] == "hprobe" and ("F" in res) or tok[0] == "htcp"


PROP = {
        "level": "proof",
        "gens": [],
        "theorems": [
            "Frp.C19.health_consecutive_witness",
            "Frp.C19.health_not_ConsecutiveFull",
            "Frp.C19.health_consecutive_witness2",
            "Frp.C19.health_consecutive_witness3",
            "Frp.C19.fixed_run_eq_spec",
            "Frp.C19.fixed_ConsecutiveFull",
            "Frp.C19.withdraw_iff_consecutive",
            "Frp.C19.health_failedTimes_total",
            "Frp.C19.health_cb_sound",
            "Frp.C19.health_silent_until_first_success",
            "Frp.C19.health_first_success_registers",
            "Frp.C19.health_consecutive_partial",
            "Frp.C19.httpOK_iff",
            "Frp.C19.outcome_failed",
            "Frp.C19.normMax_pos",
            "Frp.C19.step_legal",
            "Frp.C19.run_legal",
            "Frp.C19.closed_absorbing",
            "Frp.C19.no_newProxy_after_stop",
            "Frp.C19.stop_emits_one_close",
            "Frp.C19.inWorkConn_handed_iff",
            "Frp.C19.startErr_retry",
            "Frp.C19.startErr_not_absorbing",
            "Frp.C19.startResp_error",
            "Frp.C19.no_register_while_unhealthy",
            "Frp.C19.unhealthy_withdraws",
            "Frp.C19.recovery_registers",
            "Frp.C19.sync_step",
            "Frp.C19.sync_run",
            "Frp.C19.converge_wrapper",
            "Frp.C19.inv_init",
            "Frp.C19.inv_updateAll",
            "Frp.C19.inv_deliver",
            "Frp.C19.update_names",
            "Frp.C19.update_kept_same_wrapper",
            "Frp.C19.update_close_count",
            "Frp.C19.update_new_count",
            "Frp.C19.update_new_wrappers",
            "Frp.C19.update_changed_gone",
            "Frp.C19.update_running_cfgs",
            "Frp.C19.conc_refines",
            "Frp.C19.conc_quiescent_atomic",
            "Frp.C19.conc_lock_excludes",
            "Frp.C19.conc_no_newProxy_after_stop",
            "Frp.C19.conc_sync",
            "Frp.C19.race_schedule_wire",
            "Frp.C19.earlyUnlock_witness",
            "Frp.C19.earlyUnlock_not_quiet",
            "Frp.C19.raceSyncOK_of_Sync",
            "Frp.C19.raceStopOK_of_last",
            "Frp.C19.reload_dup_witness",
            "Frp.C19.not_ReloadIdempotentFull_old",
            "Frp.C19.reload_dup_runs_first",
            "Frp.C19.reload_dup_fixed_witness",
            "Frp.C19.reload_idempotent",
            "Frp.C19.updHoldsOn_of_UpdHolds",
            "Frp.C19.model_UpdHolds",
            "Frp.C19.healthHoldsOn_sound",
            "Frp.C19.fixed_healthHoldsOn",
        ],
        "engines": [
            {"name": "health", "quick_n": 2200, "thorough_n": 9000, "thorough_seeds": 4,
             "nontrivial": health_nontrivial, "search_seeds": 2, "search_n": 1200,
             "result_class": lambda r: ("withdrawn" if "F" in r else "up" if "N" in r else "never-up") if set(r) <= set("NF.") else r[:12]},
            {"name": "client", "quick_n": 3000, "thorough_n": 9000, "thorough_seeds": 4,
             "nontrivial": client_nontrivial, "result_class": client_class, "search_seeds": 2, "search_n": 1500},
        ],
        "rule": "health engine: probe-outcome histories against the real health.Monitor (n = number of probes); non-trivial = "
                "a history on which the failed callback fired. client engine: reload / tick / reply / health / work-connection "
                "histories against the real proxy.Manager and its Wrappers; non-trivial = the op produced a message, a status "
                "change, a hand-over or hit a stopped wrapper; for `race` (two overlapping operations, the first one held in the "
                "transporter at the hand-over of its NewProxy/CloseProxy) non-trivial = a message was actually held; "
                "distinct = distinct (op line, result) pairs",
        "trusted": COMMON_TRUST + [
            "models Frp/Model/Health.lean, Wrapper.lean, WrapperConc.lean, Reconcile.lean written by hand; tied by the engines health "
            "(real health.Monitor + scripted HTTP/TCP backend) and client (real proxy.Manager/Wrapper/visitor.Manager, "
            "capturing MessageTransporter)",
            "verif hooks client/proxy/verif_export.go, client/health/verif_export.go, client/visitor/verif_export.go "
            "(timing setters, one-iteration wake-up of the wrapper worker through its own notify channel, health callbacks, dumps)",
        ],
        "assumptions": [
            "the wrapper worker's two deadline tests are driven by setting waitResponseTimeout/startErrTimeout to +-1h per "
            "iteration from a virtual clock kept by the harness; the compiled-in values 3s/20s/30s are compared once (op consts); "
            "one real-time scenario each covers the back-off (livebackoff) and wrapper+monitor+listener (live)",
            "quiescence of the worker goroutines is observed through runtime.Stack",
            "TCP probes: only up/down/up with a real listener (htcp); the counting logic is exercised through HTTP probes",
            "goroutine interleavings inside one wrapper are proved for ALL schedules on the small-step model WrapperConc "
            "(statement granularity: lock, phase write, hand-over to pw.handler, unlock); on the real code they are driven at the "
            "one point reachable without touching frp — a gate in the harness' MessageTransporter that holds the first "
            "NewProxy/CloseProxy of an operation just before it is on the wire while a second operation runs until it has "
            "finished or its goroutine is blocked (runtime.Stack); other preemption points (between Lock() and the phase test, "
            "between two statements that do not call the handler) are not driven, InWorkConn/GetStatus are not in the small-step model",
            "visitor reload is compared against a small model in the engine (configured / running names) without theorems; "
            "visitor.Manager.UpdateAll still starts the first and compares with the last entry of a duplicated visitor name",
        ],
    }

META = {
        "engine": "lean+harness(health,client)",
        "design_ref": "DESIGN.md §6 C19, §7 item 8",
        "technique": "Lean 4 models of health counting, wrapper phase machine (atomic and small-step with pw.mu) and reload diff; "
                     "theorems by induction over all probe histories / event sequences / reloads / goroutine schedules; differential "
                     "correspondence with the real health.Monitor and proxy.Manager/Wrapper, including overlapping operations with a "
                     "message held in the transporter; property predicates evaluated on the implementation's answers",
        "text": "Proof (two findings, both repaired in /repo: 75a9f5a and eab68f8). Health: the pinned monitor never reset failedTimes, so "
                "withdrawal happened after maxFailed failures in total, not in a row (kernel-checked witness, reproduced on the real "
                "Monitor before the fix); the machine as it is now (HealthFixed) satisfies the full statement withdraw_iff_consecutive. Wrapper: for every event sequence the status "
                "moves only along legal edges, a stopped wrapper sends nothing and accepts nothing, work connections are handed "
                "over iff running, a start error is retried exactly after the back-off and is never absorbing, nothing is "
                "registered before the first successful probe, status and the server's view stay in step. Goroutines: every interleaving "
                "of the worker iteration (health load outside the lock, phase write and hand-over of the message inside), Stop, "
                "SetRunningStatus and the monitor callbacks is a sequential run of that machine in lock order (conc_refines), hence on "
                "the wire nothing but CloseProxy follows once Stop has written closed (conc_no_newProxy_after_stop) and the last message "
                "agrees with the status at every quiescent point (conc_sync); the variant that unlocks before handing NewProxy over "
                "violates both (earlyUnlock_witness). Reload: running names = "
                "configured names, unchanged entries keep the same wrapper object with no message, removed/changed ones get exactly "
                "one CloseProxy, added ones exactly one NewProxy (none if health-gated), every running wrapper carries the configured "
                "(last) entry of its name, and reloading the loaded configuration is a no-op for EVERY configuration list "
                "(reload_idempotent). Before fix eab68f8 a name configured twice with different contents was stopped and "
                "re-registered on every identical reload (witness reload_dup_witness about updateAllOld, reproduced on the real "
                "Manager before the fix).",
        "note": "Trusted: Lean kernel; the hand-written models and the correspondence harness. Not covered: real-time behaviour beyond "
                "two scenarios, TCP probe timeouts, visitor restart loop (keepVisitorsRunning), preemption points of the wrapper other than the "
                "hand-over of a message to the transporter.",
    }
