from props import COMMON_TRUST


def client_nontrivial(tok, res):
    op = tok[0]
    if op == "upd":
        return res != "-"
    if op in ("tick", "hup", "hdown"):
        return res not in ("none", "nohealth", "-")
    if op == "resp":
        return res.split(";")[0] in ("ok", "resperr", "runerr")
    if op == "work":
        return res == "handed"
    if op in ("oresp", "ohup", "ohdown", "owork", "ostat"):
        return res != "nok"
    if op == "vupd":
        return res != "cfg=;run="
    if op == "race":
        return "*" in res
    if op == "wake":
        return res.startswith("w=") and not res.startswith("w=-")
    return op in ("live", "livebackoff")


def client_class(r):
    head = r.split(";")[0]
    if head in ("ok", "notwait", "resperr", "runerr", "notfound", "none", "nohealth", "-", "handed", "closed",
                "nok", "kick=false", "lost"):
        return head
    if r[:1] in "CN" and r[1:2].isdigit():
        ks = {e[0] for e in r.split(",")}
        return "ev:" + "".join(sorted(ks))
    if r.startswith("cfg="):
        return "visitors"
    if r.startswith("w="):
        # overlapping operations: was a message held, and did the other side have to wait for its sender's lock
        f = dict(x.split("=", 1) for x in r.split(";") if "=" in x)
        if "*" not in f.get("w", ""):
            return "race:nothing-held"
        return "race:held," + ("holder-stopped" if f.get("a") == "closed" else "holder-alive")
    return "other"


def _vm_fields(res):
    f = {}
    for part in res.split(";"):
        if "=" in part:
            k, v = part.split("=", 1)
            f[k] = [x for x in v.split(",") if x]
    return f


def vmgr_nontrivial(tok, res):
    op = tok[0]
    if op == "xfer":
        return res in ("ok", "closed")
    f = _vm_fields(res)
    if op in ("squat", "free"):
        return res.startswith("ok") and bool(f.get("cfg"))
    return bool(f.get("cfg")) or bool(f.get("run"))


def vmgr_class(r):
    if "cfg=" not in r:
        return r[:10]
    f = _vm_fields(r)
    head = r.split(";")[0] if not r.startswith("cfg=") else ""
    cfgn = {c.split(":")[0] for c in f.get("cfg", [])}
    runn = {c.split(".")[0] for c in f.get("run", [])}
    if not cfgn:
        k = "none-configured"
    elif cfgn <= runn:
        k = "all-running"
    elif runn:
        k = "some-retrying"
    else:
        k = "all-retrying"
    return (head + "," if head else "") + k


def svc_nontrivial(tok, res):
    if tok[0] == "getcfg":
        return res == "same"
    return "ev=" in res and ("ev=-" not in res or ":wait" in res)


def svc_class(r):
    if "ev=" not in r:
        return r[:10]
    parts = r.split(";")
    head = parts[0] if not parts[0].startswith("ev=") else ""
    ev = [p for p in parts if p.startswith("ev=")][0][3:]
    st = [p for p in parts if p.startswith("st=")][0][3:]
    kinds = "".join(sorted({e[0] for sess in ev.split("|") if ":" in sess for e in sess.split(":", 1)[1].split(",")})) if ev != "-" else "-"
    where = "waiting-on-dead-session" if ":wait" in st else ("none" if st in ("-", "") else "running")
    return ",".join(x for x in (head, "ev:" + kinds, where) if x)


def _cr_fields(res):
    return dict(x.split("=", 1) for x in res.split(";") if "=" in x)


def ctlreg_nontrivial(tok, res):
    # a message reached the server, or an answer was written to the client
    if not res.startswith("ev="):
        return tok[0] == "witness"
    return tok[0] in ("deliver", "dup", "forge") or _cr_fields(res).get("ev", "-") != "-"


def ctlreg_class(r):
    if not r.startswith("ev="):
        return r[:10]
    f = _cr_fields(r)
    kinds = "".join(sorted({c for part in f["ev"].split(",") if ":" in part for c in part.split(":")[1]})) or "-"
    queued = "answers-queued" if f.get("q", "-") != "-" else "queue-empty"
    return "wire:%s,%s" % (kinds, queued)


def health_nontrivial(tok, res):
    return tok[0] == "hprobe" and ("F" in res) or tok[0] == "htcp"


PROP = {
        "level": "proof",
        "gens": ["SessFacts", "C19Facts"],
        "extra_targets": ["Frp.Props.C19Visitors", "Frp.Props.C19Reload", "Frp.Props.C19Ctl", "Frp.Props.C19Sched", "Frp.Props.C19Keeper"],
        "theorems": [
            "Frp.C19.health_consecutive_witness",
            "Frp.C19.health_not_ConsecutiveFull",
            "Frp.C19.health_consecutive_witness2",
            "Frp.C19.health_consecutive_witness3",
            "Frp.C19.fixed_run_eq_spec",
            "Frp.C19.fixed_ConsecutiveFull",
            "Frp.C19.withdraw_iff_consecutive",
            "Frp.C19.health_failedTimes_total",
            "Frp.C19.health_cb_sound",
            "Frp.C19.health_silent_until_first_success",
            "Frp.C19.health_first_success_registers",
            "Frp.C19.health_consecutive_partial",
            "Frp.C19.httpOK_iff",
            "Frp.C19.outcome_failed",
            "Frp.C19.normMax_pos",
            "Frp.C19.step_legal",
            "Frp.C19.run_legal",
            "Frp.C19.closed_absorbing",
            "Frp.C19.no_newProxy_after_stop",
            "Frp.C19.stop_emits_one_close",
            "Frp.C19.inWorkConn_handed_iff",
            "Frp.C19.startErr_retry",
            "Frp.C19.startErr_not_absorbing",
            "Frp.C19.startResp_error",
            "Frp.C19.no_register_while_unhealthy",
            "Frp.C19.unhealthy_withdraws",
            "Frp.C19.recovery_registers",
            "Frp.C19.sync_step",
            "Frp.C19.sync_run",
            "Frp.C19.converge_wrapper",
            "Frp.C19.inv_init",
            "Frp.C19.inv_updateAll",
            "Frp.C19.inv_deliver",
            "Frp.C19.update_names",
            "Frp.C19.update_kept_same_wrapper",
            "Frp.C19.update_close_count",
            "Frp.C19.update_new_count",
            "Frp.C19.update_new_wrappers",
            "Frp.C19.update_changed_gone",
            "Frp.C19.update_running_cfgs",
            "Frp.C19.conc_refines",
            "Frp.C19.conc_quiescent_atomic",
            "Frp.C19.conc_lock_excludes",
            "Frp.C19.conc_no_newProxy_after_stop",
            "Frp.C19.conc_sync",
            "Frp.C19.race_schedule_wire",
            "Frp.C19.earlyUnlock_witness",
            "Frp.C19.earlyUnlock_not_quiet",
            "Frp.C19.raceSyncOK_of_Sync",
            "Frp.C19.raceStopOK_of_last",
            "Frp.C19.reload_dup_witness",
            "Frp.C19.not_ReloadIdempotentFull_old",
            "Frp.C19.reload_dup_runs_first",
            "Frp.C19.reload_dup_fixed_witness",
            "Frp.C19.reload_idempotent",
            "Frp.C19.updHoldsOn_of_UpdHolds",
            "Frp.C19.model_UpdHolds",
            "Frp.C19.healthHoldsOn_sound",
            "Frp.C19.fixed_healthHoldsOn",
            # Part V (visitors, Frp/Props/C19Visitors.lean), Part F (every field) and Part S (re-login), Frp/Props/C19Reload.lean
            "Frp.C19.vm_inv_init",
            "Frp.C19.vm_inv_step",
            "Frp.C19.vm_inv_run",
            "Frp.C19.vm_update_names",
            "Frp.C19.vm_update_cfgs_mem",
            "Frp.C19.vm_kept_same_visitor",
            "Frp.C19.vm_changed_closed",
            "Frp.C19.vm_reload_idempotent",
            "Frp.C19.vm_dup_restart_witness",
            "Frp.C19.vm_history_configured",
            "Frp.C19.vm_history_running",
            "Frp.C19.vm_removed_never_runs",
            "Frp.C19.vm_changed_runs_new",
            "Frp.C19.vm_try_starts",
            "Frp.C19.vm_try_blocked",
            "Frp.C19.vm_try_others",
            "Frp.C19.vm_pass_complete",
            "Frp.C19.model_vHolds",
            "Frp.C19.model_vSettled",
            "Frp.C19.reload_changed_restarts",
            "Frp.C19.reload_unchanged_silent",
            "Frp.C19.store_run",
            "Frp.C19.reconnect_runs_last_loaded",
            "Frp.C19.relogin_registers_last_loaded",
            "Frp.C19.outage_reload_silent",
            "Frp.C19.reconnect_code",
            "Frp.C19.reconnect_early_witness",
            "Frp.C19.model_sessionRegOK",
            # round 3: the stored configuration is immutable (Props/C19.lean, Part R), the two visitor-manager findings
            # and their repaired functions (Props/C19Visitors.lean)
            "Frp.C19.step_cfg",
            "Frp.C19.run_cfg",
            "Frp.C19.deliver_stored",
            "Frp.C19.stored_immutable",
            "Frp.C19.running_cfgs_history",
            "Frp.C19.reload_silent_after_history",
            "Frp.C19.model_statusHolds",
            "Frp.C19.vm_run_cfgs",
            "Frp.C19.vm_dup_fixed_witness",
            "Frp.C19.vm_reload_idempotent_fixed",
            "Frp.C19.vm_fixed_runs_last",
            "Frp.C19.vm_fixed_reload_keeps_all",
            "Frp.C19.vm_close_pass_witness",
            "Frp.C19.vm_close_pass_fixed_witness",
            "Frp.C19.vm_closed_quiet_fixed",
            "Frp.C19.vm_closed_quiet_partial",
            "Frp.C19.model_vKept_fixed",
            "Frp.C19.model_vClosedQuiet_fixed",
            # round 4: the Control's handlers between connection and manager, the server's table, all reply schedules
            # (Props/C19Ctl.lean over Model/CtlReg.lean)
            "Frp.C19.reply_outside_wait_silent",
            "Frp.C19.reply_unconfigured_silent",
            "Frp.C19.ctl_sync_step",
            "Frp.C19.ctl_sync_run",
            "Frp.C19.running_never_closed",
            "Frp.C19.close_leaves_not_running",
            "Frp.C19.unconfigured_closed",
            "Frp.C19.reg_inv_step",
            "Frp.C19.reg_inv_run",
            "Frp.C19.quiescent_held_iff_running",
            "Frp.C19.own_reply_truthful",
            "Frp.C19.flap_unanswered_converges",
            "Frp.C19.resend_converges",
            "Frp.C19.stale_reply_witness",
            "Frp.C19.truthful_needed",
            "Frp.C19.closing_glue_witness",
            "Frp.C19.handleResp_eq_act",
            "Frp.C19.srvRecvAll_held",
            "Frp.C19.srvRecv_other",
            "Frp.C19.model_syncObsOK",
            "Frp.C19.model_tableObsOK",
            "Frp.C19.converge_registers",
            "Frp.C19.converge_unhealthy_withdrawn",
            "Frp.C19.remove_releases",
            # round 5: the worker's decisions read from the source (Gen/C19Facts.lean), Stop overtaking a woken worker
            # (Props/C19Sched.lean)
            "Frp.C19.source_phase_order",
            "Frp.C19.wantsStart_eq_source",
            "Frp.C19.source_register_phases",
            "Frp.C19.withdraw_eq_source",
            "Frp.C19.source_worker_writes",
            "Frp.C19.closed_tick_silent",
            "Frp.C19.wake_stop_schedule_wire",
            "Frp.C19.conc_woken_worker_after_stop",
            "Frp.C19.noNewAfterLastClose_of_tail",
            # round 5: the visitor manager's keeper goroutine as state (Model/VisitorKeeper.lean, Props/C19Keeper.lean)
            "Frp.C19.keeper_source_shape",
            "Frp.C19.keeper_exits_only_on_stop",
            "Frp.C19.keeper_inv_init",
            "Frp.C19.keeper_inv_step",
            "Frp.C19.keeper_inv_run",
            "Frp.C19.keeper_alive",
            "Frp.C19.keeper_tick_settles",
            "Frp.C19.keeper_obstacle_gone_running",
            "Frp.C19.keeper_exit_on_empty_witness",
            "Frp.C19.keeper_empty_episode_code",
        ],
        "engines": [
            {"name": "health", "quick_n": 2200, "thorough_n": 9000, "thorough_seeds": 4,
             "nontrivial": health_nontrivial, "search_seeds": 2, "search_n": 1200,
             "result_class": lambda r: ("withdrawn" if "F" in r else "up" if "N" in r else "never-up") if set(r) <= set("NF.") else r[:12]},
            {"name": "client", "quick_n": 3000, "thorough_n": 9000, "thorough_seeds": 4,
             "nontrivial": client_nontrivial, "result_class": client_class, "search_seeds": 2, "search_n": 1500},
            # reruns 1: the two known findings show on every run, each re-execution costs the whole engine run
            {"name": "vmgr", "quick_n": 2500, "thorough_n": 6000, "thorough_seeds": 4, "reruns": 1,
             "nontrivial": vmgr_nontrivial, "result_class": vmgr_class, "search_seeds": 2, "search_n": 1500},
            {"name": "svc", "quick_n": 280, "thorough_n": 900, "thorough_seeds": 3,
             "nontrivial": svc_nontrivial, "result_class": svc_class, "search_seeds": 2, "search_n": 280},
            # reruns 1: the known finding (op witness) shows on every run
            {"name": "ctlreg", "quick_n": 900, "thorough_n": 3000, "thorough_seeds": 4, "reruns": 1,
             "nontrivial": ctlreg_nontrivial, "result_class": ctlreg_class, "search_seeds": 2, "search_n": 600},
        ],
        "rule": "health engine: probe-outcome histories against the real health.Monitor (n = number of probes); non-trivial = "
                "a history on which the failed callback fired. client engine: reload / tick / reply / health / work-connection "
                "histories against the real proxy.Manager and its Wrappers; EVERY reload is what apiReload does: the entries are written as "
                "a configuration file (JSON and TOML alternately) that spells out only the values the entry sets - localIP, "
                "bandwidthLimitMode, a plugin's enableHTTP2 and, for most health-checked entries, some subset of the health check's "
                "intervalSeconds / timeoutSeconds / maxFailed are left out - and read back through config.LoadClientConfig + "
                "validation.ValidateAllClientConfig, so the manager gets freshly allocated, loader-completed objects each time (a "
                "second load of the same file is kept as the pristine image: `status` reports a wrapper whose stored object no longer "
                "equals it); configurations are one of 19 "
                "hand-picked ones or a field vector (one digit per field of v1.ProxyBaseConfig - useEncryption, useCompression, "
                "bandwidthLimit, bandwidthLimitMode, proxyProtocolVersion, metadatas, annotations, load balancer group / key, "
                "health check (with which defaults are left out), localIP, localPort, plugin - and of the type's own struct, for tcp / http / https / stcp / tcpmux); one "
                "class of reloads brings a proxy to status running and then changes exactly ONE digit of it (or none); every "
                "NewProxy the transporter sees is compared with the message marshalled from the configured entry (X<name> otherwise); "
                "non-trivial = the op produced a message, a status "
                "change, a hand-over or hit a stopped wrapper; for `race` (two overlapping operations, the first one held in the "
                "transporter at the hand-over of its NewProxy/CloseProxy) non-trivial = a message was actually held. "
                "`wake` (the worker has left its select - status-check timer, health notification, monitor callback - but has not "
                "taken pw.mu yet when a reload / Manager.Close stops, changes or keeps the wrapper; the harness holds pw.mu, queues "
                "Stop() and the worker's Lock() behind it in either order and lets go; wrapper phases new / wait start before and past "
                "its deadline / start error before and past its back-off / running / check failed): non-trivial = a message went "
                "out; the clauses evaluated on the implementation's wire: a wrapper taken out of the manager reports closed and "
                "after the last CloseProxy of its name at most the one NewProxy of a re-configured name follows. "
                "`live`: real time, real monitor, the same text loaded again while wrapper, monitor and proxy run. "
                "vmgr engine: reload / squat / free / tick / Close / Close-overtaking-a-loop-iteration / TransferConn histories against the real visitor.Manager with "
                "real stcp / xtcp / sudp visitors binding 5 loopback addresses (tcp and udp, two IPs) which the harness takes and "
                "releases; visitor configurations are field vectors over every field of VisitorBaseConfig and XTCPVisitorConfig, "
                "reloads add / remove / reorder / duplicate / change exactly one field, often of an entry whose Run() failed at "
                "load, and go through the real loader from text that leaves bindAddr and xtcp's protocol / maxRetriesAnHour / "
                "minRetryInterval / fallbackTimeoutMs out (entries with a harness plugin are built in place, fresh objects as well); "
                "the manager gets exactly the configured list - also the EMPTY one, with episodes `nothing configured for one to three "
                "ticks, then entries mostly on an address that is taken at that moment, which is released afterwards` -; "
                "every op ends after a complete pass of the real keep-alive loop (observed through vm.mu, which the pass needs) "
                "or reports that the keeper goroutine is gone; non-trivial = something is configured. "
                "svc engine: whole service lives (start from a configuration file, reloads through PUT /api/config + GET "
                "/api/reload - also of a file that does not parse -, GET /api/status after every op, GET /api/config, POST "
                "/api/stop) against an in-process scripted "
                "server that drops the session and accepts, refuses or holds the next dial, with reloads while connected, while "
                "a dial hangs and between two attempts; proxies are field vectors (reloads add / remove / reorder / duplicate / "
                "change exactly one field; the file spells out only what the vector sets), up to three stcp visitors bind real loopback ports which are probed after every op; "
                "non-trivial = a message reached the server or wrappers wait on a dead "
                "session. ctlreg engine: the real client.Control (dispatcher, registered handlers, transporter, proxy.Manager, "
                "wrappers) on a net.Pipe control connection whose other end is a scripted server that keeps the table a real "
                "server keeps (NewProxy accepted - the op's decision - minus CloseProxy; NewProxy for a held name refused) and "
                "QUEUES its answers: the op sequence delivers them in order, out of order, twice, never, or forges one, at any "
                "moment relative to worker iterations (virtual clock around the 20 s / 30 s deadlines), health flaps and reloads "
                "(add / remove / change / keep / duplicate), with episodes in which a second request for a name goes out while "
                "the first is unanswered; after every op: what reached the server per name in wire order, GetAllProxyStatus, the "
                "server's table, the queue; non-trivial = a message reached the server or an answer was written to the client; "
                "distinct = distinct (op line, result) pairs",
        "trusted": COMMON_TRUST + [
            "models Frp/Model/Health.lean, Wrapper.lean, WrapperConc.lean, Reconcile.lean, VisitorMgr.lean, CtlReg.lean written by hand (Rereg.lean is "
            "C14's, used read-only); tied by the engines health "
            "(real health.Monitor + scripted HTTP/TCP backend), client (real proxy.Manager/Wrapper, "
            "capturing MessageTransporter), vmgr (real visitor.Manager + real visitors + real sockets) and svc (real "
            "client.Service + admin API + scripted server behind ServiceOptions.ConnectorCreator) and ctlreg (real client.Control "
            "from client.NewControl on a pipe + scripted server with queued answers)",
            "the `variant` of a configuration in the models is an injective code of its field values, built and decoded by "
            "the harness (eng_client_fields.go, eng_vmgr.go: canonical = fields a type does not have are 0)",
            "vmgr: visitor.Manager.checkInterval (10 s, no setter) is overwritten once through reflect/unsafe right after "
            "NewManager; vm.mu and vm.visitors are read the same way (object identity of visitors); a pass of the keep-alive "
            "loop is observed through vm.mu: the harness takes it, waits until the keeper goroutine's next tick is blocked in "
            "Lock() (runtime.Stack), releases it and waits until the goroutine is back in its select; the goroutine counts as "
            "gone when no goroutine with a keepVisitorsRunning frame shows for 10 ms",
            "client op wake: pw.mu of a Wrapper is taken through reflect/unsafe; `blocked in Lock()` of (*Wrapper).Stop and "
            "(*Wrapper).checkWorker is read from runtime.Stack; sync.Mutex serves blocked callers in arrival order (if it does "
            "not, the other order's answer is accepted as such)",
            "translate/gen_c19facts.go: a small interpreter over go/ast evaluates checkWorker's two conditions (through helper "
            "methods, switch on pw.Phase, if chains) per phase constant and deadline outcome, and lists every exit statement "
            "of keepVisitorsRunning's loop with its guards",
            "configuration text: harness/eng_c19_load.go renders an entry by marshalling the un-Complete()d structure and pruning "
            "zero / empty members, the loader is frp's own (config.LoadClientConfig, validation.ValidateAllClientConfig); `stored object "
            "intact` = reflect.DeepEqual with a second load of the same file",
            "vmgr closerace: the harness takes vm.mu (reflect/unsafe, as above), lets Manager.Close() and then the loop's next "
            "iteration queue up for it (runtime.Stack: both blocked in Lock) and releases it; should the runtime serve them in the "
            "other order the answer is compared with `free; pass; Close` instead",
            "svc: Service.ctl is read through reflect/unsafe (under ctlMu) to see that loginFunc has installed the new control; "
            "quiescence = every wrapper has left status new (and wait start on a live session), every Dispatcher.sendLoop is "
            "parked (runtime.Stack), the scripted server has recorded every byte the client wrote and the client has taken "
            "every reply; the `early` parameter of Rereg is read from the source by translate/gen_sessfacts.go on every run",
            "ctlreg: Control.pm is read through reflect/unsafe (VerifWrapper / VerifKick / VerifHealth as in engine client); "
            "quiescence = ONE runtime.Stack snapshot in which every wrapper worker and the dispatcher's send loop are parked in "
            "their selects, the dispatcher's read loop and the scripted server are blocked reading the pipe; the server's table "
            "and the answer queue are the harness' (answers produced during one op are queued by name, then arrival)",
            "verif hooks client/proxy/verif_export.go, client/health/verif_export.go, client/visitor/verif_export.go "
            "(timing setters, one-iteration wake-up of the wrapper worker through its own notify channel, health callbacks, dumps)",
        ],
        "assumptions": [
            "the wrapper worker's two deadline tests are driven by setting waitResponseTimeout/startErrTimeout to +-1h per "
            "iteration from a virtual clock kept by the harness; the compiled-in values 3s/20s/30s are compared once (op consts); "
            "one real-time scenario each covers the back-off (livebackoff) and wrapper+monitor+listener (live)",
            "quiescence of the worker goroutines is observed through runtime.Stack",
            "TCP probes: only up/down/up with a real listener (htcp); the counting logic is exercised through HTTP probes",
            "goroutine interleavings inside one wrapper are proved for ALL schedules on the small-step model WrapperConc "
            "(statement granularity: lock, phase write, hand-over to pw.handler, unlock); on the real code they are driven at the "
            "two points reachable without touching frp — a gate in the harness' MessageTransporter that holds the first "
            "NewProxy/CloseProxy of an operation just before it is on the wire while a second operation runs until it has "
            "finished or its goroutine is blocked (runtime.Stack), and pw.mu itself, held by the harness while Stop() and the "
            "woken worker queue up for it (op wake: the preemption point between the worker's wake-up / health load and its "
            "Lock()); other preemption points (between two statements inside a critical section that do not call the "
            "handler) are not driven, InWorkConn/GetStatus are not in the small-step model",
            "two KNOWN findings of the unchanged tree, both in client/visitor/visitor_manager.go, both reproduced by the vmgr "
            "engine as prop=FAILS and suppressed by their signatures in KNOWN_FINDINGS.json (C19-visitor-dup-name-restarts: "
            "UpdateAll stores the FIRST and compares with the LAST entry of a duplicated name, every later reload restarts the "
            "visitor; C19-visitor-started-after-close: a loop iteration that runs after Close() starts a visitor nobody closes). "
            "The model is faithful to the code as it is (switches VisitorMgr.activeUpdateAll / activeTryStart); the full statements "
            "are proved for the repaired functions (vm_reload_idempotent_fixed, vm_fixed_reload_keeps_all, vm_closed_quiet_fixed), "
            "for the code as it is vm_reload_idempotent (lists without duplicated names) and vm_closed_quiet_partial (no iteration "
            "after Close); proposed repairs hooks/C19-fix-visitor-dup-names.patch, hooks/C19-fix-visitor-pass-after-close.patch. "
            "A failure of another clause on a list with a duplicated name would be suppressed by the first signature as well",
            "ctlreg: the clause `server's table = reported status` (running => held; start error / check failed / new / not "
            "configured => not held) is proved, and evaluated per name, for schedules whose answers agree with the server's table "
            "whenever they meet a waiting wrapper (reg_inv_run); a delivery that does not - the answer to an earlier request "
            "contradicting the server's decision about the later one - takes the name out of this clause until its next "
            "CloseProxy (the divergence is real: KNOWN finding C19-stale-newproxyresp-applied-to-later-request, reproduced by op "
            "`witness stale` on every run and suppressed by its signature); the clause `status and wire in step` (the last message "
            "about a running / waiting proxy is NewProxy, about a withdrawn / removed one CloseProxy) is evaluated on every name "
            "after every op without exception. The scripted server processes the client's messages at once (a real server's "
            "processing delay is part of the answer's delay); work connections, heartbeats and visitors are not driven here",
            "the clause `unchanged entries keep their visitor object` is evaluated per name only where ALL entries of the name are "
            "the same, in the same order, in the old and the new list (which of several entries of a name is the configured one "
            "is not fixed by the property)",
            "vmgr: which of several waiting visitors gets an address that became free is Go's map order; the engine starts "
            "the ones the implementation reports first (the model refuses those that cannot start) and then completes the pass; "
            "a pass that runs after Close (stopCh and the ticker both ready) is followed by the model the same way and then "
            "judged by the clause `a closed manager holds no address` (finding C19-visitor-started-after-close, repaired by ea20320); the states between two "
            "passes of the loop are covered by the theorems (every tryStart / squat / free interleaving), the engine observes "
            "pass-stable states only; the keeper's period is 1.5 ms in the engine, so `nothing configured for at least one "
            "tick` is one op",
            "svc: visitors at service level are observed only through their bind ports, with distinct names and ports, and "
            "during an outage the generated reloads only remove visitors (a visitor the dead control starts during the outage "
            "holds its address until the swap, the new manager then waits for its next keep-alive pass, checkInterval = 10 s: "
            "convergence there is the vmgr engine's and the theorems' subject); proxies there are plain (no health check, no failing plugin), the "
            "server answers every NewProxy with success; the window between ctl.Run and svr.ctl = ctl is never scheduled "
            "(C14 reload_in_window_witness)",
        ],
    }

META = {
        "engine": "lean+harness(health,client,vmgr,svc,ctlreg)",
        "design_ref": "DESIGN.md §6 C19, §7 item 8",
        "technique": "Lean 4 models of health counting, wrapper phase machine (atomic and small-step with pw.mu; the worker's two "
                     "decisions regenerated from the source), reload diff, visitor "
                     "manager with its keep-alive loop, the keeper goroutine and its Once as state, and bind addresses, (C14's) service re-login, and the Control's reply handler with the "
                     "server's table and every reply schedule; "
                     "theorems by induction over all probe histories / event sequences / reloads / goroutine schedules / keep-alive "
                     "iterations / session histories; differential "
                     "correspondence with the real health.Monitor, proxy.Manager/Wrapper (overlapping operations with a "
                     "message held in the transporter; configurations as field vectors over every field), visitor.Manager with real "
                     "visitors and sockets, client.Service behind its admin API, and client.Control against a scripted server that queues, "
                     "reorders, duplicates and forges its answers; property predicates evaluated on the "
                     "implementation's answers",
        "text": "Proof (two findings, both repaired in /repo: 75a9f5a and eab68f8). Health: the pinned monitor never reset failedTimes, so "
                "withdrawal happened after maxFailed failures in total, not in a row (kernel-checked witness, reproduced on the real "
                "Monitor before the fix); the machine as it is now (HealthFixed) satisfies the full statement withdraw_iff_consecutive. Wrapper: for every event sequence the status "
                "moves only along legal edges, a stopped wrapper sends nothing and accepts nothing, work connections are handed "
                "over iff running, a start error is retried exactly after the back-off and is never absorbing, nothing is "
                "registered before the first successful probe, status and the server's view stay in step. Goroutines: every interleaving "
                "of the worker iteration (health load outside the lock, phase write and hand-over of the message inside), Stop, "
                "SetRunningStatus and the monitor callbacks is a sequential run of that machine in lock order (conc_refines), hence on "
                "the wire nothing but CloseProxy follows once Stop has written closed (conc_no_newProxy_after_stop) and the last message "
                "agrees with the status at every quiescent point (conc_sync); the variant that unlocks before handing NewProxy over "
                "violates both (earlyUnlock_witness); the condition under which an iteration registers is read from the source on "
                "every run - exactly new, check failed, wait start past its deadline, start error past its back-off, never closed "
                "(wantsStart_eq_source, source_register_phases) - and the schedule in which Stop overtakes a worker that has "
                "already left its select is driven on the real Wrapper (wake_stop_schedule_wire, conc_woken_worker_after_stop). Reload: running names = "
                "configured names, unchanged entries keep the same wrapper object with no message, removed/changed ones get exactly "
                "one CloseProxy, added ones exactly one NewProxy (none if health-gated), every running wrapper carries the configured "
                "(last) entry of its name, and reloading the loaded configuration is a no-op for EVERY configuration list "
                "(reload_idempotent); per running proxy: ANY differing field gives exactly one CloseProxy, a new wrapper object and one "
                "NewProxy carrying the new entry, NO difference gives no message and the same object (reload_changed_restarts, "
                "reload_unchanged_silent). Visitors: for every history of keep-alive iterations, Run failures and successes, "
                "addresses taken and released by other programs and Close after a reload, the stored names are the loaded names, every "
                "stored entry and every visitor's configuration is an entry of the loaded list (a removed visitor is never started "
                "again, a changed one runs the new entry), unchanged visitors are the same object, changed ones are closed, and a "
                "complete pass of the loop in any order leaves every entry running or unstartable (vm_history_configured, "
                "vm_history_running, vm_pass_complete); the keeper goroutine is alive in every reachable state of a manager that "
                "has loaded a visitor and is not closed - its loop has no exit but the stop channel (keeper_source_shape, read from "
                "the source) - so after ANY history, including reloads to zero visitors and back, the next tick leaves every "
                "configured entry running or unstartable (keeper_alive, keeper_tick_settles; a loop that ends when nothing is "
                "configured breaks it: keeper_exit_on_empty_witness). Stored configuration: no event of a wrapper's life other than a reload "
                "changes the configuration object the next reload is compared with, hence the loaded list loaded again is silent "
                "after ANY history, not only right after the load (stored_immutable, reload_silent_after_history; on the real code "
                "every reload comes from text through the real loader, with defaulted members left out). Two findings in "
                "visitor_manager.go of the pinned tree (repaired by 825e588 and ea20320; KNOWN_FINDINGS `fixed`): a visitor name configured twice with different "
                "contents was restarted by every later reload (vm_dup_restart_witness; repaired reload: vm_reload_idempotent_fixed for "
                "every list), and an iteration of the keep-alive loop that ran after Close() started a visitor nobody closed "
                "(vm_close_pass_witness; repaired iteration: vm_closed_quiet_fixed). Re-login: after any history of reloads (connected, during an outage, between "
                "attempts), session losses and logins a live control runs exactly the LAST loaded configuration and the new session "
                "receives one NewProxy per configured name (reconnect_runs_last_loaded, relogin_registers_last_loaded; tied to where "
                "loginFunc reads the configuration by reconnect_code). Before fix eab68f8 a name configured twice with different contents was stopped and "
                "re-registered on every identical reload (witness reload_dup_witness about updateAllOld, reproduced on the real "
                "Manager before the fix). Control and server (Part C): a NewProxyResp reaches the wrapper through the dispatcher's handler, "
                "which sends nothing whatever StartProxy returns; for EVERY schedule of worker iterations, health changes, reloads "
                "and answers - late, duplicated, reordered, for names that are gone, success after error - an answer that meets a "
                "wrapper that is not waiting changes and sends nothing (reply_outside_wait_silent), status and wire stay in step and "
                "the last message about a proxy reported running is NewProxy: the client never closes a proxy it reports running "
                "(ctl_sync_run, running_never_closed); for every schedule whose answers agree with the server's table when they "
                "meet a waiting wrapper the table is the status - running => held, start error / check failed / not configured => "
                "not held - and at quiescence held <=> running (reg_inv_run, quiescent_held_iff_running; the two-requests-"
                "outstanding schedules flap_unanswered_converges, resend_converges). One open finding: the answer carries only "
                "the name, so the answer to an earlier request is applied to a later one; if the server decided differently the "
                "client reports running for a proxy the server does not hold, for good (stale_reply_witness, reproduced on the "
                "real Control; KNOWN_FINDINGS). A handler that closes the proxy on every start error breaks both clauses on a "
                "duplicated answer (closing_glue_witness).",
        "note": "Trusted: Lean kernel; the hand-written models and the correspondence harness. Not covered: real-time behaviour beyond "
                "two scenarios, TCP probe timeouts, preemption points of the wrapper other than the "
                "hand-over of a message to the transporter and the worker's Lock(), visitors added or changed during an outage at service level, wall-clock period of the "
                "visitor keep-alive loop (10 s in production, 1.5 ms in the engine).",
    }
