from props import COMMON_TRUST


def wire_nontrivial(tok, res):
    # a case is non-trivial when the real code took a security-relevant branch
    if not tok:
        return False
    if tok[0] == "sniff":
        return not res.startswith("plain")          # TLS / custom TLS / refused
    if tok[0] == "raw":
        return True                                  # a real TCP peer against a real frps
    if tok[0] == "cert":
        return "tls=1" in tok                        # a real TLS handshake was attempted
    if tok[0] == "wire":
        return res.startswith("up=1;fb=")            # a full frps+frpc pair carried traffic through the relay
    if tok[0] == "auth":
        return "digest" in res
    if tok[0] in ("srvcfg", "clicfg"):
        return "ca=1" in tok
    if tok[0] == "ident":
        return "ca=0" not in tok                     # a verifying config in a real handshake
    if tok[0] in ("rstart", "rload", "rconn"):
        return res.startswith("up=1")                # a real frpc carried fresh markers after the step
    if tok[0] == "cfgload":
        return "enc=1" in tok                        # the operator wrote useEncryption: the real loader must keep it
    if tok[0] == "wstart":
        return res == "up=1"                         # a real frpc runs the loaded configuration
    if tok[0] == "wobs":
        return res.startswith("a1")                  # a conversation went through the proxy
    if tok[0] == "hprobe":
        return True                                  # a real connector against a frps whose files have a history
    if tok[0] == "ltry":
        return "tls=" not in res                     # a login attempt observed by the relay
    if tok[0] == "lsvc":
        return res.startswith("up=1")                # a real client.Service came up through its own retry loop
    if tok[0] == "wsraw":
        return True                                  # a websocket peer against a real frps
    return False


def wire_class(r):
    if r.startswith("plain:echo="):
        return "plain"
    if r.startswith("L="):
        return r.replace(":0", "")
    if r.startswith("up=1;fb="):
        f = dict(x.split("=") for x in r.split(";"))
        return "up fb=%s user=%s pay=%s vpay=%s upay=%s dec=%s" % (f["fb"], f["user"], f["pay"], f["vpay"], f["upay"], f["dec"])
    if r.startswith("up=1;a="):
        f = dict(x.split("=") for x in r.split(";"))
        return "rig a=%s b=%s" % (f["a"], f["b"])
    if r.startswith("l="):
        f = dict(x.split("=") for x in r.split(";"))
        return "loaded l=%s m=%s s=%s h2=%s" % (f["l"], f["m"], f["s"], f["h2"])
    if r.startswith("conn="):
        return r
    if r.startswith("en="):
        f = dict(x.split("=") for x in r.split(";"))
        return "en=%s dis=%s skip=%s roots=%s" % (f["en"], f["dis"], f["skip"], f["roots"])
    return r[:40]


_T = ["sniff_custom_iff", "sniff_tls_iff", "sniff_plain_iff", "sniff_refuse_iff", "sniff_force_never_plain",
      "sniff_noforce_never_refuse", "firstByte_consumed_iff", "serverForce_iff", "forced_plain_peer_uninterpreted",
      "serverTls_clientAuth_iff", "ca_forces_and_requires", "ca_peer_without_acceptable_cert_uninterpreted",
      "clientTlsOf_fields", "client_ca_verifies", "client_no_ca_skips_verification", "quic_tls_disabled_ignores_ca",
      "clientDial_tls_iff", "clientDial_customByte_iff", "default_client_dials_tls", "hooks_order",
      "client_first_byte_class", "client_refuses_other_identity", "plain_client_session_iff",
      "tls_client_session_iff", "msgKinds_complete", "msgKinds_count", "token_never_clear", "token_only_digest",
      "secrets_never_clear_on_path", "sk_pwd_clear_in_channel_iff", "newProxy_only_clear_carrier",
      "tls_covers_everything", "clear_kinds_without_tls", "ctlCipher_iff", "payloadClear_iff",
      "useEncryption_covers_payload", "enc_layer_both_sides", "secretlyProtected_iff", "emptyToken_witness",
      "authKey_never_clear", "holdsOn_sound", "model_holdsOn", "holdsOn_tls",
      "gen_setters_only_digest", "gen_setters_match_model", "gen_control_wrap", "gen_listeners", "gen_sniff",
      "gen_secretFields_match_carries", "gen_visitors",
      # every listener / every control transport (tcp, tls-muxed, kcp, websocket, quic; wss)
      "listeners_complete", "public_listener_gate", "quic_tls_inherits_identity", "listenerTls_clientAuth_iff",
      "handshakeOkOn_sniff", "quic_never_plain", "forced_plain_peer_uninterpreted_every_listener",
      "handshakeOkOn_requires_cert", "ca_peer_without_acceptable_cert_uninterpreted_every_listener",
      "ca_reaches_iff_handshake", "sessionUpOn_sniffed", "wss_no_session", "quic_client_session_iff",
      "ca_session_requires_cert_every_protocol", "client_refuses_other_identity_every_protocol",
      "force_session_requires_tls_every_protocol", "interpretedOk_sound",
      "gen_listener_handlers", "gen_quic_tls", "gen_server_tls_config", "gen_client_quic_tls",
      # which identity a verifying client insists on: DNS names / IP literals, given or defaulted from serverAddr
      "effServerName_default", "client_verified_name", "certMatchesName_ip", "certMatchesName_dns",
      "ip_name_needs_ip_san", "dns_name_needs_dns_san", "session_requires_matching_identity",
      "session_ip_name_requires_ip_san", "session_dns_name_requires_dns_san",
      "defaulted_ip_name_refuses_dns_only_cert", "interpretedOk_identity", "identOk_sound",
      "gen_client_tls_config", "gen_connector_server_name",
      # reload histories (start, reloads, reconnects): the running proxy is built from the configuration in force
      "sel_spec", "updateAll_inv", "start_inv", "step_inv", "run_inv", "running_built_from_current",
      "every_configured_proxy_runs", "enc_in_force_is_configured", "reload_enc_payload_never_clear",
      "reloadObsOk_model", "gen_reload_compare", "gen_enc_wrap_conditions",
      # wss: TLS whatever tls.enable says; the identity rule against the endpoint that terminates it
      "clientTls_isSome_iff", "wss_tls_config_ignores_enable", "wss_ca_always_verifies", "behindTerminator_session_iff",
      "wssSessionVia_eq", "wss_tls_enable_irrelevant", "wss_client_refuses_other_identity",
      "wss_session_requires_matching_identity", "interpretedOkWss_identity", "gen_connector_tls_required",
      # the configuration as written by the operator: Complete / NewProxy message / frps's configurer keep the flags
      "pxTypes_complete", "plugins_complete", "completePlugin_only_http2", "complete_keeps_flags", "complete_writes_only",
      "marshal_unmarshal_flags", "written_enc_both_ends", "written_payload_clear_iff",
      "written_enc_payload_never_clear", "written_reload_enc_payload_never_clear", "writtenKeptOk_model",
      "writtenObsOk_model", "gen_proxy_complete", "gen_visitor_complete",
      # histories of the TLS files on disk: frps while its certificate / CA files are replaced, frpc's login attempts
      # while its files come and go; websocket peers whatever their upgrade request says
      "hist_run_keeps_running", "hist_effective_tls_const", "hist_every_handshake_requires_cert",
      "hist_ca_peer_without_acceptable_cert_uninterpreted", "hist_force_peer_without_tls_uninterpreted",
      "histObsOk_sound", "start_loads_disk", "site_sound_iff", "attempt_never_plain", "attempts_never_plain",
      "attempt_memoryless", "attempt_noConn_iff", "attempt_empty_ca_refuses", "loginObsOk_model",
      "wsPeerReply_eq_rawReply", "ws_headers_irrelevant", "ws_forced_peer_uninterpreted", "gen_tls_census"]

PROP = {
        "level": "other",
        "gens": ["AuthFacts"],
        "theorems": ["Frp.C05." + t for t in _T],
        "engines": [
            {"name": "wire", "quick_n": 3000, "thorough_n": 20000, "thorough_seeds": 2,
             "search_seeds": 1, "search_n": 400,
             "nontrivial": wire_nontrivial, "result_class": wire_class},
        ],
        "rule": "wire engine: (a) real CheckAndEnableTLSServerConnWithTimeout over net.Pipe for all 256 first bytes x force, "
                "with a real TLS handshake behind 0x16/0x17 (shows the byte is replayed / swallowed); (b) real "
                "ServerConfig.Complete + NewServerTLSConfig (8 combinations), ClientCommonConfig.Complete + NewClientTLSConfig "
                "(generated; server names as a class: none, host names, IPv4 literals, near misses of literals); (b2) op ident: "
                "the tls.Config returned by the real NewClientTLSConfig(cert, key, ca, name) in a real handshake (loopback TCP) "
                "with a TLS server presenting a run-time certificate of issuer CA1 / CA2 x DNS SAN kind (none, frps.test, "
                "other.test, localhost) x IP SAN kind (none, 127.0.0.1, 127.0.0.9); the Lean predicate identOk (with a CA: "
                "accepted only if issued by that CA and valid for the name under Go's x509 rule — IP literals match IP SANs "
                "only) is evaluated on every outcome; (c) real TokenAuthSetterVerifier.SetLogin/SetPing/SetNewWorkConn on generated tokens / time "
                "stamps / scopes, frames built by msg.WriteMsg and searched for the token, key compared with the harness's "
                "own md5; (d) a raw TCP peer against a real frps (tcpMux off): every first byte x force followed by the rest "
                "of a valid Login frame; (e) certificate lattice (8 server configurations x 108 client configurations, "
                "certificates made at run time with crypto/x509: CA1, CA2, server cert with SANs frps.test+127.0.0.1, client "
                "certs from CA1 / CA2) through the real client.NewConnector against a real frps that listens on tcp (muxed "
                "plain / tls / websocket), kcp and quic: the complete lattice over tcp, websocket and quic with the right key "
                "and a generated third of it with a wrong key, generated samples over kcp (6) and over wss straight to frps (48: frps does "
                "not terminate wss, never a session); wss the way it is deployed — through a TLS terminator of the harness in front "
                "of the real frps that presents a run-time certificate (issuer CA1 / CA2 x 12 SAN kinds) and hands the decrypted "
                "websocket stream to frps: the identity sub-lattice of a client with a trusted CA (6 name kinds x 12 SAN kinds) with "
                "transport.tls.enable true AND false (144 cases, terminator issuer / server certificate / client certificate / key "
                "generated) plus 80 generated cases (no CA, another CA, forcing frps, frps with a CA), predicate interpretedOkWss; the identity "
                "sub-lattice: a verifying client (TLS on, CA1 trusted) with every kind of server name — none with serverAddr "
                "127.0.0.1, none with serverAddr localhost, frps.test, other.test, 127.0.0.1, 127.0.0.9 — against a frps whose "
                "CA1 certificate has every DNS SAN kind x IP SAN kind (12), over tcp, websocket and quic (216 cases, force / "
                "server CA / client certificate / custom byte generated), plus 90 generated cases of the same lattice for clients "
                "that do not verify; the Lean "
                "predicate interpretedOk (a reply frame of any kind only for a peer the force / identity rules admit on that "
                "transport) is evaluated on every answer; (f) a real frps + real frpc "
                "(tcp proxy, stcp proxy + stcp visitor, http proxy with user/password) through a recording TCP relay (protocol "
                "quic: a recording UDP relay in front of the quic port), "
                "crypto/rand markers as token, secret key, http password, http user, login user, payloads; with TLS and "
                "tcpMux off the captured control stream is additionally decrypted with the token to show the secrets are "
                "there under the cipher; (g) reload histories: ONE real frpc (client.Service, reloaded with "
                "Service.UpdateAllConfigurer and freshly built configurers) + a real frps through the recording relay, two "
                "proxies (tcp; tcp or udp): a generated start configuration (mostly without useEncryption), then 3-5 generated "
                "steps — useEncryption switched alone, together with a bandwidth limit change that keeps / changes the presence "
                "of a limit, together with another field; only the limit / compression / limit mode / another field changed; "
                "a proxy removed / added back; the same configuration again; the session cut at the relay (reconnect) — and "
                "after EVERY step a fresh crypto/rand marker is echoed through each proxy and searched in the capture; the "
                "Lean predicate reloadObsOk (TLS on, or useEncryption in the configuration in force => marker absent) is "
                "evaluated on every step, the model state (WireReload.step) is carried along the ops; every configuration of a rig (start "
                "and each reload) is WRITTEN as a frpc configuration file (toml / yaml / json per rig) and read by the real "
                "config.LoadClientConfig; (h) the configuration as written by the operator: op cfgload — a frpc file with one proxy, "
                "every proxy type (8) x every client plugin (none + 10) x useEncryption written true / false / not at all (compression, "
                "bandwidthLimitMode, localIP, user prefix generated; toml / yaml / json / legacy ini) through the real loader "
                "(parser, legacy conversion, Complete), the real MarshalToMsg and the real config.NewProxyConfigurerFromMsg "
                "(264 exhaustive + n/10 generated cases), predicate writtenKeptOk (written useEncryption => the loaded configurer, "
                "the NewProxy message and frps's configurer say useEncryption); ops wstart / wobs — 9 rigs of 10 proxies: one frpc "
                "file per rig loaded by the real loader, validated, run as a real frpc against a real frps (vhost HTTP / HTTPS and "
                "tcpmux ports) through the recording relay, covering every (type, plugin) pair that has a conversation — tcp / tcpmux / "
                "stcp+visitor x every plugin but virtual_net, http x the HTTP-speaking plugins, https x the TLS-speaking ones, udp, "
                "sudp+visitor (41 pairs) — with useEncryption written on and off (compression generated); per proxy a conversation "
                "with a fresh crypto/rand marker the way a user reaches that type (remote port, CONNECT, visitor, vhost by Host / "
                "SNI, datagram) speaking what the plugin expects (raw echo, HTTP, HTTP via proxy, SOCKS5, TLS+raw, TLS+HTTP — in the TLS conversations the marker also travels in the ClientHello as an ALPN protocol "
                "name, so every conversation has payload bytes that are readable unless a layer of frp covers them) against "
                "local echo / HTTP / HTTPS / unix-socket / static-file services; reloadObsOk (TLS on, or useEncryption in the WRITTEN "
                "configuration => marker absent) on every observation; (i) HISTORIES of the TLS files on disk — ops hstart / hrepl / "
                "hwait / hprobe: real frps rigs (each with a directory of its own; trustedCaFile of CA1 / CA2 / none, a certificate "
                "issued at run time by CA1 / CA2 / none, force generated) whose certFile+keyFile and / or trustedCaFile are REPLACED "
                "while frps runs (renewal by the same CA, a certificate of the other CA, the other CA's file, content without a PEM "
                "block, files removed, only one file of the pair), with generated waits (1-300 ms; one rig per sequence is probed "
                "again more than 5 s after its renewal, the time passing while the other rigs run) and after every round probes of "
                "the real client.NewConnector over tcp / websocket / quic — with the certificate of CA1, of CA2, without "
                "certificate, without TLS, right and wrong key; predicate histObsOk (an answer only for a peer the force / trusted-CA "
                "rules admit at that point of the history); ops lstart / lfile / ltry: frpc's login ATTEMPTS (a fresh "
                "client.NewConnector + Open + Connect + Login per attempt, as client.Service does) through the recording relay "
                "against a real frps while the client's trustedCaFile / certFile+keyFile are missing, unparsable or present and "
                "CHANGE between attempts (the first attempt often meets a missing file); the relay's own observation of each "
                "attempt — connections accepted, client bytes that are not a TLS record stream, the Login's crypto/rand marker "
                "readable — under predicate loginObsOk (TLS switched on => no clear bytes, marker absent); op lsvc: a real "
                "client.Service (loginFailExit=false) started while the file is missing, the file appears, its own retry loop "
                "logs in, same predicate; (j) op wsraw: a peer without TLS upgrades GET /~!frp with extra request headers — every "
                "scheme header x scheme value, every TLS-flag header x value, Forwarded (exhaustive, 100 cases against a forcing "
                "frps) plus generated mixes of 1-3 headers (forwarding, client-certificate, other; names in any case), other first "
                "bytes — and sends a valid Login; a forcing frps must answer with no frame. non-trivial = TLS/refuse sniff, raw peer, TLS handshake attempt, relay run, digest "
                "produced, CA configured, verifying ident handshake, reload step with traffic, loaded file with useEncryption written, "
                "rig up, conversation carried; distinct = distinct (op line, result) pairs",
        "trusted": COMMON_TRUST + [
            "model Frp/Model/Wire.lean written by hand (sniff, Complete, tls.Config records, dial hooks, message channel "
            "table, wrapper stacks); tied by the wire engine and by the regenerated facts Frp/Gen/AuthFacts.lean "
            "(translate/gen_authfacts.go: token setters, NewControl cipher wrap on both ends, `!internal`, listener "
            "internal flags, sniff switch, secret-named fields of all 18 message structs, visitor SignKey expressions, "
            "every Handle*Listener call and handleConnection caller, the sniff call's arguments, the provenance of "
            "svr.tlsConfig and of the tls.Config handed to quic.ListenAddr / quic.DialAddr (initialiser + every field "
            "write), the guarded field writes of NewServerTLSConfig); the provenance reading sees assignments in the "
            "function body only, not mutation through aliases or callees",
            "crypto/tls + crypto/x509 verification (chain to RootCAs/ClientCAs; VerifyHostname: a name that parses as an IP "
            "address is matched against the IP SANs only, any other name against the DNS SANs only) is ASSUMED as "
            "`serverCertAccepted` / `certMatchesName` / `clientCertAccepted`; sampled by the certificate lattice (864 cases x "
            "tcp / websocket / quic), the identity sub-lattice (12 SAN kinds x 6 name kinds x 3 transports) and the ident "
            "handshakes; ALPN agreement in QUIC mode is ASSUMED as `alpnOk`",
            "model Frp/Model/WireReload.lean written by hand (Manager.UpdateAll's two loops, NewWrapper, a new session after "
            "a reconnect); tied by the regenerated facts gen_reload_compare (the delete condition of UpdateAll, the calls made "
            "on wrappers, no later write to Wrapper.Cfg / BaseProxy.baseCfg, NewProxy built from pw.Cfg), "
            "gen_enc_wrap_conditions (the condition of all six libio.WithEncryption wraps), gen_client_tls_config and "
            "gen_connector_server_name (every field NewClientTLSConfig writes with its guard; where the server name comes "
            "from), and by the rstart / rload / rconn ops",
            "model Frp/Model/WireConfig.lean written by hand (ProxyBaseConfig.Complete, the plugin options' Complete, "
            "MarshalToMsg / UnmarshalFromMsg, NewProxyConfigurerFromMsg); tied by the regenerated facts gen_proxy_complete (the "
            "ONE Complete(string) method of pkg/config/v1, every receiver-rooted assignment / call statement / address-of in it, "
            "every statement of the plugin options' Complete methods, the flag statements of Marshal / Unmarshal, the Complete "
            "calls of the loader and of NewProxyConfigurerFromMsg, the type and plugin name lists), gen_visitor_complete, and by "
            "the cfgload / wstart / wobs ops; the file parsers and the legacy ini conversion are not modelled (driven); code "
            "between the loader and NewWrapper that could rewrite a configurer (validation, client.Service) is covered by the "
            "rigs only",
            "model Frp/Model/WireHist.lean written by hand (frps: NewService builds the tls.Config once, no callback — "
            "`effectiveTls` ignores disk and clock; frpc: one attempt = NewClientTLSConfig on the files as they are then, "
            "error => no dial, config => TLS dial options; websocket: the upgrade request is no input of the gate); tied by "
            "the regenerated fact gen_tls_census (every function of pkg/transport, pkg/util/net, server/**, client/** with a "
            "tls.Config literal or a write to ClientAuth / ClientCAs / RootCAs / InsecureSkipVerify / a crypto/tls callback: "
            "exactly NewServerTLSConfig and NewClientTLSConfig, ClientCAs never without RequireAndVerifyClientCert, no "
            "callback; every use of the server's config identifiers inside NewService; no package-level variable in "
            "pkg/transport) and by the hstart / hrepl / hwait / hprobe, lstart / lfile / ltry / lsvc, wsraw ops; a config "
            "smuggled in through an alias outside those directories is seen by the rigs only",
            "wss: `Wire.wssSessionVia` (the connector's tls.Config against a TLS terminator, then a plain websocket client at "
            "frps) written by hand; tied by gen_connector_tls_required (the provenance of realConnect's `tlsEnable`, every TLS / "
            "hook dial option with its switch case) and by the cert ops with `term=`; the terminator is the harness's "
            "(crypto/tls server + byte relay), it asks for no client certificate",
        ],
        "assumptions": [
            "PARTIAL / level other: that TLS and AES-CFB output does not reveal its plaintext is cryptography and is not "
            "stated; the theorems say which layers every message kind and the payload pass (for every configuration), the "
            "engine observes marker absence on a real wire for 28 configurations (tcp, websocket, quic), after every step of 15 reload "
            "histories and for 82 proxies (every type x plugin pair with a conversation) of 9 rigs loaded from written files",
            "the message-to-channel table (`channel`) is hand-read from every msg.WriteMsg / dispatcher Send site; only "
            "NewControl's cipher wrap and the secret-named fields are regenerated by the translator",
            "driven transports: recording relay (marker absence): tcp with and without tcpMux, websocket, quic (recording "
            "UDP relay in front of the quic port); session / identity rules: tcp, websocket, quic (complete certificate "
            "lattice), wss through a TLS terminator (identity sub-lattice x tls.enable), kcp (samples); no recording relay in front of the kcp port; OIDC bearer tokens (Login.PrivilegeKey holds the token "
            "itself under auth.method=oidc) and NewProxy.GroupKey are outside the property's wording and not modelled",
            "server-name domain of the model: IPv4 literals in dotted-decimal form and host names compared exactly (lower case); "
            "IPv6 / bracketed literals, upper case, trailing dots and wildcard SANs are generated but skipped by the driver "
            "(counted as skipped)",
            "reload histories are driven for the proxy manager (tcp and udp proxies, TLS off and on, tcpMux on and off); the "
            "visitor manager's reload (same two loops) is covered by the model only, the other proxy types and the client plugins "
            "by the written-configuration rigs (start only, no reload); xtcp (peer-to-peer, not on the frpc<->frps path) and "
            "the virtual_net plugin (needs a TUN device) are loaded (cfgload) but carry no traffic here; with "
            "compression and no cipher on a clear transport whether a marker survives the compressor is taken from the "
            "observation",
            "observation recorded as theorem secretlyProtected_iff / emptyToken_witness: both AES-CFB layers are keyed "
            "by pbkdf2(token, constant salt); with an empty token and TLS off the cipher key is public",
        ],
    }

META = {
        "engine": "lean+translator(AuthFacts)+harness(wire)",
        "design_ref": "DESIGN.md §6 C05",
        "technique": "Lean 4 decision theorems over the full configuration space (first-byte partition for all bytes, forced "
                     "TLS, tls.Config identity settings incl. the x509 name rule for host names / IP literals, layer table for "
                     "all 18 message kinds x every path configuration), an invariant over all reload / reconnect histories of "
                     "the client proxy manager, the path from the written proxy configuration (Complete, NewProxy message, frps's "
                     "configurer) to the cipher layer for every proxy type x client plugin, wss against a TLS terminator, "
                     "histories of the TLS files on disk on both sides (frps: the config of every handshake after any sequence of "
                     "file replacements and waits; frpc: every login attempt of a retry history), websocket upgrade requests, "
                     "facts regenerated from the Go source, and an observed wire (recording relay between real frpc and frps, "
                     "exhaustive sniff, raw-peer and certificate lattices, reload histories with fresh markers after every step, "
                     "configuration files through the real loader into real frpc rigs with every client plugin)",
        "text": "Partial (cryptographic secrecy is not expressible). Proved for the model, kernel-checked: a forcing server "
                "(force, or a trusted CA) never treats any first byte as plaintext and a peer that does not complete an "
                "acceptable TLS handshake never reaches message decoding — on every public listener (tcp, tls-muxed, kcp, "
                "websocket, and quic, whose tls.Config is a clone of the server's with only ALPN changed) and, at session "
                "level, for every control transport (tcp, kcp, websocket, wss, quic); a trusted CA implies RequireAndVerifyClientCert; a "
                "client with a CA verifies chain and server name and gets no session with another identity — for host names and "
                "IP literals (Go's rule: an IP literal matches IP SANs only), given or defaulted from serverAddr, on every "
                "control transport: a session implies a certificate of the trusted CA whose SANs of the name's own kind contain "
                "the name; a wss client builds the full configured tls.Config whatever transport.tls.enable says and gets a session "
                "through a TLS terminator only if the terminator's certificate is of the trusted CA and valid for the name; "
                "ProxyBaseConfig.Complete (the only Complete of the proxy configurers), the NewProxy message and frps's configurer "
                "keep useEncryption / useCompression as written for every proxy type x client plugin x name prefix, so both ends "
                "wrap exactly when the operator wrote useEncryption; in every history of an frpc (any start configuration, any sequence of reloads and reconnects) the "
                "configuration a running proxy was built from — the one its work connections are wrapped by and the one frps "
                "was told — is the entry of the configuration in force, so a proxy whose current configuration says "
                "useEncryption has the cipher layer; the token "
                "travels only as digest in every message kind; NewProxy (the only carrier of secret key / HTTP password in "
                "clear form) always passes the token-keyed control cipher on public listeners; with TLS every message kind "
                "and the payload are under TLS; without TLS exactly Login, LoginResp, NewWorkConn, StartWorkConn, NatHoleSid, "
                "NewVisitorConn(Resp) (and unencrypted payload) are readable; useEncryption puts the cipher layer on both "
                "ends in the same order; for every history of replacements of frps's certificate / key / CA files and every "
                "waiting time, every handshake on every public listener runs with the config built at start (trusted CA => "
                "RequireAndVerifyClientCert: a peer without a certificate of the loaded CA, or without TLS under force, gets no "
                "session on any control transport); with TLS switched on no login attempt of any retry history of frpc, "
                "whatever state its CA / certificate files are in at each attempt, is a plain connection (an unloadable file "
                "means no connection); the reply to a websocket peer without TLS does not depend on its upgrade request. "
                "Observed on the real code on every run: about 12 frps rigs whose TLS files are replaced while they run (about 140 "
                "probes of the real connector over tcp / websocket / quic, one rig probed again more than 5 s after a renewal), 20 "
                "login-attempt histories of the real connector through the recording relay with files coming and going (about 120 "
                "attempts) plus a real client.Service retrying until its file appears, about 180 websocket peers with forged "
                "forwarding / TLS / client-certificate request headers, 512 sniff cases, 512 raw-peer cases, about 3800 "
                "certificate cases over tcp / websocket / quic / wss / kcp (incl. the identity sub-lattice over 12 SAN kinds; 224 wss cases "
                "through a TLS terminator), about 560 configuration files through the real loader, 9 rigs / 82 proxies with every "
                "client plugin carrying fresh markers, 500 "
                "handshakes of NewClientTLSConfig's config against certificates of every SAN kind, 28 recorded frpc<->frps sessions "
                "(tcp, websocket, quic) with random markers, 15 reload histories of a real frpc (about 75 steps, each with fresh markers), "
                "3000 token-setter cases.",
        "note": "Trusted: Lean kernel; hand-written models Frp/Model/Wire.lean, WireReload.lean, WireConfig.lean, WireHist.lean; translator gen_authfacts.go; harness (incl. its TLS terminator for wss). Assumed: "
                "crypto/tls, crypto/x509, golib crypto. Not covered: marker observation on the kcp UDP path, OIDC bearer token in "
                "Login, group keys, xtcp peer-to-peer traffic (not on the frpc<->frps path), traffic through the virtual_net plugin.",
    }
