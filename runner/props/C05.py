from props import COMMON_TRUST


def wire_nontrivial(tok, res):
    # a case is non-trivial when the real code took a security-relevant branch
    if tok[0] == "sniff":
        return not res.startswith("plain")          # TLS / custom TLS / refused
    if tok[0] == "raw":
        return True                                  # a real TCP peer against a real frps
    if tok[0] == "cert":
        return "tls=1" in tok                        # a real TLS handshake was attempted
    if tok[0] == "wire":
        return res.startswith("up=1;fb=")            # a full frps+frpc pair carried traffic through the relay
    if tok[0] == "auth":
        return "digest" in res
    if tok[0] in ("srvcfg", "clicfg"):
        return "ca=1" in tok
    return False


def wire_class(r):
    if r.startswith("plain:echo="):
        return "plain"
    if r.startswith("L="):
        return r.replace(":0", "")
    if r.startswith("up=1;fb="):
        f = dict(x.split("=") for x in r.split(";"))
        return "up fb=%s user=%s pay=%s vpay=%s upay=%s dec=%s" % (f["fb"], f["user"], f["pay"], f["vpay"], f["upay"], f["dec"])
    if r.startswith("en="):
        f = dict(x.split("=") for x in r.split(";"))
        return "en=%s dis=%s skip=%s roots=%s" % (f["en"], f["dis"], f["skip"], f["roots"])
    return r[:40]


_T = ["sniff_custom_iff", "sniff_tls_iff", "sniff_plain_iff", "sniff_refuse_iff", "sniff_force_never_plain",
      "sniff_noforce_never_refuse", "firstByte_consumed_iff", "serverForce_iff", "forced_plain_peer_uninterpreted",
      "serverTls_clientAuth_iff", "ca_forces_and_requires", "ca_peer_without_acceptable_cert_uninterpreted",
      "clientTlsOf_fields", "client_ca_verifies", "client_no_ca_skips_verification", "quic_tls_disabled_ignores_ca",
      "clientDial_tls_iff", "clientDial_customByte_iff", "default_client_dials_tls", "hooks_order",
      "client_first_byte_class", "client_refuses_other_identity", "plain_client_session_iff",
      "tls_client_session_iff", "msgKinds_complete", "msgKinds_count", "token_never_clear", "token_only_digest",
      "secrets_never_clear_on_path", "sk_pwd_clear_in_channel_iff", "newProxy_only_clear_carrier",
      "tls_covers_everything", "clear_kinds_without_tls", "ctlCipher_iff", "payloadClear_iff",
      "useEncryption_covers_payload", "enc_layer_both_sides", "secretlyProtected_iff", "emptyToken_witness",
      "authKey_never_clear", "holdsOn_sound", "model_holdsOn", "holdsOn_tls",
      "gen_setters_only_digest", "gen_setters_match_model", "gen_control_wrap", "gen_listeners", "gen_sniff",
      "gen_secretFields_match_carries", "gen_visitors",
      # every listener / every control transport (tcp, tls-muxed, kcp, websocket, quic; wss)
      "listeners_complete", "public_listener_gate", "quic_tls_inherits_identity", "listenerTls_clientAuth_iff",
      "handshakeOkOn_sniff", "quic_never_plain", "forced_plain_peer_uninterpreted_every_listener",
      "handshakeOkOn_requires_cert", "ca_peer_without_acceptable_cert_uninterpreted_every_listener",
      "ca_reaches_iff_handshake", "sessionUpOn_sniffed", "wss_no_session", "quic_client_session_iff",
      "ca_session_requires_cert_every_protocol", "client_refuses_other_identity_every_protocol",
      "force_session_requires_tls_every_protocol", "interpretedOk_sound",
      "gen_listener_handlers", "gen_quic_tls", "gen_server_tls_config", "gen_client_quic_tls"]

PROP = {
        "level": "other",
        "gens": ["AuthFacts"],
        "theorems": ["Frp.C05." + t for t in _T],
        "engines": [
            {"name": "wire", "quick_n": 3000, "thorough_n": 20000, "thorough_seeds": 2,
             "search_seeds": 1, "search_n": 400,
             "nontrivial": wire_nontrivial, "result_class": wire_class},
        ],
        "rule": "wire engine: (a) real CheckAndEnableTLSServerConnWithTimeout over net.Pipe for all 256 first bytes x force, "
                "with a real TLS handshake behind 0x16/0x17 (shows the byte is replayed / swallowed); (b) real "
                "ServerConfig.Complete + NewServerTLSConfig (8 combinations), ClientCommonConfig.Complete + NewClientTLSConfig "
                "(generated); (c) real TokenAuthSetterVerifier.SetLogin/SetPing/SetNewWorkConn on generated tokens / time "
                "stamps / scopes, frames built by msg.WriteMsg and searched for the token, key compared with the harness's "
                "own md5; (d) a raw TCP peer against a real frps (tcpMux off): every first byte x force followed by the rest "
                "of a valid Login frame; (e) certificate lattice (8 server configurations x 108 client configurations, "
                "certificates made at run time with crypto/x509: CA1, CA2, server cert with SANs frps.test+127.0.0.1, client "
                "certs from CA1 / CA2) through the real client.NewConnector against a real frps that listens on tcp (muxed "
                "plain / tls / websocket), kcp and quic: the complete lattice over tcp, websocket and quic with the right key "
                "and a generated third of it with a wrong key, generated samples over wss (48) and kcp (6); the Lean "
                "predicate interpretedOk (a reply frame of any kind only for a peer the force / identity rules admit on that "
                "transport) is evaluated on every answer; (f) a real frps + real frpc "
                "(tcp proxy, stcp proxy + stcp visitor, http proxy with user/password) through a recording TCP relay (protocol "
                "quic: a recording UDP relay in front of the quic port), "
                "crypto/rand markers as token, secret key, http password, http user, login user, payloads; with TLS and "
                "tcpMux off the captured control stream is additionally decrypted with the token to show the secrets are "
                "there under the cipher. non-trivial = TLS/refuse sniff, raw peer, TLS handshake attempt, relay run, digest "
                "produced, CA configured; distinct = distinct (op line, result) pairs",
        "trusted": COMMON_TRUST + [
            "model Frp/Model/Wire.lean written by hand (sniff, Complete, tls.Config records, dial hooks, message channel "
            "table, wrapper stacks); tied by the wire engine and by the regenerated facts Frp/Gen/AuthFacts.lean "
            "(translate/gen_authfacts.go: token setters, NewControl cipher wrap on both ends, `!internal`, listener "
            "internal flags, sniff switch, secret-named fields of all 18 message structs, visitor SignKey expressions, "
            "every Handle*Listener call and handleConnection caller, the sniff call's arguments, the provenance of "
            "svr.tlsConfig and of the tls.Config handed to quic.ListenAddr / quic.DialAddr (initialiser + every field "
            "write), the guarded field writes of NewServerTLSConfig); the provenance reading sees assignments in the "
            "function body only, not mutation through aliases or callees",
            "crypto/tls + crypto/x509 verification (chain to RootCAs/ClientCAs, ServerName/IP SAN match) is ASSUMED as "
            "`serverCertAccepted` / `clientCertAccepted`; sampled by the certificate lattice (864 cases x tcp / websocket / quic); ALPN agreement in QUIC mode is "
            "ASSUMED as `alpnOk`",
        ],
        "assumptions": [
            "PARTIAL / level other: that TLS and AES-CFB output does not reveal its plaintext is cryptography and is not "
            "stated; the theorems say which layers every message kind and the payload pass (for every configuration), the "
            "engine observes marker absence on a real wire for 28 configurations (tcp, websocket, quic)",
            "the message-to-channel table (`channel`) is hand-read from every msg.WriteMsg / dispatcher Send site; only "
            "NewControl's cipher wrap and the secret-named fields are regenerated by the translator",
            "driven transports: recording relay (marker absence): tcp with and without tcpMux, websocket, quic (recording "
            "UDP relay in front of the quic port); session / identity rules: tcp, websocket, quic (complete certificate "
            "lattice), wss and kcp (samples); no recording relay in front of the kcp port; OIDC bearer tokens (Login.PrivilegeKey holds the token "
            "itself under auth.method=oidc) and NewProxy.GroupKey are outside the property's wording and not modelled",
            "observation recorded as theorem secretlyProtected_iff / emptyToken_witness: both AES-CFB layers are keyed "
            "by pbkdf2(token, constant salt); with an empty token and TLS off the cipher key is public",
        ],
    }

META = {
        "engine": "lean+translator(AuthFacts)+harness(wire)",
        "design_ref": "DESIGN.md §6 C05",
        "technique": "Lean 4 decision theorems over the full configuration space (first-byte partition for all bytes, forced "
                     "TLS, tls.Config identity settings, layer table for all 18 message kinds x every path configuration), "
                     "facts regenerated from the Go source, and an observed wire (recording relay between real frpc and frps, "
                     "exhaustive sniff, raw-peer and certificate lattices)",
        "text": "Partial (cryptographic secrecy is not expressible). Proved for the model, kernel-checked: a forcing server "
                "(force, or a trusted CA) never treats any first byte as plaintext and a peer that does not complete an "
                "acceptable TLS handshake never reaches message decoding — on every public listener (tcp, tls-muxed, kcp, "
                "websocket, and quic, whose tls.Config is a clone of the server's with only ALPN changed) and, at session "
                "level, for every control transport (tcp, kcp, websocket, wss, quic); a trusted CA implies RequireAndVerifyClientCert; a "
                "client with a CA verifies chain and server name and gets no session with another identity; the token "
                "travels only as digest in every message kind; NewProxy (the only carrier of secret key / HTTP password in "
                "clear form) always passes the token-keyed control cipher on public listeners; with TLS every message kind "
                "and the payload are under TLS; without TLS exactly Login, LoginResp, NewWorkConn, StartWorkConn, NatHoleSid, "
                "NewVisitorConn(Resp) (and unencrypted payload) are readable; useEncryption puts the cipher layer on both "
                "ends in the same order. Observed on the real code on every run: 512 sniff cases, 512 raw-peer cases, about 3400 "
                "certificate cases over tcp / websocket / quic / wss / kcp, 28 recorded frpc<->frps sessions (tcp, websocket, quic) with random markers, 3000 token-setter cases.",
        "note": "Trusted: Lean kernel; hand-written model Frp/Model/Wire.lean; translator gen_authfacts.go; harness. Assumed: "
                "crypto/tls, crypto/x509, golib crypto. Not covered: marker observation on the kcp UDP path, OIDC bearer token in "
                "Login, group keys, xtcp peer-to-peer traffic (not on the frpc<->frps path).",
    }
