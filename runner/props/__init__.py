"""Per-property configuration: one module Cnn.py per claimed property, each defining PROP and META."""
import importlib, os, pkgutil

COMMON_TRUST = [
    "correspondence harness /verif/harness (generators, canonicalisation) links /repo with -tags verif",
    "Lean compiler for *running* the model in the driver (not for the theorems)",
]

PROPS, META = {}, {}
for m in pkgutil.iter_modules([os.path.dirname(__file__)]):
    if m.name.startswith("C"):
        mod = importlib.import_module("props." + m.name)
        PROPS[m.name] = mod.PROP
        META[m.name] = mod.META
