from props import COMMON_TRUST


def conf_nontrivial(tok, res):
    op = tok[0]
    if op == "rt":
        # a reconstruction that carried at least one non-zero typed value
        return res.startswith("ok") and res.count("=z") < res.count("=") - 3
    if op in ("prs", "prn", "pair", "bw"):
        return res.startswith("ok ") or res == "err"
    if op == "dom":
        return res != "ok" or tok[3] != "-"
    if op == "fmt":
        return True
    return op in ("prstr", "prrt", "tmpl", "port")


def conf_class(r):
    if r.startswith("ok"):
        return "ok"
    if r.startswith("err"):
        return r.split(" ")[0][:14]
    if r.startswith("x"):
        return "str"
    return " ".join(r.split(" ")[:2])[:28]


PROP = {
        "level": "proof",
        "gens": ["ProxyMsg"],
        "theorems": [
            "Frp.C18.tables_ok", "Frp.C18.tables_covered", "Frp.C18.marshal_fields_exact",
            "Frp.C18.recon_shape", "Frp.C18.types_exact", "Frp.C18.complete_get",
            "Frp.C18.roundtrip",
            "Frp.C18.roundtrip_tcp", "Frp.C18.roundtrip_udp", "Frp.C18.roundtrip_http",
            "Frp.C18.roundtrip_https", "Frp.C18.roundtrip_tcpmux", "Frp.C18.roundtrip_stcp",
            "Frp.C18.roundtrip_xtcp", "Frp.C18.roundtrip_sudp",
            "Frp.C18.norm_mode_id", "Frp.C18.norm_other_id",
            "Frp.C18.rtHoldsOn_sound", "Frp.C18.model_rtHoldsOn",
            "Frp.C18.validatePort_iff", "Frp.C18.subdomain_ok",
            "Frp.C18.domain_witness", "Frp.C18.domain_full_fails",
            "Frp.C18.domain_outside_partial", "Frp.C18.domain_outside_fixed",
            "Frp.C18.domainHoldsOn_sound", "Frp.C18.domain_outside_current",
            "Frp.C18.parseRange_printRange", "Frp.C18.ports_roundtrip", "Frp.C18.ports_empty_not_roundtrip",
            "Frp.C18.printHoldsOn_sound", "Frp.C18.model_printHoldsOn", "Frp.C18.trim_idem",
            "Frp.C18.bw_reparse", "Frp.C18.bwHoldsOn_sound", "Frp.C18.norm_bw_id", "Frp.C18.pair_spec",
            "Frp.C18.numbersPiece_span", "Frp.C18.numbersPiece_single", "Frp.C18.model_rtRangesHoldsOn",
        ],
        "engines": [
            {"name": "conf", "quick_n": 12000, "thorough_n": 60000, "thorough_seeds": 5,
             "nontrivial": conf_nontrivial, "result_class": conf_class},
        ],
        "rule": "conf engine: generated typed proxy configs (all eight types; unicode, empty vs nil lists/maps, "
                "boundary numbers, bandwidth literals, both modes, with and without the JSON wire) through the real "
                "MarshalToMsg and NewProxyConfigurerFromMsg; range / bandwidth literals incl. a malformed stream; "
                "ports; domain validation with mixed-case names; TOML/YAML/JSON renderings and templated documents "
                "(differential). Non-trivial = reconstruction carrying several non-zero fields, a parse that "
                "succeeded or was refused, a domain verdict with at least one custom domain; distinct = distinct "
                "(op line, result) pairs",
        "trusted": COMMON_TRUST + [
            "translator /verif/translate (gen_proxymsg.go, go/ast): the statement shapes it accepts are listed in "
            "its source; anything else aborts the run as a broken tie. Lean file Frp/Gen/ProxyMsg.lean is "
            "regenerated from pkg/config/v1/proxy.go, pkg/msg/msg.go, pkg/config/types/types.go, pkg/config/load.go "
            "on every run",
            "hand-written expectation Frp.C18.serverFields (which configuration fields the server acts on, per type)",
            "hand-written models Frp/Model/ConfNum.lean (ParseInt/Itoa/TrimSpace ASCII, port ranges, range numbers, "
            "bandwidth quantity) and Frp/Model/Validate.lean, tied by the conf engine",
        ],
        "assumptions": [
            "generic record model: fields are untyped values; Go's static typing of msg.NewProxy / the config structs is not modelled",
            "strconv.ParseFloat is modelled for plain decimals with at most 9 digits; other literals are counted and skipped",
            "TrimSpace / ToLower are modelled for ASCII; non-ASCII range strings are counted and skipped",
            "the agreement of the TOML, YAML and JSON loaders, strict mode and text/template rendering are "
            "differential tests of the real third-party parsers (ops fmt, tmpl), not covered by any theorem",
            "command-line flags (pkg/config/flags.go) are not covered by this check",
            "annotation keys are generated valid only (k8s IsQualifiedName is not modelled)",
        ],
    }

META = {
        "engine": "lean+translate(ProxyMsg)+harness(conf)",
        "design_ref": "DESIGN.md §6 C18, §7 item 13",
        "technique": "Lean 4 theorems over marshal/unmarshal assignment tables regenerated from the Go source "
                     "(go/ast translator) + proved textual round trips + differential correspondence with the real "
                     "MarshalToMsg / NewProxyConfigurerFromMsg / parsers / validators",
        "text": "Proof (partial): for each of the eight proxy types and every configuration record, interpreting the "
                "assignment statements of MarshalToMsg and then of NewProxyConfigurerFromMsg (UnmarshalFromMsg, "
                "Complete) as they stand in the source now yields, on every field the server acts on, the client's "
                "value up to two stated normalisations (bandwidth text re-parse, empty mode = client). Accepted "
                "domain configurations lie outside the subdomain host for lower-case names; for mixed case the "
                "negation is proved (known finding C18-domain-case) together with the theorem for the repaired check.",
        "note": "Trusted: Lean kernel, the translator's statement-shape recogniser, the hand-written list of "
                "server-relevant fields, the numeric/validation models (tied by 12k generated ops per quick run). "
                "Not covered by theorems: agreement of the three file-format parsers, strict mode, template "
                "rendering (differential only); flags.",
    }
